"""C13 configuration for bin/check."""

CFG = {'assumptions': ['usize arithmetic of SchemaMath does not overflow; func_cols >= 1',
                 'the scratch row handed to the merge callback is empty (core-relations clears it after '
                 'every call)'],
 'corr_is_violation': True,
 'harness': [{'bin': 'h_egg', 'extra': ['--prop', 'C13'], 'name': 'h_egg', 'prefix': 'cases_egg'},
             {'bin': 'h_egg',
              'env': {'EGGLOG_PARALLEL_DB_LEVEL_OP_CUTOFF': '0',
                      'EGGLOG_PARALLEL_REBUILD_CUTOFF': '0',
                      'EGGLOG_PARALLEL_TABLE_OP_CUTOFF': '0'},
              'extra': ['--prop', 'C13', '--threads', '4', '--cases', '60'],
              'name': 'h_egg_par',
              'prefix': 'cases_egg'}],
 'link_only': "extraction skipping subsumed rows (C07's filter), push/pop, :subsume rewrites are covered by "
              'the correspondence sessions only',
 'model_targets': ['Egg/Rules.vo'],
 'proof_targets': ['Props/C13.vo'],
 'theorem_backed': 'regenerated source facts: the frontend constrains every rule-body table atom to '
                   'non-subsumed rows (= the model matcher filter) and the extractor scans are guarded by '
                   '!row.subsumed; subsume flag is OR under merge (translated combine_subsumed), sticky '
                   'through any insert sequence and through rebuild in either order; rule matching never '
                   'sees subsumed rows at any nesting depth; eval (check) and rebuild (congruence) ignore '
                   'the flag; subsume/delete frames; REGENERATED merge callback (gen/SchemaFns.v from '
                   'MergeFn::to_callback): for every arity and every merge function the row a table with '
                   'subsumption holds after the callback carries combine_subsumed(cur flag, new flag) = OR, '
                   'a flag change alone reports "changed" (c13_callback_flag_sticky, c13_combineN_is_or); '
                   'the subsume column is distinct from keys / value / timestamp and inside the row '
                   '(c13_subsume_column)',
 'tier_a': ['UFSeq',
            'MergeArms',
            'BridgeFns',
            'Facts.subsume_guards',
            'SchemaFns.SchemaMath',
            'SchemaFns.combine_subsumed',
            'SchemaFns.to_callback',
            'SchemaFns.ResolvedMergeFn',
            'SchemaFns.run'],
 'trusted': ['translator /verif/translator: gen/UFSeq.v (union-find), gen/MergeArms.v (UnionId=min, Old, '
             'New), gen/BridgeFns.v (combine_subsumed) are regenerated from the source on every run and used '
             'by Egg/Model.v',
             'hand-written model coq/Egg/Model.v + Egg/Rules.v (naive matching, term-level commands) tied to '
             'the engine by the correspondence check h_egg (observations after every command: class vector '
             'of probe terms up to depth 3, table sizes, subsumed counts, int-valued probes)',
             'translator module x_schema.rs: gen/SchemaFns.v is regenerated from egglog-bridge/src/lib.rs on '
             'every run: SchemaMath column arithmetic (num_keys, table_columns, ret_val_col, ts_col, '
             'subsume_col) and write_table_row, SUBSUMED/NOT_SUBSUMED/combine_subsumed over N, the closure '
             'body of MergeFn::to_callback (statement by statement, mutable variables threaded), the enum '
             'ResolvedMergeFn and every arm of ResolvedMergeFn::run (structural Fixpoint; recursive calls '
             'keep the source argument order); usize +/- are unbounded N / truncated (theorems carry 1 <= '
             'func_cols); the ExecutionState is an effect log with oracle results (Egg/SchemaPrelude.v, '
             'hand-written semantics of call_external_func / stage_insert / lookup_or_insert)']}
