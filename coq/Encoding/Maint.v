(** C11: what the maintenance rules of the term encoding (Encoding/Templates.v) do.
    Part 1: the staged operations of every template rule, in both directions (every operation
    comes from rows of the stated form; rows of the stated form make the rule fire). *)
From Coq Require Import List Arith ZArith Bool PeanoNat Lia.
Import ListNotations.
Require Import Verif.Base.Res Verif.Egg.Model Verif.Egg.CCDefs
  Verif.Encoding.Datalog Verif.Encoding.DatalogFacts Verif.Encoding.Templates.

Definition ufE (d : db) (a b : val) : Prop := exists r, In r (gett d tUF) /\ dkey r = [a; b].
Definition uffE (d : db) (a b : val) : Prop := exists r, In r (gett d tUFf) /\ dkey r = [a] /\ dval r = b.
Definition viewE (d : db) (f : nat) (k : list val) : Prop := exists r, In r (gett d (tView f)) /\ dkey r = k.

Lemma val_eqb_refl v : val_eqb v v = true.
Proof. apply val_eqb_eq. reflexivity. Qed.

Lemma val_eqb_neq a b : a <> b -> val_eqb a b = false.
Proof. intros H. destruct (val_eqb a b) eqn:E; [apply val_eqb_eq in E; contradiction|reflexivity]. Qed.

Lemma negb_val_eqb_true a b : negb (val_eqb a b) = true -> a <> b.
Proof. intros H ->. rewrite val_eqb_refl in H. discriminate. Qed.

(* ------------------------------------------------------------------ __uf_update *)

Lemma uf_update_fired d ops o : rule_ops d r_uf_update = Ok ops -> In o ops ->
  (forall r, In r (gett d tUF) -> exists a b, dkey r = [a; b]) ->
  exists a b c, ufE d a b /\ ufE d b c /\ b <> c /\ (o = ODel tUF [a; b] \/ o = OSet tUF [a; c] unitv).
Proof.
  intros Hops Ho Hsh. destruct (rule_fired _ _ _ _ Hops Ho) as (e & os & Hs & Hg & Hi & Hin).
  cbn [r_uf_update rbody rguards racts] in *.
  inversion Hs as [|? ? (r1 & Hr1 & Hm1) Hs']; subst. inversion Hs' as [|? ? (r2 & Hr2 & Hm2) _]; subst.
  cbn [atab avars] in *. destruct (Hsh _ Hr1) as (a & b & Hk1). destruct (Hsh _ Hr2) as (b' & c & Hk2).
  unfold tuple in Hm1, Hm2. rewrite Hk1 in Hm1. rewrite Hk2 in Hm2. cbn [map app] in Hm1, Hm2.
  injection Hm1 as L0 L1 _. injection Hm2 as L1' L2 _. rewrite L1 in L1'. injection L1' as <-.
  cbn [guards_ok guard_ok eval_expr] in Hg. rewrite L1, L2 in Hg.
  cbn [inst_acts inst_act eval_exprs eval_expr] in Hi. rewrite L0, L1, L2 in Hi. injection Hi as <-.
  exists a, b, c. split; [exists r1; auto|]. split; [exists r2; auto|]. split.
  - apply negb_val_eqb_true. destruct (negb (val_eqb b c)); [reflexivity|discriminate].
  - destruct Hin as [<-|[<-|[]]]; auto.
Qed.

Lemma uf_update_fire d ops a b c : rule_ops d r_uf_update = Ok ops ->
  ufE d a b -> ufE d b c -> b <> c ->
  In (ODel tUF [a; b]) ops /\ In (OSet tUF [a; c] unitv) ops.
Proof.
  intros Hops (r1 & Hr1 & Hk1) (r2 & Hr2 & Hk2) Hne.
  set (F := fun x => match x with 0 => Some a | 1 => Some b | 2 => Some c
                               | 10 => Some (dval r1) | 11 => Some (dval r2) | _ => None end).
  assert (H : forall o, In o [ODel tUF [a; b]; OSet tUF [a; c] unitv] -> In o ops).
  { apply (rule_fire d r_uf_update ops F); [exact Hops| |].
    - cbn [r_uf_update rbody]. constructor; [|constructor; [|constructor]].
      + exists r1. split; [exact Hr1|]. unfold tuple. rewrite Hk1. reflexivity.
      + exists r2. split; [exact Hr2|]. unfold tuple. rewrite Hk2. reflexivity.
    - intros e He. cbn [r_uf_update rbody rguards racts body_vars flat_map avars app] in *.
      cbn [guards_ok guard_ok eval_expr inst_acts inst_act eval_exprs].
      rewrite (He 0), (He 1), (He 2) by (simpl; auto 10). cbn [F].
      rewrite (val_eqb_neq _ _ Hne). split; reflexivity. }
  split; apply H; simpl; auto.
Qed.

(* ------------------------------------------------------------------ singleparent__uf_update *)

Lemma single_parent_fired d ops o : rule_ops d r_single_parent = Ok ops -> In o ops ->
  (forall r, In r (gett d tUF) -> exists a b, dkey r = [VId a; VId b]) ->
  exists a b c, ufE d (VId a) (VId b) /\ ufE d (VId a) (VId c) /\ c < b /\
                (o = ODel tUF [VId a; VId b] \/ o = OSet tUF [VId b; VId c] unitv).
Proof.
  intros Hops Ho Hsh. destruct (rule_fired _ _ _ _ Hops Ho) as (e & os & Hs & Hg & Hi & Hin).
  cbn [r_single_parent rbody rguards racts] in *.
  inversion Hs as [|? ? (r1 & Hr1 & Hm1) Hs']; subst. inversion Hs' as [|? ? (r2 & Hr2 & Hm2) _]; subst.
  cbn [atab avars] in *. destruct (Hsh _ Hr1) as (a & b & Hk1). destruct (Hsh _ Hr2) as (a' & c & Hk2).
  unfold tuple in Hm1, Hm2. rewrite Hk1 in Hm1. rewrite Hk2 in Hm2. cbn [map app] in Hm1, Hm2.
  injection Hm1 as L0 L1 _. injection Hm2 as L0' L2 _. rewrite L0 in L0'. injection L0' as <-.
  cbn [guards_ok guard_ok eval_expr] in Hg. rewrite L1, L2 in Hg. cbn [vmax val_eqb] in Hg.
  cbn [inst_acts inst_act eval_exprs eval_expr] in Hi. rewrite L0, L1, L2 in Hi. injection Hi as <-.
  exists a, b, c. split; [exists r1; auto|]. split; [exists r2; auto|]. split.
  - destruct (Nat.eqb b c) eqn:E1; [discriminate|]. cbn [negb andb] in Hg. apply Nat.eqb_neq in E1.
    destruct (Nat.eqb (Nat.max b c) b) eqn:E2; [|discriminate]. apply Nat.eqb_eq in E2. lia.
  - destruct Hin as [<-|[<-|[]]]; auto.
Qed.

Lemma single_parent_fire d ops a b c : rule_ops d r_single_parent = Ok ops ->
  ufE d (VId a) (VId b) -> ufE d (VId a) (VId c) -> c < b ->
  In (ODel tUF [VId a; VId b]) ops /\ In (OSet tUF [VId b; VId c] unitv) ops.
Proof.
  intros Hops (r1 & Hr1 & Hk1) (r2 & Hr2 & Hk2) Hlt.
  set (F := fun x => match x with 0 => Some (VId a) | 1 => Some (VId b) | 2 => Some (VId c)
                               | 10 => Some (dval r1) | 11 => Some (dval r2) | _ => None end).
  assert (H : forall o, In o [ODel tUF [VId a; VId b]; OSet tUF [VId b; VId c] unitv] -> In o ops).
  { apply (rule_fire d r_single_parent ops F); [exact Hops| |].
    - cbn [r_single_parent rbody]. constructor; [|constructor; [|constructor]].
      + exists r1. split; [exact Hr1|]. unfold tuple. rewrite Hk1. reflexivity.
      + exists r2. split; [exact Hr2|]. unfold tuple. rewrite Hk2. reflexivity.
    - intros e He. cbn [r_single_parent rbody rguards racts body_vars flat_map avars app] in *.
      cbn [guards_ok guard_ok eval_expr inst_acts inst_act eval_exprs].
      rewrite (He 0), (He 1), (He 2) by (simpl; auto 10). cbn [F vmax val_eqb].
      replace (Nat.max b c) with b by lia. rewrite Nat.eqb_refl.
      destruct (Nat.eqb_spec b c) as [E|_]; [lia|]. split; reflexivity. }
  split; apply H; simpl; auto.
Qed.

(* ------------------------------------------------------------------ __uf_function_index *)

Lemma uf_index_fired d ops o : rule_ops d r_uf_index = Ok ops -> In o ops ->
  (forall r, In r (gett d tUF) -> exists a b, dkey r = [a; b]) ->
  exists a b, ufE d a b /\ o = OSet tUFf [a] b.
Proof.
  intros Hops Ho Hsh. destruct (rule_fired _ _ _ _ Hops Ho) as (e & os & Hs & Hg & Hi & Hin).
  cbn [r_uf_index rbody rguards racts] in *.
  inversion Hs as [|? ? (r1 & Hr1 & Hm1) _]; subst.
  cbn [atab avars] in *. destruct (Hsh _ Hr1) as (a & b & Hk1).
  unfold tuple in Hm1. rewrite Hk1 in Hm1. cbn [map app] in Hm1. injection Hm1 as L0 L1 _.
  cbn [inst_acts inst_act eval_exprs eval_expr] in Hi. rewrite L0, L1 in Hi. injection Hi as <-.
  exists a, b. split; [exists r1; auto|]. destruct Hin as [<-|[]]. reflexivity.
Qed.

Lemma uf_index_fire d ops a b : rule_ops d r_uf_index = Ok ops -> ufE d a b -> In (OSet tUFf [a] b) ops.
Proof.
  intros Hops (r1 & Hr1 & Hk1).
  set (F := fun x => match x with 0 => Some a | 1 => Some b | 10 => Some (dval r1) | _ => None end).
  apply (rule_fire d r_uf_index ops F [OSet tUFf [a] b]); [exact Hops| | |simpl; auto].
  - cbn [r_uf_index rbody]. constructor; [|constructor].
    exists r1. split; [exact Hr1|]. unfold tuple. rewrite Hk1. reflexivity.
  - intros e He. cbn [r_uf_index rbody rguards racts body_vars flat_map avars app] in *.
    cbn [guards_ok inst_acts inst_act eval_exprs eval_expr].
    rewrite (He 0), (He 1) by (simpl; auto 10). cbn [F]. split; reflexivity.
Qed.

(* ------------------------------------------------------------------ __congruence_rule *)

Lemma view_atom_split e n x y (cs : list val) (o v : val) :
  length cs = n ->
  map (lookup e) (seq 0 n ++ [x; y]) = map Some ((cs ++ [o]) ++ [v]) ->
  map (lookup e) (seq 0 n) = map Some cs /\ lookup e x = Some o /\ lookup e y = Some v.
Proof.
  intros Hl H. rewrite <- app_assoc in H. rewrite !map_app in H.
  apply app_eq_length_inv in H; [|rewrite !map_length, seq_length; auto].
  destruct H as [H1 H2]. cbn [map app] in H2. injection H2 as H2 H3. auto.
Qed.

Lemma congruence_fired d f n ops o : rule_ops d (r_congruence f n) = Ok ops -> In o ops ->
  (forall r, In r (gett d (tView f)) -> exists cs o, dkey r = cs ++ [VId o] /\ length cs = n) ->
  exists cs o1 o2, length cs = n /\ viewE d f (cs ++ [VId o1]) /\ viewE d f (cs ++ [VId o2]) /\ o2 < o1 /\
                   o = OSet tUF [VId o1; VId o2] unitv.
Proof.
  intros Hops Ho Hsh. destruct (rule_fired _ _ _ _ Hops Ho) as (e & os & Hs & Hg & Hi & Hin).
  cbn [r_congruence rbody rguards racts] in *.
  inversion Hs as [|? ? (r1 & Hr1 & Hm1) Hs']; subst. inversion Hs' as [|? ? (r2 & Hr2 & Hm2) _]; subst.
  cbn [atab avars] in *. destruct (Hsh _ Hr1) as (cs1 & o1 & Hk1 & Hl1). destruct (Hsh _ Hr2) as (cs2 & o2 & Hk2 & Hl2).
  unfold tuple in Hm1, Hm2. rewrite Hk1 in Hm1. rewrite Hk2 in Hm2.
  apply view_atom_split in Hm1; [|exact Hl1]. apply view_atom_split in Hm2; [|exact Hl2].
  destruct Hm1 as (Hc1 & Ln & _). destruct Hm2 as (Hc2 & LSn & _).
  rewrite Hc1 in Hc2. apply map_Some_inj in Hc2. subst cs2.
  cbn [guards_ok guard_ok eval_expr] in Hg. rewrite Ln, LSn in Hg. cbn [vmax val_eqb] in Hg.
  cbn [inst_acts inst_act eval_exprs eval_expr] in Hi. rewrite Ln, LSn in Hi. cbn [vmax vmin] in Hi. injection Hi as <-.
  assert (Hlt : o2 < o1).
  { destruct (Nat.eqb o2 o1) eqn:E1; [discriminate|]. cbn [negb andb] in Hg. apply Nat.eqb_neq in E1.
    destruct (Nat.eqb (Nat.max o2 o1) o1) eqn:E2; [|discriminate]. apply Nat.eqb_eq in E2. lia. }
  exists cs1, o1, o2. split; [exact Hl1|]. split; [exists r1; auto|]. split; [exists r2; auto|]. split; [exact Hlt|].
  destruct Hin as [<-|[]]. replace (Nat.max o1 o2) with o1 by lia. replace (Nat.min o1 o2) with o2 by lia. reflexivity.
Qed.

Lemma congruence_fire d f n ops cs o1 o2 : rule_ops d (r_congruence f n) = Ok ops ->
  length cs = n -> viewE d f (cs ++ [VId o1]) -> viewE d f (cs ++ [VId o2]) -> o2 < o1 ->
  In (OSet tUF [VId o1; VId o2] unitv) ops.
Proof.
  intros Hops Hl (r1 & Hr1 & Hk1) (r2 & Hr2 & Hk2) Hlt.
  set (F := fun x => if x <? n then Some (nth x cs unitv) else if x =? n then Some (VId o1)
                     else if x =? S n then Some (VId o2) else if x =? 2 * n + 2 then Some (dval r1)
                     else if x =? 2 * n + 3 then Some (dval r2) else None).
  assert (Fcs : map F (seq 0 n) = map Some cs).
  { rewrite <- Hl. apply (map_seq_nth F unitv). intros i Hi. cbn [Nat.add]. unfold F.
    destruct (Nat.ltb_spec i n); [reflexivity|lia]. }
  assert (Fn : F n = Some (VId o1)).
  { unfold F. rewrite Nat.ltb_irrefl, Nat.eqb_refl. reflexivity. }
  assert (FSn : F (S n) = Some (VId o2)).
  { unfold F. destruct (Nat.ltb_spec (S n) n); [lia|]. destruct (Nat.eqb_spec (S n) n); [lia|].
    rewrite Nat.eqb_refl. reflexivity. }
  assert (F2 : F (2 * n + 2) = Some (dval r1)).
  { unfold F. destruct (Nat.ltb_spec (2 * n + 2) n); [lia|]. destruct (Nat.eqb_spec (2 * n + 2) n); [lia|].
    destruct (Nat.eqb_spec (2 * n + 2) (S n)); [lia|]. rewrite Nat.eqb_refl. reflexivity. }
  assert (F3 : F (2 * n + 3) = Some (dval r2)).
  { unfold F. destruct (Nat.ltb_spec (2 * n + 3) n); [lia|]. destruct (Nat.eqb_spec (2 * n + 3) n); [lia|].
    destruct (Nat.eqb_spec (2 * n + 3) (S n)); [lia|]. destruct (Nat.eqb_spec (2 * n + 3) (2 * n + 2)); [lia|].
    rewrite Nat.eqb_refl. reflexivity. }
  apply (rule_fire d (r_congruence f n) ops F [OSet tUF [VId o1; VId o2] unitv]); [exact Hops| | |simpl; auto].
  - cbn [r_congruence rbody]. constructor; [|constructor; [|constructor]].
    + exists r1. split; [exact Hr1|]. cbn [avars]. unfold tuple. rewrite Hk1, <- app_assoc, !map_app, Fcs.
      cbn [map app]. rewrite Fn, F2. reflexivity.
    + exists r2. split; [exact Hr2|]. cbn [avars]. unfold tuple. rewrite Hk2, <- app_assoc, !map_app, Fcs.
      cbn [map app]. rewrite FSn, F3. reflexivity.
  - intros e He. cbn [r_congruence rbody rguards racts] in *.
    assert (Ln : lookup e n = F n).
    { apply He. unfold body_vars. cbn [flat_map avars]. rewrite !in_app_iff. left. right. simpl. auto. }
    assert (LSn : lookup e (S n) = F (S n)).
    { apply He. unfold body_vars. cbn [flat_map avars]. rewrite !in_app_iff. right. left. right. simpl. auto. }
    cbn [guards_ok guard_ok eval_expr inst_acts inst_act eval_exprs].
    rewrite Ln, LSn, Fn, FSn. cbn [vmax vmin val_eqb].
    replace (Nat.max o2 o1) with o1 by lia. replace (Nat.max o1 o2) with o1 by lia.
    replace (Nat.min o1 o2) with o2 by lia. rewrite Nat.eqb_refl.
    destruct (Nat.eqb_spec o2 o1); [lia|]. split; reflexivity.
Qed.
