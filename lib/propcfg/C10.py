"""C10 configuration for bin/check."""

CFG = {
        "tier_a": ["SchedFns"],
        "model_targets": ["Sched/Algebra.vo"],
        "proof_targets": ["Props/C10.vo"],
        "harness": [{"bin": "h_sched", "prefix": "cases_sched"}],
        "trusted": [
            "translator /verif/translator (sched.rs: run_schedule / run_rules / collect_rule_ids from src/lib.rs, "
            "RunReport default/union/singleton from egglog-reports/src/lib.rs -> gen/SchedFns.v; the theorems are about that file)",
            "harness h_sched: ruleset of each engine iteration is identified by a per-ruleset :naive marker rule in the iteration's rule report",
        ],
        "theorem_backed": "run_schedule (translated): (run R n) = n single iterations ending after the first no-change one; :until tested before "
                          "every iteration; repeat a (repeat b s) = repeat (a*b) s under no early stop; seq associativity/flattening/unit; "
                          "saturate ends on a no-update execution and (for quiescent leaves) at a fixpoint, idempotent; RunReport monoid; "
                          "collect_rule_ids resolves combined rulesets against the current table -- all for every step/holds",
        "link_only": "what one iteration does to the database and when it reports `changed` (step_rules / backend.run_rules), leaf quiescence "
                     "(a no-update iteration leaves the canonical dump unchanged) and purity of check_facts: checked on the real engine by h_sched "
                     "(law-related schedule pairs give equal dumps; re-running a saturated schedule reports no update)",
        "assumptions": [
            "step_rules and check_facts are total functions of the state (Err paths: NoSuchRuleset is excluded by schedule typechecking; a failing primitive aborts the schedule and is not modelled)",
            "check_facts is modelled as a pure test (the code runs a throw-away rule; the harness checks the dump is unchanged by a stopped :until run)",
            "RunReport timing / match-count maps are not modelled (no branch reads them)",
            "custom schedulers (src/scheduler.rs, can_stop != !updated) are covered by the theorems that do not assume singleton_like, not by the harness",
        ],
    }
