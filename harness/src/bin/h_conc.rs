//! C19 (thread pool + shared-memory helpers) and the concurrent half of C17 (concurrent union-find):
//! seeded stress / correspondence harness against the REAL implementations
//! (`egglog_concurrency::{ThreadPool, ReadOptimizedLock, ParallelVecWriter, ConcurrentVec,
//! NotificationList}`, `egglog_union_find::concurrent::UnionFind`).
//!
//! `h_conc --out DIR --seed N --tier quick|thorough [--replay FILE] [--only scope|rolock|vec|uf]`
//!
//! Every scenario is generated from `Rng::for_case(seed, BASE_<sub> + index)` (the interleaving is
//! of course not deterministic), runs under a watchdog thread, has the property predicates
//! evaluated on the implementation's observable behaviour (violations), and is written as a case
//! for the Coq models `Conc/ScopeModel.v`, `Conc/RoLockModel.v`, `Conc/WritersModel.v`,
//! `UF/ConcModel.v` (`check_case`).
#![allow(clippy::too_many_arguments, clippy::type_complexity, clippy::needless_range_loop)]
#![allow(unexpected_cfgs)]
use egglog_concurrency::{ConcurrentVec, NotificationList, ParallelVecWriter, ReadOptimizedLock, Scope, ThreadPool};
use egglog_numeric_id::{define_id, NumericId};
use egglog_union_find::concurrent::UnionFind;
use serde_json::{json, Value};
use std::any::Any;
use std::collections::{BTreeMap, HashSet};
use std::panic::{catch_unwind, panic_any, resume_unwind, AssertUnwindSafe};
use std::sync::atomic::{AtomicBool, AtomicU64, AtomicUsize, Ordering::SeqCst};
use std::sync::{mpsc, Arc, Mutex};
use std::time::{Duration, Instant};
use verif_harness::util::*;
use verif_harness::Opts;

/// Allocator of this harness binary: the system allocator, except that GROWING a block of >= 4 KiB
/// always moves it (which `realloc` is free to do at any time) and the old block is parked in a
/// small quarantine before it is really freed. Correct code cannot tell the difference; code that
/// writes through a stale buffer pointer (e.g. a `ParallelVecWriter` copy that does not hold its
/// read guard while a concurrent `reserve_space` grows the vector) then loses its data
/// deterministically - reported as "chunk not in the final vector" - instead of corrupting the heap
/// or crashing only when the C library happens to move the block.
struct MovingRealloc;
const QUARANTINE_SLOTS: usize = 32;
const MOVE_MIN: usize = 4096;
static QUARANTINE: Mutex<([(usize, usize, usize); QUARANTINE_SLOTS], usize)> = Mutex::new(([(0, 0, 0); QUARANTINE_SLOTS], 0));
static MOVED_REALLOCS: AtomicUsize = AtomicUsize::new(0);
// SAFETY: defers to `System` for every allocation and deallocation; `realloc` follows the documented
// contract (the new block holds the old contents up to the smaller of the two sizes).
unsafe impl std::alloc::GlobalAlloc for MovingRealloc {
    unsafe fn alloc(&self, l: std::alloc::Layout) -> *mut u8 {
        unsafe { std::alloc::System.alloc(l) }
    }
    unsafe fn dealloc(&self, p: *mut u8, l: std::alloc::Layout) {
        unsafe { std::alloc::System.dealloc(p, l) }
    }
    unsafe fn alloc_zeroed(&self, l: std::alloc::Layout) -> *mut u8 {
        unsafe { std::alloc::System.alloc_zeroed(l) }
    }
    unsafe fn realloc(&self, ptr: *mut u8, layout: std::alloc::Layout, new_size: usize) -> *mut u8 {
        use std::alloc::{Layout, System};
        if layout.size() < MOVE_MIN || new_size <= layout.size() {
            return unsafe { System.realloc(ptr, layout, new_size) };
        }
        let Ok(nl) = Layout::from_size_align(new_size, layout.align()) else {
            return std::ptr::null_mut();
        };
        let np = unsafe { System.alloc(nl) };
        if np.is_null() {
            return np;
        }
        unsafe { std::ptr::copy_nonoverlapping(ptr, np, layout.size()) };
        MOVED_REALLOCS.fetch_add(1, SeqCst);
        let ev = {
            let mut q = QUARANTINE.lock().unwrap_or_else(|e| e.into_inner());
            let slot = q.1 % QUARANTINE_SLOTS;
            q.1 += 1;
            std::mem::replace(&mut q.0[slot], (ptr as usize, layout.size(), layout.align()))
        };
        if ev.0 != 0 {
            unsafe { System.dealloc(ev.0 as *mut u8, Layout::from_size_align_unchecked(ev.1, ev.2)) };
        }
        np
    }
}
#[global_allocator]
static HARNESS_ALLOC: MovingRealloc = MovingRealloc;

define_id!(pub UId, u32, "union-find id of the harness");
define_id!(pub NId, u32, "notification-list id of the harness");

type Payload = Box<dyn Any + Send + 'static>;

const BASE_SCOPE: u64 = 0;
const BASE_ROLOCK: u64 = 1_000_000;
const BASE_VEC: u64 = 2_000_000;
const BASE_UF: u64 = 3_000_000;

// ------------------------------------------------------------------------------------------------
// common infrastructure

/// wait-free event log: the position of an event IS the value of the global SeqCst counter
struct EvLog {
    seq: Arc<AtomicU64>,
    slots: Vec<AtomicU64>,
    overflow: AtomicBool,
}
const VALID: u64 = 1 << 63;
fn enc(kind: u64, inst: usize, a: usize, b: usize) -> u64 {
    VALID | (kind << 56) | (((inst as u64) & 0xFFFF) << 40) | (((a as u64) & 0xFFFFF) << 20) | ((b as u64) & 0xFFFFF)
}
fn dec(w: u64) -> (u64, usize, usize, usize) {
    ((w >> 56) & 0xF, ((w >> 40) & 0xFFFF) as usize, ((w >> 20) & 0xFFFFF) as usize, (w & 0xFFFFF) as usize)
}
impl EvLog {
    fn new(cap: usize, seq: Arc<AtomicU64>) -> Self {
        EvLog { seq, slots: (0..cap).map(|_| AtomicU64::new(0)).collect(), overflow: AtomicBool::new(false) }
    }
    #[inline]
    fn ev(&self, kind: u64, inst: usize, a: usize, b: usize) {
        let i = self.seq.fetch_add(1, SeqCst) as usize;
        if i < self.slots.len() {
            self.slots[i].store(enc(kind, inst, a, b), SeqCst);
        } else {
            self.overflow.store(true, SeqCst);
        }
    }
    #[inline]
    fn stamp(&self) -> u64 {
        self.seq.fetch_add(1, SeqCst)
    }
    /// events in seq order (only call at quiescence)
    fn collect(&self) -> Vec<(u64, usize, usize, usize)> {
        let n = (self.seq.load(SeqCst) as usize).min(self.slots.len());
        (0..n).map(|i| self.slots[i].load(SeqCst)).filter(|w| w & VALID != 0).map(dec).collect()
    }
}

struct Viol {
    what: String,
    key: String,
    input: Value,
}

#[derive(Default)]
struct SubRep {
    name: String,
    scenarios: usize,
    cases: usize,
    shards: usize,
    nontrivial: usize,
    rule: String,
    samples: Vec<Value>,
    viols: Vec<Viol>,
    hists: BTreeMap<String, BTreeMap<String, usize>>,
    extra: BTreeMap<String, usize>,
    deadlocked: bool,
    wall_ms: u128,
}
impl SubRep {
    fn new(name: &str) -> Self {
        SubRep { name: name.to_string(), ..Default::default() }
    }
    fn bump(&mut self, hist: &str, key: impl ToString) {
        *self.hists.entry(hist.to_string()).or_default().entry(key.to_string()).or_insert(0) += 1;
    }
    fn add(&mut self, k: &str, n: usize) {
        *self.extra.entry(k.to_string()).or_insert(0) += n;
    }
    fn viol(&mut self, what: String, key: &str, input: &Value) {
        if self.viols.len() < 40 {
            self.viols.push(Viol { what, key: key.to_string(), input: input.clone() });
        }
        self.add("violations_total", 1);
    }
}
fn bucket(n: usize, w: usize) -> String {
    let lo = n / w * w;
    format!("{:04}-{:04}", lo, lo + w - 1)
}
fn spin(n: u32) {
    for i in 0..n {
        std::hint::black_box(i);
        std::hint::spin_loop();
    }
}
/// single-use spinning start barrier: all threads leave within a few hundred ns of each other
struct Barrier {
    n: usize,
    c: AtomicUsize,
}
impl Barrier {
    fn new(n: usize) -> Self {
        Barrier { n, c: AtomicUsize::new(0) }
    }
    fn wait(&self) {
        self.c.fetch_add(1, SeqCst);
        let mut k = 0u32;
        while self.c.load(SeqCst) < self.n {
            k = k.wrapping_add(1);
            if k % 4096 == 0 {
                std::thread::yield_now();
            } else {
                std::hint::spin_loop();
            }
        }
    }
}
fn payload_str(p: &Payload) -> String {
    if p.is::<Marker>() {
        "harness marker".into()
    } else if let Some(s) = p.downcast_ref::<&str>() {
        s.to_string()
    } else if let Some(s) = p.downcast_ref::<String>() {
        s.clone()
    } else {
        "<opaque payload>".into()
    }
}

/// a fatal signal (SIGSEGV/SIGBUS/SIGILL) inside a scenario is an observation (a memory
/// fault behind a safe API), not a reason to lose the report: the faulting thread is parked inside
/// the handler for good, the driver records the violation and stops that sub.
static CRASHED: AtomicUsize = AtomicUsize::new(0);
extern "C" {
    fn signal(sig: i32, handler: usize) -> usize;
    fn pause() -> i32;
    fn _exit(code: i32) -> !;
}
extern "C" fn on_crash(sig: i32) {
    CRASHED.store(sig as usize, SeqCst);
    loop {
        unsafe {
            pause();
        }
    }
}
fn install_crash_handlers() {
    // not SIGABRT: glibc aborts on heap corruption while holding the allocator lock; parking that
    // thread would hang every other thread. The supervising parent reports the abort instead.
    for sig in [11, 7, 4] {
        unsafe {
            signal(sig, on_crash as *const () as usize);
        }
    }
}

enum Outcome<T> {
    Crashed(usize),
    Done(T),
    Panicked(String),
    Timeout,
}
/// run `f` in a fresh thread; give up (leaking the thread) when `progress` (the scenario's event
/// counter) has not moved for `secs` seconds: a slow, overloaded machine is not a deadlock
fn watchdog<T: Send + 'static>(secs: u64, progress: &Arc<AtomicU64>, f: impl FnOnce() -> T + Send + 'static) -> Outcome<T> {
    let (tx, rx) = mpsc::channel();
    let h = std::thread::Builder::new().stack_size(32 << 20).spawn(move || {
        let r = catch_unwind(AssertUnwindSafe(f));
        let _ = tx.send(r);
    });
    if h.is_err() {
        return Outcome::Panicked("could not spawn scenario thread".into());
    }
    let mut last = (progress.load(SeqCst), Instant::now());
    loop {
        match rx.recv_timeout(Duration::from_millis(500)) {
            Ok(Ok(v)) => return Outcome::Done(v),
            Ok(Err(p)) => return Outcome::Panicked(payload_str(&p)),
            Err(mpsc::RecvTimeoutError::Disconnected) => return Outcome::Panicked("scenario thread vanished".into()),
            Err(mpsc::RecvTimeoutError::Timeout) => {
                if CRASHED.load(SeqCst) != 0 {
                    return Outcome::Crashed(CRASHED.load(SeqCst));
                }
                let now = progress.load(SeqCst);
                if now != last.0 {
                    last = (now, Instant::now());
                } else if last.1.elapsed() >= Duration::from_secs(secs) {
                    return Outcome::Timeout;
                }
            }
        }
    }
}

/// which (seed, index) scenarios a sub runs: corpus entries first, then the replayed one or the
/// regular range
struct Plan {
    items: Vec<(u64, u64, &'static str)>,
}
fn input_of(v: &Value) -> Option<&Value> {
    if v.get("violation").and_then(|x| x.get("input")).map(|x| x.is_object()).unwrap_or(false) {
        return v.get("violation").and_then(|x| x.get("input"));
    }
    if v.get("input").map(|x| x.is_object()).unwrap_or(false) {
        return v.get("input");
    }
    if v.get("sub").is_some() && v.get("index").is_some() {
        return Some(v);
    }
    None
}
fn sub_matches(inp: &Value, sub: &str) -> Option<(u64, u64)> {
    let s = inp.get("sub")?.as_str()?;
    if s != sub {
        return None;
    }
    Some((inp.get("seed")?.as_u64()?, inp.get("index")?.as_u64()?))
}
fn make_plan(o: &Opts, sub: &str, n_regular: u64) -> Plan {
    let mut items = Vec::new();
    for dir in ["/verif/corpus/C19", "/verif/corpus/C17"] {
        let mut files: Vec<_> = match std::fs::read_dir(dir) {
            Ok(rd) => rd.flatten().map(|e| e.path()).filter(|p| p.extension().map(|x| x == "json").unwrap_or(false)).collect(),
            Err(_) => continue,
        };
        files.sort();
        for f in files {
            if let Ok(txt) = std::fs::read_to_string(&f) {
                if let Ok(v) = serde_json::from_str::<Value>(&txt) {
                    if let Some((seed, idx)) = input_of(&v).and_then(|i| sub_matches(i, sub)) {
                        for _ in 0..20 {
                            items.push((seed, idx, "corpus"));
                        }
                    }
                }
            }
        }
    }
    let mut regular = true;
    if let Some(path) = &o.replay {
        if let Ok(txt) = std::fs::read_to_string(path) {
            if let Ok(v) = serde_json::from_str::<Value>(&txt) {
                if let Some(inp) = input_of(&v) {
                    regular = false; // a replay of one scenario (of this or of another sub)
                    if let Some((seed, idx)) = sub_matches(inp, sub) {
                        let reps = if o.thorough { 1000 } else { 200 };
                        for _ in 0..reps {
                            items.push((seed, idx, "replay"));
                        }
                    }
                }
            }
        }
    }
    if regular {
        for i in 0..n_regular {
            items.push((o.seed, i, "regular"));
        }
    }
    Plan { items }
}
fn wd_secs(o: &Opts) -> u64 {
    if o.thorough {
        60
    } else {
        20
    }
}

// ------------------------------------------------------------------------------------------------
// sub `scope`: egglog_concurrency::ThreadPool

struct Marker;

#[derive(Debug)]
enum Act {
    Spawn(Box<Task>),
    Work(u32),
    Yield,
    Sleep(u32),
    Nested(Box<ScopeSpec>),
    ParFor(usize),
    /// (top-level root callback only) spin until the direct children spawned so far have finished
    WaitKids,
    /// (task of a top-level scope only) spin until the root callback of this scope has ended
    WaitRootEnd,
}
#[derive(Debug, Default)]
struct Body {
    acts: Vec<Act>,
    panics: bool,
}
#[derive(Debug)]
struct Task {
    id: usize,
    gid: usize,
    body: Body,
}
#[derive(Debug)]
struct ScopeSpec {
    inst: usize,
    root: Body,
    free_fn: bool,
    rethrow: bool,
    top: bool,
    gid_lo: usize,
    gid_hi: usize,
}
struct ScopeScen {
    seed: u64,
    idx: u64,
    kind: &'static str,
    pool: usize,
    roots: Vec<ScopeSpec>,
    ninst: usize,
    ntasks: usize,
    has_nested: bool,
    has_task_spawn: bool,
    has_panic: bool,
    has_parfor: bool,
    max_sdepth: usize,
    desc: String,
}

struct G {
    r: Rng,
    ninst: usize,
    ngid: usize,
    panic_pct: usize,
    nested_pct: usize,
    has_nested: bool,
    has_task_spawn: bool,
    has_panic: bool,
    has_parfor: bool,
    max_sdepth: usize,
}
impl G {
    fn task(&mut self, tid: &mut usize, body_of: impl FnOnce(&mut G, &mut usize) -> Body) -> Box<Task> {
        *tid += 1;
        let id = *tid;
        let gid = self.ngid;
        self.ngid += 1;
        let body = body_of(self, tid);
        Box::new(Task { id, gid, body })
    }
    fn tiny(&mut self, tid: &mut usize, child_pct: usize) -> Box<Task> {
        self.task(tid, |g, tid| {
            let mut b = Body::default();
            if g.r.chance(child_pct, 100) {
                g.has_task_spawn = true;
                b.acts.push(Act::Spawn(g.task(tid, |_, _| Body::default())));
            }
            b
        })
    }
    fn open_scope(&mut self, top: bool, sdepth: usize, root_of: impl FnOnce(&mut G, &mut usize) -> Body) -> Box<ScopeSpec> {
        let inst = self.ninst;
        self.ninst += 1;
        if !top {
            self.has_nested = true;
        }
        self.max_sdepth = self.max_sdepth.max(sdepth);
        let gid_lo = self.ngid;
        let mut tid = 0usize;
        let root = root_of(self, &mut tid);
        let free_fn = self.r.chance(1, 3);
        let rethrow = self.r.chance(1, 2);
        Box::new(ScopeSpec { inst, root, free_fn, rethrow, top, gid_lo, gid_hi: self.ngid })
    }
    fn maybe_panic(&mut self) -> bool {
        let p = self.panic_pct > 0 && self.r.chance(self.panic_pct, 100);
        if p {
            self.has_panic = true;
        }
        p
    }
    /// random body of the root callback (depth 0) or of a task (depth >= 1)
    fn body(&mut self, tid: &mut usize, budget: &mut usize, depth: usize, sdepth: usize, top: bool) -> Body {
        let nacts = if depth == 0 {
            self.r.range(1, 12)
        } else if depth == 1 {
            self.r.range(0, 5)
        } else {
            self.r.range(0, 3)
        };
        let mut b = Body::default();
        for _ in 0..nacts {
            let x = self.r.below(100);
            if x < 58 {
                if *budget > 0 && depth < 4 {
                    *budget -= 1;
                    if depth >= 1 {
                        self.has_task_spawn = true;
                    }
                    let t = self.task(tid, |g, tid| g.body(tid, budget, depth + 1, sdepth, top));
                    b.acts.push(Act::Spawn(t));
                }
            } else if x < 68 {
                b.acts.push(Act::Work(self.r.range(10, 3000) as u32));
            } else if x < 76 {
                b.acts.push(Act::Yield);
            } else if x < 80 {
                b.acts.push(Act::Sleep(self.r.range(5, 150) as u32));
            } else if x < 80 + self.nested_pct {
                if sdepth < 3 && self.ninst < 14 {
                    let mut nb = self.r.range(1, 10);
                    let s = self.open_scope(false, sdepth + 1, |g, tid| g.body(tid, &mut nb, 0, sdepth + 1, false));
                    b.acts.push(Act::Nested(s));
                }
            } else if x < 96 {
                self.has_parfor = true;
                b.acts.push(Act::ParFor(self.r.below(16)));
            } else if depth == 0 && top {
                b.acts.push(Act::WaitKids);
            }
        }
        b.panics = self.maybe_panic();
        b
    }
    /// scope -> task -> nested scope -> task -> ... (d levels below this one)
    fn chain(&mut self, top: bool, sdepth: usize, d: usize) -> Box<ScopeSpec> {
        self.open_scope(top, sdepth, |g, tid| {
            let mut root = Body::default();
            let t = g.task(tid, |g, _| {
                let mut b = Body::default();
                if g.r.chance(1, 4) {
                    b.acts.push(Act::Work(g.r.range(10, 300) as u32));
                }
                if d > 0 {
                    let s = g.chain(false, sdepth + 1, d - 1);
                    b.acts.push(Act::Nested(s));
                }
                b.panics = d == 0 && g.maybe_panic();
                b
            });
            root.acts.push(Act::Spawn(t));
            if g.r.chance(1, 4) {
                let t2 = g.tiny(tid, 0);
                root.acts.push(Act::Spawn(t2));
            }
            root
        })
    }
}

fn desc_body(b: &Body, out: &mut String) {
    for a in &b.acts {
        match a {
            Act::Spawn(t) => {
                out.push_str(&format!("T{}", t.id));
                if !t.body.acts.is_empty() || t.body.panics {
                    out.push('(');
                    desc_body(&t.body, out);
                    out.push(')');
                }
            }
            Act::Work(_) => out.push('w'),
            Act::Yield => out.push('y'),
            Act::Sleep(_) => out.push('z'),
            Act::Nested(s) => {
                out.push_str(if s.free_fn { "F[" } else { "N[" });
                desc_body(&s.root, out);
                out.push(']');
                if s.rethrow {
                    out.push('^');
                }
            }
            Act::ParFor(n) => out.push_str(&format!("P{n}")),
            Act::WaitKids => out.push('K'),
            Act::WaitRootEnd => out.push('R'),
        }
    }
    if b.panics {
        out.push('!');
    }
}

fn gen_scope(seed: u64, idx: u64) -> ScopeScen {
    let mut g = G {
        r: Rng::for_case(seed, BASE_SCOPE + idx),
        ninst: 0,
        ngid: 0,
        panic_pct: 0,
        nested_pct: 10,
        has_nested: false,
        has_task_spawn: false,
        has_panic: false,
        has_parfor: false,
        max_sdepth: 0,
    };
    let sel = idx % 20;
    let mut pool = g.r.range(1, 16);
    let mut roots: Vec<ScopeSpec> = Vec::new();
    let kind: &'static str;
    match sel {
        0..=7 | 17 | 18 => {
            kind = match sel {
                0..=4 => "random",
                5..=7 => "random_panics",
                17 => "panic_mix",
                _ => "random_pool1",
            };
            g.panic_pct = match sel {
                0..=4 | 18 => 0,
                5..=7 => 6,
                _ => 15,
            };
            if sel == 17 {
                g.nested_pct = 14;
            }
            if sel == 18 {
                pool = 1;
            }
            let mut budget = g.r.range(3, 40);
            let s = g.open_scope(true, 0, |g, tid| g.body(tid, &mut budget, 0, 0, true));
            roots.push(*s);
        }
        8 | 9 => {
            kind = "hot";
            pool = g.r.range(2, 16);
            let m = g.r.range(20, 36);
            let s = g.open_scope(true, 0, |g, tid| {
                let mut root = Body::default();
                for _ in 0..m {
                    let t = g.tiny(tid, 12);
                    root.acts.push(Act::Spawn(t));
                }
                if g.r.chance(3, 10) {
                    root.acts.push(Act::WaitKids);
                }
                root
            });
            roots.push(*s);
        }
        10 | 11 | 19 if !(sel == 19 && (idx / 20) % 5 == 0) => {
            kind = "tiny_scopes";
            let n = g.r.range(15, 50);
            for _ in 0..n {
                let k = g.r.below(7);
                let s = g.open_scope(true, 0, |g, tid| {
                    let mut root = Body::default();
                    for _ in 0..k {
                        let t = g.tiny(tid, 25);
                        root.acts.push(Act::Spawn(t));
                    }
                    if g.r.chance(3, 10) {
                        root.acts.push(Act::WaitKids);
                    }
                    root
                });
                roots.push(*s);
            }
        }
        12 | 13 => {
            kind = "all_blocked";
            pool = g.r.range(1, 8);
            let m = g.r.range(pool, 2 * pool);
            let s = g.open_scope(true, 0, |g, tid| {
                let mut root = Body::default();
                for _ in 0..m {
                    let t = g.task(tid, |g, _| {
                        let kids = g.r.range(1, 4);
                        let ns = g.open_scope(false, 1, |g, tid| {
                            let mut nb = Body::default();
                            for _ in 0..kids {
                                let t = g.task(tid, |g, _| {
                                    let mut b = Body::default();
                                    if g.r.chance(1, 2) {
                                        b.acts.push(Act::Yield);
                                    }
                                    b
                                });
                                nb.acts.push(Act::Spawn(t));
                            }
                            nb
                        });
                        Body { acts: vec![Act::Nested(ns)], panics: false }
                    });
                    root.acts.push(Act::Spawn(t));
                }
                root
            });
            roots.push(*s);
        }
        14 => {
            kind = "after_root";
            pool = g.r.range(1, 8);
            let na = g.r.range(1, 3);
            let s = g.open_scope(true, 0, |g, tid| {
                let mut root = Body::default();
                for _ in 0..na {
                    let t = g.task(tid, |g, tid| {
                        g.has_task_spawn = true;
                        let mut b = Body::default();
                        b.acts.push(Act::WaitRootEnd);
                        b.acts.push(Act::Sleep(g.r.range(20, 120) as u32));
                        for _ in 0..g.r.range(1, 4) {
                            let c = g.tiny(tid, 30);
                            b.acts.push(Act::Spawn(c));
                        }
                        b
                    });
                    root.acts.push(Act::Spawn(t));
                }
                root
            });
            roots.push(*s);
        }
        15 | 16 => {
            kind = "deep1";
            pool = if g.r.chance(1, 4) { 2 } else { 1 };
            g.panic_pct = if sel == 16 { 30 } else { 0 };
            let d = g.r.range(4, 30);
            let s = g.chain(true, 0, d);
            roots.push(*s);
        }
        _ => {
            kind = "deep_backup";
            pool = 1;
            let d = g.r.range(66, 72);
            let s = g.chain(true, 0, d);
            roots.push(*s);
        }
    }
    let mut desc = format!("{kind}/p{pool}/");
    for s in &roots {
        desc.push_str(if s.free_fn { "F[" } else { "S[" });
        desc_body(&s.root, &mut desc);
        desc.push(']');
    }
    ScopeScen {
        seed,
        idx,
        kind,
        pool,
        roots,
        ninst: g.ninst,
        ntasks: g.ngid,
        has_nested: g.has_nested,
        has_task_spawn: g.has_task_spawn,
        has_panic: g.has_panic,
        has_parfor: g.has_parfor,
        max_sdepth: g.max_sdepth,
        desc,
    }
}

const K_SPAWN: u64 = 1;
const K_START: u64 = 2;
const K_END: u64 = 3;
const K_RET: u64 = 4;

struct Cx {
    log: EvLog,
    runs: Vec<AtomicUsize>,
    fin: Vec<AtomicBool>,
    spawned: Vec<AtomicBool>,
    inst_panicked: Vec<AtomicBool>,
    root_ended: Vec<AtomicBool>,
    viols: Arc<Mutex<Vec<(String, &'static str)>>>,
    nested_opened: AtomicUsize,
    swallowed: AtomicUsize,
    rethrown: AtomicUsize,
}
impl Cx {
    fn v(&self, what: String, key: &'static str) {
        let mut g = self.viols.lock().unwrap_or_else(|e| e.into_inner());
        if g.len() < 20 {
            g.push((what, key));
        }
    }
}

fn end_body(cx: &Cx, inst: usize, me: usize, gid: Option<usize>, r: Result<(), Payload>, panics: bool) {
    let mark = |p: bool| {
        if p {
            cx.inst_panicked[inst].store(true, SeqCst);
        }
        match gid {
            Some(g) => cx.fin[g].store(true, SeqCst),
            None => cx.root_ended[inst].store(true, SeqCst),
        }
    };
    match r {
        Err(p) => {
            mark(true);
            cx.log.ev(K_END, inst, me, 1);
            resume_unwind(p)
        }
        Ok(()) if panics => {
            mark(true);
            cx.log.ev(K_END, inst, me, 1);
            panic_any(Marker)
        }
        Ok(()) => {
            mark(false);
            cx.log.ev(K_END, inst, me, 0);
        }
    }
}

fn task_main<'s>(cx: &'s Cx, pool: &'s ThreadPool, s: &Scope<'s>, inst: usize, t: &'s Task) {
    cx.runs[t.gid].fetch_add(1, SeqCst);
    cx.log.ev(K_START, inst, t.id, 0);
    let r = run_acts(cx, pool, s, inst, t.id, &t.body);
    end_body(cx, inst, t.id, Some(t.gid), r, t.body.panics);
}

/// `Err(payload)`: the body must end now by re-raising a nested scope's panic
fn run_acts<'s>(cx: &'s Cx, pool: &'s ThreadPool, sc: &Scope<'s>, inst: usize, me: usize, body: &'s Body) -> Result<(), Payload> {
    let mut kids: Vec<usize> = Vec::new();
    for a in &body.acts {
        match a {
            Act::Spawn(t) => {
                let t: &'s Task = t;
                kids.push(t.gid);
                cx.spawned[t.gid].store(true, SeqCst);
                cx.log.ev(K_SPAWN, inst, me, t.id);
                sc.spawn(move |s| task_main(cx, pool, s, inst, t));
            }
            Act::Work(n) => spin(*n),
            Act::Yield => std::thread::yield_now(),
            Act::Sleep(us) => std::thread::sleep(Duration::from_micros(*us as u64)),
            Act::Nested(ns) => {
                cx.nested_opened.fetch_add(1, SeqCst);
                if let Err(p) = run_scope(cx, pool, ns) {
                    if ns.rethrow {
                        cx.rethrown.fetch_add(1, SeqCst);
                        return Err(p);
                    }
                    cx.swallowed.fetch_add(1, SeqCst);
                }
            }
            Act::ParFor(n) => {
                let cnt: Vec<AtomicUsize> = (0..*n).map(|_| AtomicUsize::new(0)).collect();
                let r = catch_unwind(AssertUnwindSafe(|| {
                    pool.parallel_for_each(0..*n, |i| {
                        cnt[i].fetch_add(1, SeqCst);
                    })
                }));
                if r.is_err() {
                    cx.v("parallel_for_each unwound although no callback panicked".into(), "scope-parfor");
                }
                for (i, c) in cnt.iter().enumerate() {
                    let k = c.load(SeqCst);
                    if k != 1 {
                        cx.v(format!("parallel_for_each returned with item {i} of {n} processed {k} times"), "scope-parfor");
                        break;
                    }
                }
            }
            Act::WaitKids => {
                for g in &kids {
                    while !cx.fin[*g].load(SeqCst) {
                        std::thread::yield_now();
                    }
                }
            }
            Act::WaitRootEnd => {
                while !cx.root_ended[inst].load(SeqCst) {
                    std::thread::yield_now();
                }
            }
        }
    }
    Ok(())
}

/// one real `ThreadPool::scope` call = one scope instance = one case
fn run_scope<'s>(cx: &'s Cx, pool: &'s ThreadPool, spec: &'s ScopeSpec) -> Result<(), Payload> {
    let inst = spec.inst;
    let r = catch_unwind(AssertUnwindSafe(|| {
        let cb = move |s: &Scope<'s>| {
            let r = run_acts(cx, pool, s, inst, 0, &spec.root);
            end_body(cx, inst, 0, None, r, spec.root.panics);
        };
        if spec.free_fn {
            if spec.top {
                pool.install(|| egglog_concurrency::scope(cb))
            } else {
                egglog_concurrency::scope(cb)
            }
        } else {
            pool.scope(cb)
        }
    }));
    cx.log.ev(K_RET, inst, r.is_err() as usize, 0);
    // predicates of this scope instance, evaluated the moment `scope` is back
    for gid in spec.gid_lo..spec.gid_hi {
        let sp = cx.spawned[gid].load(SeqCst);
        let n = cx.runs[gid].load(SeqCst);
        let f = cx.fin[gid].load(SeqCst);
        if sp && n == 0 {
            cx.v(format!("scope instance {inst} returned before spawned task (gid {gid}) ran"), "scope-early-return");
        } else if sp && n > 1 {
            cx.v(format!("task (gid {gid}) of scope instance {inst} ran {n} times"), "scope-double-run");
        } else if sp && !f {
            cx.v(format!("scope instance {inst} returned before spawned task (gid {gid}) finished"), "scope-early-return");
        } else if !sp && n != 0 {
            cx.v(format!("task (gid {gid}) ran {n} times without having been spawned"), "scope-double-run");
        }
    }
    let exp = cx.inst_panicked[inst].load(SeqCst);
    match &r {
        Err(p) if !exp => cx.v(
            format!("spurious panic: scope instance {inst} unwound ({}) although none of its bodies panicked", payload_str(p)),
            "scope-spurious-panic",
        ),
        Err(p) if !p.is::<Marker>() => cx.v(
            format!("scope instance {inst} unwound with a payload that no body raised: {}", payload_str(p)),
            "scope-foreign-panic",
        ),
        Ok(()) if exp => cx.v(format!("panic not reported: a body of scope instance {inst} panicked but scope returned normally"), "scope-panic-lost"),
        _ => {}
    }
    r
}

struct ScopeOut {
    events: Vec<(u64, usize, usize, usize)>,
    viols: Vec<(String, &'static str)>,
    overflow: bool,
    nested_opened: usize,
    swallowed: usize,
    rethrown: usize,
}

fn run_scope_scenario(sc: &ScopeScen, seq: Arc<AtomicU64>, viols: Arc<Mutex<Vec<(String, &'static str)>>>) -> ScopeOut {
    let cap = 2 * (3 * sc.ntasks + 2 * sc.ninst) + 64;
    let cx = Cx {
        log: EvLog::new(cap, seq),
        runs: (0..sc.ntasks).map(|_| AtomicUsize::new(0)).collect(),
        fin: (0..sc.ntasks).map(|_| AtomicBool::new(false)).collect(),
        spawned: (0..sc.ntasks).map(|_| AtomicBool::new(false)).collect(),
        inst_panicked: (0..sc.ninst).map(|_| AtomicBool::new(false)).collect(),
        root_ended: (0..sc.ninst).map(|_| AtomicBool::new(false)).collect(),
        viols,
        nested_opened: AtomicUsize::new(0),
        swallowed: AtomicUsize::new(0),
        rethrown: AtomicUsize::new(0),
    };
    let pool = ThreadPool::new(sc.pool);
    if pool.thread_count() != sc.pool {
        cx.v(format!("ThreadPool::new({}) reports {} threads", sc.pool, pool.thread_count()), "scope-pool");
    }
    for root in &sc.roots {
        let _ = run_scope(&cx, &pool, root);
    }
    drop(pool); // closes the channel and joins the workers
    for gid in 0..sc.ntasks {
        let sp = cx.spawned[gid].load(SeqCst) as usize;
        let n = cx.runs[gid].load(SeqCst);
        if n != sp {
            cx.v(format!("after the scenario task (gid {gid}) has run {n} times (spawned {sp} times): late or double run"), "scope-double-run");
        }
    }
    let viols = std::mem::take(&mut *cx.viols.lock().unwrap_or_else(|e| e.into_inner()));
    ScopeOut {
        events: cx.log.collect(),
        viols,
        overflow: cx.log.overflow.load(SeqCst),
        nested_opened: cx.nested_opened.load(SeqCst),
        swallowed: cx.swallowed.load(SeqCst),
        rethrown: cx.rethrown.load(SeqCst),
    }
}

fn scope_input(sc: &ScopeScen) -> Value {
    let mut d = sc.desc.clone();
    if d.len() > 400 {
        d.truncate(400);
        d.push_str("...");
    }
    json!({"sub": "scope", "seed": sc.seed, "index": sc.idx, "kind": sc.kind, "pool": sc.pool, "tasks": sc.ntasks, "scopes": sc.ninst, "desc": d})
}

fn sub_scope(o: &Opts) -> SubRep {
    let t0 = Instant::now();
    let mut rep = SubRep::new("scope");
    rep.rule = "seeded spawn trees on ThreadPool::scope (pool sizes 1..16; kinds random / random_panics / panic_mix / random_pool1 / hot / tiny_scopes / all_blocked / after_root / deep1 / deep_backup); one case per scope INSTANCE = its event log (ESpawn/EStart/EEnd/EReturn ordered by one SeqCst counter); a scenario is non-trivial iff it has a nested scope or a task spawning a task; distinct by the scenario descriptor (spawn tree)".into();
    let header = "From Coq Require Import List NArith.\nImport ListNotations.\nRequire Import Verif.Base.Cases Verif.Conc.ScopeModel.\n";
    let mut w = CaseWriter::new(&o.out, "cases_scope", header, "check_case", 250);
    let plan = make_plan(o, "scope", if o.thorough { 6000 } else { 300 });
    let mut distinct: HashSet<String> = HashSet::new();
    let mut distinct_cases: HashSet<String> = HashSet::new();
    for (seed, idx, origin) in plan.items {
        let sc = Arc::new(gen_scope(seed, idx));
        let input = scope_input(&sc);
        write_progress(o, "scope", &input);
        let sc2 = sc.clone();
        let seq = Arc::new(AtomicU64::new(0));
        let seq2 = seq.clone();
        let inflight: Arc<Mutex<Vec<(String, &'static str)>>> = Arc::new(Mutex::new(Vec::new()));
        let inflight2 = inflight.clone();
        let out = match watchdog(wd_secs(o), &seq, move || run_scope_scenario(&sc2, seq2, inflight2)) {
            Outcome::Done(x) => x,
            Outcome::Panicked(msg) => {
                rep.viol(format!("scenario thread panicked outside of any scope: {msg}"), "scope-panic", &input);
                continue;
            }
            Outcome::Timeout => {
                rep.viol(format!("deadlock/timeout: scenario did not finish, no event for {}s", wd_secs(o)), "scope-deadlock", &input);
                if let Ok(mut g) = inflight.try_lock() {
                    for (what, key) in g.drain(..) {
                        rep.viol(what, key, &input);
                    }
                }
                rep.deadlocked = true;
                break;
            }
            Outcome::Crashed(sig) => {
                if let Ok(mut g) = inflight.try_lock() {
                    for (what, key) in g.drain(..) {
                        rep.viol(what, key, &input);
                    }
                }
                rep.viol(format!("fatal signal {sig} (memory fault / abort) while the scenario was running"), "scope-crash", &input);
                rep.deadlocked = true;
                break;
            }
        };
        rep.scenarios += 1;
        rep.bump("origin_hist", origin);
        rep.bump("kind_hist", sc.kind);
        rep.bump("pool_hist", format!("{:02}", sc.pool));
        rep.bump("tasks_per_scenario_hist", bucket(sc.ntasks, 10));
        rep.bump("scope_nesting_depth_hist", sc.max_sdepth.min(99));
        let nontriv = sc.has_nested || sc.has_task_spawn;
        if distinct.insert(sc.desc.clone()) && nontriv {
            rep.nontrivial += 1;
        }
        rep.add("scenarios_with_nested_scope", sc.has_nested as usize);
        rep.add("scenarios_with_spawn_from_task", sc.has_task_spawn as usize);
        rep.add("scenarios_with_panics", sc.has_panic as usize);
        rep.add("scenarios_with_parallel_for_each", sc.has_parfor as usize);
        rep.add("nested_scopes_opened", out.nested_opened);
        rep.add("nested_panics_swallowed", out.swallowed);
        rep.add("nested_panics_rethrown", out.rethrown);
        if out.overflow {
            rep.viol("event log overflow: more events than the spawn tree can produce (bodies ran more than once)".into(), "scope-double-run", &input);
        }
        for (what, key) in out.viols {
            rep.viol(what, key, &input);
        }
        // one case per scope instance
        let mut per: BTreeMap<usize, Vec<String>> = BTreeMap::new();
        let mut stats: BTreeMap<usize, (bool, bool)> = BTreeMap::new(); // (spawn from task, unwound)
        for (k, inst, a, b) in &out.events {
            let s = match *k {
                K_SPAWN => {
                    if *a > 0 {
                        stats.entry(*inst).or_default().0 = true;
                    }
                    format!("ESpawn {a} {b}")
                }
                K_START => format!("EStart {a}"),
                K_END => format!("EEnd {a} {}", coq_bool(*b != 0)),
                _ => {
                    if *a != 0 {
                        stats.entry(*inst).or_default().1 = true;
                    }
                    format!("EReturn {}", coq_bool(*a != 0))
                }
            };
            per.entry(*inst).or_default().push(s);
        }
        for (inst, evs) in per {
            let term = format!("[{}]", evs.join("; "));
            rep.bump("events_per_case_hist", bucket(evs.len(), 10));
            let st = stats.get(&inst).copied().unwrap_or_default();
            rep.add("cases_with_spawn_from_task", st.0 as usize);
            rep.add("cases_unwound", st.1 as usize);
            if distinct_cases.insert(term.clone()) {
                rep.add("distinct_case_logs", 1);
            }
            if rep.samples.len() < 4 && (st.0 || evs.len() > 8) && evs.len() < 40 {
                rep.samples.push(json!({"scenario": input, "scope_instance": inst, "case": term}));
            }
            w.push(term);
        }
    }
    w.flush();
    write_progress(o, &rep.name.clone(), &json!({"sub": rep.name, "done": true}));
    rep.cases = w.total;
    rep.shards = w.shards;
    rep.wall_ms = t0.elapsed().as_millis();
    rep
}

// ------------------------------------------------------------------------------------------------
// sub `rolock`: egglog_concurrency::ReadOptimizedLock

const K_RDIN: u64 = 5;
const K_RDOUT: u64 = 6;
const K_WRIN: u64 = 7;
const K_WROUT: u64 = 8;

struct Pair {
    lo: u64,
    hi: u64,
}
#[derive(Debug, Clone)]
struct RoOp {
    write: bool,
    spin_mid: u32,
    yield_mid: bool,
    gap: u32,
    shrink: bool,
    grow: usize,
}
#[derive(Debug)]
struct RoScen {
    n: usize,
    vecvar: bool,
    write_pct: usize,
    ops: Vec<Vec<RoOp>>,
}
fn gen_rolock(seed: u64, idx: u64) -> RoScen {
    let mut r = Rng::for_case(seed, BASE_ROLOCK + idx);
    let n = r.range(2, 8);
    let vecvar = idx % 5 == 4;
    let write_pct = *r.pick(&[3usize, 10, 25, 50, 80]);
    let max_ops = 25.min(120 / n);
    let mut ops = Vec::new();
    for _ in 0..n {
        let k = r.range(5, max_ops.max(5));
        let mut v = Vec::new();
        for _ in 0..k {
            v.push(RoOp {
                write: r.chance(write_pct, 100),
                spin_mid: if r.chance(1, 2) { r.range(0, 60) as u32 } else { r.range(0, 1500) as u32 },
                yield_mid: r.chance(1, 8),
                gap: r.range(0, 300) as u32,
                shrink: r.chance(1, 3),
                grow: r.range(1, 9),
            });
        }
        ops.push(v);
    }
    // make sure there is at least one writer and one reader op on different threads
    ops[0][0].write = true;
    let l = ops[1].len();
    ops[1][l - 1].write = false;
    RoScen { n, vecvar, write_pct, ops }
}

fn run_rolock_scenario(sc: &RoScen, seq: Arc<AtomicU64>) -> Vec<(u64, usize, usize, usize)> {
    let total: usize = sc.ops.iter().map(|v| v.len()).sum();
    let log = EvLog::new(2 * total + 16, seq);
    let wctr = AtomicU64::new(0);
    let barrier = Barrier::new(sc.n);
    if !sc.vecvar {
        let lock = ReadOptimizedLock::new(Pair { lo: 0, hi: 0 });
        std::thread::scope(|ts| {
            for t in 0..sc.n {
                let (lock, log, wctr, barrier, ops) = (&lock, &log, &wctr, &barrier, &sc.ops[t]);
                ts.spawn(move || {
                    barrier.wait();
                    for op in ops {
                        spin(op.gap);
                        if op.write {
                            let mut w = lock.lock();
                            log.ev(K_WRIN, t, 0, 0);
                            let v = wctr.fetch_add(1, SeqCst) + 1;
                            unsafe { std::ptr::write_volatile(&mut w.lo, v) };
                            spin(op.spin_mid);
                            if op.yield_mid {
                                std::thread::yield_now();
                            }
                            unsafe { std::ptr::write_volatile(&mut w.hi, v) };
                            log.ev(K_WROUT, t, v as usize, 0);
                            drop(w);
                        } else {
                            let r = lock.read();
                            log.ev(K_RDIN, t, 0, 0);
                            let a = unsafe { std::ptr::read_volatile(&r.lo) };
                            spin(op.spin_mid);
                            if op.yield_mid {
                                std::thread::yield_now();
                            }
                            let b = unsafe { std::ptr::read_volatile(&r.hi) };
                            log.ev(K_RDOUT, t, a as usize, b as usize);
                            drop(r);
                        }
                    }
                });
            }
        });
    } else {
        let lock = ReadOptimizedLock::new(vec![0u64, 0u64]);
        std::thread::scope(|ts| {
            for t in 0..sc.n {
                let (lock, log, wctr, barrier, ops) = (&lock, &log, &wctr, &barrier, &sc.ops[t]);
                ts.spawn(move || {
                    barrier.wait();
                    for op in ops {
                        spin(op.gap);
                        if op.write {
                            let mut w = lock.lock();
                            log.ev(K_WRIN, t, 0, 0);
                            let v = wctr.fetch_add(1, SeqCst) + 1;
                            let old = w.len();
                            let newlen = if old >= 64 { 2 } else { old + op.grow };
                            w.clear();
                            if op.shrink {
                                w.shrink_to_fit();
                            }
                            for i in 0..newlen {
                                w.push(v);
                                if i == newlen / 2 {
                                    spin(op.spin_mid);
                                    if op.yield_mid {
                                        std::thread::yield_now();
                                    }
                                }
                            }
                            log.ev(K_WROUT, t, v as usize, 0);
                            drop(w);
                        } else {
                            let r = lock.read();
                            log.ev(K_RDIN, t, 0, 0);
                            let len = r.len();
                            let a = if len > 0 { r[0] } else { 0xFFFFF };
                            spin(op.spin_mid);
                            if op.yield_mid {
                                std::thread::yield_now();
                            }
                            let mut b = if len > 0 { r[len - 1] } else { 0xFFFFE };
                            for x in r.iter() {
                                if *x != a {
                                    b = *x;
                                    break;
                                }
                            }
                            log.ev(K_RDOUT, t, (a & 0xFFFFF) as usize, (b & 0xFFFFF) as usize);
                            drop(r);
                        }
                    }
                });
            }
        });
    }
    log.collect()
}

fn sub_rolock(o: &Opts) -> SubRep {
    let t0 = Instant::now();
    let mut rep = SubRep::new("rolock");
    rep.rule = "n=2..8 threads with seeded read/write op lists (write share 3..80%) on one ReadOptimizedLock; the datum is a pair written/read in two volatile halves with a seeded spin/yield in between (every 5th scenario: a Vec cleared and refilled to a new length); case = (n, log of ERdIn/ERdOut/EWrIn/EWrOut logged INSIDE the critical sections, ordered by one SeqCst counter); non-trivial iff the log has a writer and a reader section of different threads and is not thread-by-thread sequential; distinct by the generated op lists".into();
    let header = "From Coq Require Import List NArith.\nImport ListNotations.\nRequire Import Verif.Base.Cases Verif.Conc.RoLockModel.\n";
    let mut w = CaseWriter::new(&o.out, "cases_rolock", header, "check_case", 100);
    let plan = make_plan(o, "rolock", if o.thorough { 3000 } else { 150 });
    let mut distinct: HashSet<String> = HashSet::new();
    for (seed, idx, origin) in plan.items {
        let sc = Arc::new(gen_rolock(seed, idx));
        let input = json!({"sub": "rolock", "seed": seed, "index": idx, "threads": sc.n, "variant": if sc.vecvar {"vec"} else {"pair"}, "write_pct": sc.write_pct});
        write_progress(o, "rolock", &input);
        let sc2 = sc.clone();
        let seq = Arc::new(AtomicU64::new(0));
        let seq2 = seq.clone();
        let evs = match watchdog(wd_secs(o), &seq, move || run_rolock_scenario(&sc2, seq2)) {
            Outcome::Done(x) => x,
            Outcome::Panicked(msg) => {
                rep.viol(format!("scenario panicked: {msg}"), "rolock-panic", &input);
                continue;
            }
            Outcome::Timeout => {
                rep.viol(format!("deadlock/timeout: scenario did not finish, no event for {}s", wd_secs(o)), "rolock-deadlock", &input);
                rep.deadlocked = true;
                break;
            }
            Outcome::Crashed(sig) => {
                rep.viol(format!("fatal signal {sig} (memory fault / abort) while the scenario was running"), "rolock-crash", &input);
                rep.deadlocked = true;
                break;
            }
        };
        rep.scenarios += 1;
        rep.bump("origin_hist", origin);
        rep.bump("threads_hist", sc.n);
        rep.bump("variant_hist", if sc.vecvar { "vec_resize" } else { "pair" });
        rep.bump("write_pct_hist", format!("{:02}", sc.write_pct));
        rep.bump("events_per_case_hist", bucket(evs.len(), 20));
        // predicates on the sorted log
        let mut active_w: Option<usize> = None;
        let mut active_r: HashSet<usize> = HashSet::new();
        let mut last_v = 0usize;
        let mut expect: Vec<usize> = vec![0; sc.n];
        let mut overlap = false;
        let mut reported: HashSet<&'static str> = HashSet::new();
        let mut readers_concurrent = false;
        let (mut nrd, mut nwr) = (0usize, 0usize);
        let mut terms = Vec::new();
        for (k, t, a, b) in &evs {
            match *k {
                K_RDIN => {
                    nrd += 1;
                    if let Some(wt) = active_w {
                        overlap = true;
                        if reported.insert("rolock-overlap-rw") {
                            rep.viol(format!("reader section of thread {t} starts inside the writer section of thread {wt}"), "rolock-overlap-rw", &input);
                        }
                    }
                    if !active_r.is_empty() {
                        readers_concurrent = true;
                    }
                    active_r.insert(*t);
                    expect[*t] = last_v;
                    terms.push(format!("ERdIn {t}"));
                }
                K_RDOUT => {
                    active_r.remove(t);
                    if a != b {
                        if reported.insert("rolock-torn") {
                            rep.viol(format!("torn read by thread {t}: halves {a} and {b}"), "rolock-torn", &input);
                        }
                    } else if !overlap && *a != expect[*t] && reported.insert("rolock-stale") {
                        rep.viol(format!("thread {t} read {a}, but the last write completed before its read section stored {}", expect[*t]), "rolock-stale", &input);
                    }
                    terms.push(format!("ERdOut {t} {} {}", (*a).min(4999), (*b).min(4999)));
                }
                K_WRIN => {
                    nwr += 1;
                    if let Some(wt) = active_w {
                        overlap = true;
                        if reported.insert("rolock-overlap-ww") {
                            rep.viol(format!("writer section of thread {t} starts inside the writer section of thread {wt}"), "rolock-overlap-ww", &input);
                        }
                    }
                    if !active_r.is_empty() {
                        overlap = true;
                        if reported.insert("rolock-overlap-rw") {
                            rep.viol(format!("writer section of thread {t} starts while threads {:?} are inside reader sections", active_r), "rolock-overlap-rw", &input);
                        }
                    }
                    active_w = Some(*t);
                    terms.push(format!("EWrIn {t}"));
                }
                _ => {
                    if active_w == Some(*t) {
                        active_w = None;
                    }
                    last_v = *a;
                    terms.push(format!("EWrOut {t} {a}"));
                }
            }
        }
        // thread-by-thread sequential?
        let mut seen_done: HashSet<usize> = HashSet::new();
        let mut cur: Option<usize> = None;
        let mut interleaved = false;
        for (_, t, _, _) in &evs {
            if cur != Some(*t) {
                if let Some(c) = cur {
                    seen_done.insert(c);
                }
                if seen_done.contains(t) {
                    interleaved = true;
                }
                cur = Some(*t);
            }
        }
        let wt: HashSet<usize> = evs.iter().filter(|e| e.0 == K_WRIN).map(|e| e.1).collect();
        let rt: HashSet<usize> = evs.iter().filter(|e| e.0 == K_RDIN).map(|e| e.1).collect();
        let diff = wt.iter().any(|x| rt.iter().any(|y| x != y));
        let nontriv = interleaved && diff;
        rep.add("scenarios_interleaved", interleaved as usize);
        rep.add("scenarios_concurrent_readers_observed", readers_concurrent as usize);
        rep.add("reader_sections", nrd);
        rep.add("writer_sections", nwr);
        if distinct.insert(format!("{:?}", sc)) && nontriv {
            rep.nontrivial += 1;
        }
        let term = format!("({}, [{}])", sc.n, terms.join("; "));
        if rep.samples.len() < 3 && evs.len() < 40 {
            rep.samples.push(json!({"scenario": input, "case": term}));
        }
        w.push(term);
    }
    w.flush();
    write_progress(o, &rep.name.clone(), &json!({"sub": rep.name, "done": true}));
    rep.cases = w.total;
    rep.shards = w.shards;
    rep.wall_ms = t0.elapsed().as_millis();
    rep
}

// ------------------------------------------------------------------------------------------------
// sub `vec`: ParallelVecWriter, ConcurrentVec, NotificationList

#[derive(Debug)]
struct PvwCall {
    cid: usize,
    slice: bool,
    items: Vec<usize>,
    verify: bool,
}
#[derive(Debug)]
enum VecScen {
    Pvw { init_len: usize, calls: Vec<Vec<PvwCall>>, readers: usize },
    Cv { cap: usize, counts: Vec<usize>, readers: usize },
    Nl { rounds: Vec<Vec<Vec<usize>>> },
    /// growth DURING copies: tiny initial vector, many large write_slice / write_cell_slice calls
    PvwBig { threads: usize, writes: usize, chunk: usize, cell: bool, rounds: usize, perturb: u64 },
}
fn gen_vec(seed: u64, idx: u64) -> VecScen {
    let mut r = Rng::for_case(seed, BASE_VEC + idx);
    let sel = idx % 5;
    if idx % 10 == 7 {
        // every 10th scenario: the buffer is re-allocated (and, with this binary's allocator, moved)
        // many times while other threads are in the middle of copying their chunks
        return VecScen::PvwBig {
            threads: r.range(6, 8),
            writes: r.range(8, 14),
            chunk: r.range(1024, 2048),
            cell: r.chance(1, 3),
            rounds: 8,
            perturb: if r.chance(1, 2) { 1 + r.next() % 1_000_000 } else { 0 },
        };
    }
    if sel <= 2 {
        let init_len = r.below(21);
        let nt = r.range(2, 8);
        let mut cid = 0usize;
        let mut calls = Vec::new();
        for _ in 0..nt {
            let k = r.range(1, 6);
            let mut v = Vec::new();
            for _ in 0..k {
                let len = r.below(13);
                v.push(PvwCall { cid, slice: r.chance(1, 2), items: (0..len).map(|j| cid * 13 + j).collect(), verify: r.chance(1, 2) });
                cid += 1;
            }
            calls.push(v);
        }
        VecScen::Pvw { init_len, calls, readers: r.below(3) }
    } else if sel == 3 || (idx / 5) % 2 == 0 {
        let nt = r.range(2, 6);
        VecScen::Cv { cap: r.range(1, 2), counts: (0..nt).map(|_| r.range(3, 20)).collect(), readers: r.range(1, 2) }
    } else {
        let nt = r.range(2, 8);
        let hi = *r.pick(&[40usize, 130, 200]);
        let rounds = (0..2)
            .map(|_| (0..nt).map(|_| (0..r.range(5, 40)).map(|_| if r.chance(1, 3) { r.below(12) } else { r.below(hi) }).collect()).collect())
            .collect();
        VecScen::Nl { rounds }
    }
}

struct VecOut {
    viols: Vec<(String, &'static str)>,
    case: Option<String>,
    threads: usize,
    realloc: bool,
    total_len: usize,
    reader_checks: usize,
}

fn run_vec_scenario(sc: &VecScen, prog: Arc<AtomicU64>) -> VecOut {
    let prog = &*prog;
    let viols: Mutex<Vec<(String, &'static str)>> = Mutex::new(Vec::new());
    let v = |what: String, key: &'static str| {
        let mut g = viols.lock().unwrap_or_else(|e| e.into_inner());
        if g.len() < 10 {
            g.push((what, key));
        }
    };
    let reader_checks = AtomicUsize::new(0);
    let mut out = VecOut { viols: vec![], case: None, threads: 0, realloc: false, total_len: 0, reader_checks: 0 };
    match sc {
        VecScen::Pvw { init_len, calls, readers } => {
            let mut init: Vec<usize> = Vec::with_capacity(*init_len);
            for i in 0..*init_len {
                init.push(640 + i);
            }
            let cap0 = init.capacity();
            let expect_init = init.clone();
            let pvw = ParallelVecWriter::new(init);
            let done = AtomicBool::new(false);
            let barrier = Barrier::new(calls.len() + readers);
            let starts: Mutex<Vec<(usize, usize)>> = Mutex::new(Vec::new()); // (cid, start)
            std::thread::scope(|ts| {
                let mut hs = Vec::new();
                for cl in calls {
                    let (pvw, barrier, starts, v) = (&pvw, &barrier, &starts, &v);
                    hs.push(ts.spawn(move || {
                        barrier.wait();
                        let mut mine = Vec::new();
                        for c in cl {
                            let start = if c.slice { pvw.write_slice(&c.items) } else { pvw.write_contents(c.items.iter().copied()) };
                            mine.push((c.cid, start));
                            prog.fetch_add(1, SeqCst);
                            if c.verify {
                                let ra = pvw.unsafe_read_access();
                                let s = unsafe { ra.get_unchecked_slice(start..start + c.items.len()) };
                                if s != &c.items[..] {
                                    v(format!("call {} wrote {:?} at {start} but reads back {:?} right after", c.cid, c.items, s), "vec-pvw-readback");
                                }
                            }
                        }
                        starts.lock().unwrap().extend(mine);
                    }));
                }
                for _ in 0..*readers {
                    let (pvw, barrier, done, v, expect_init, reader_checks) = (&pvw, &barrier, &done, &v, &expect_init, &reader_checks);
                    ts.spawn(move || {
                        barrier.wait();
                        let mut i = 0usize;
                        loop {
                            let fin = done.load(SeqCst);
                            {
                                let ra = pvw.read_access();
                                if &ra[..] != &expect_init[..] {
                                    v(format!("read_access() shows {:?}, the initial prefix is {:?}", &ra[..], expect_init), "vec-pvw-prefix");
                                }
                            }
                            if !expect_init.is_empty() {
                                let k = i % expect_init.len();
                                if pvw.with_index(k, |x| *x) != expect_init[k] {
                                    v(format!("with_index({k}) differs from the initial prefix"), "vec-pvw-prefix");
                                }
                                let ok = pvw.with_slice(k..expect_init.len(), |s| s == &expect_init[k..]);
                                if !ok {
                                    v(format!("with_slice({k}..) differs from the initial prefix"), "vec-pvw-prefix");
                                }
                            }
                            reader_checks.fetch_add(1, SeqCst);
                            i += 1;
                            if fin {
                                break;
                            }
                            std::thread::yield_now();
                        }
                    });
                }
                for h in hs {
                    let _ = h.join();
                }
                done.store(true, SeqCst);
            });
            let fin = pvw.finish();
            let starts = starts.into_inner().unwrap();
            let all: Vec<&PvwCall> = calls.iter().flatten().collect();
            let mut ws: Vec<(usize, &Vec<usize>)> = Vec::new();
            for c in &all {
                match starts.iter().find(|(cid, _)| *cid == c.cid) {
                    Some((_, s)) => ws.push((*s, &c.items)),
                    None => v(format!("call {} did not return", c.cid), "vec-pvw-lost"),
                }
            }
            ws.sort_by_key(|(s, it)| (*s, it.len()));
            let total: usize = all.iter().map(|c| c.items.len()).sum();
            if fin.len() != init_len + total {
                v(format!("finish() has length {}, expected {} initial + {} written", fin.len(), init_len, total), "vec-pvw-len");
            }
            if fin.len() < *init_len || fin[..*init_len] != expect_init[..] {
                v("finish(): the initial prefix is not intact".into(), "vec-pvw-prefix");
            }
            let mut cur = *init_len;
            for (s, it) in &ws {
                if *s != cur {
                    v(format!("reserved ranges do not tile: a write of {} items starts at {s}, previous range ends at {cur}", it.len()), "vec-pvw-overlap");
                    break;
                }
                cur += it.len();
            }
            for (s, it) in &ws {
                if fin.get(*s..*s + it.len()) != Some(&it[..]) {
                    v(format!("items {:?} written at {s} are not in the final vector there", it), "vec-pvw-items");
                    break;
                }
            }
            out.threads = calls.len();
            out.total_len = fin.len();
            out.realloc = fin.len() > cap0;
            out.case = Some(format!(
                "({}, {}, {})",
                coq_nat_list(&expect_init),
                coq_list(&ws, |(s, it)| format!("({}, {})", (*s).min(4999), coq_nat_list(it))),
                coq_list(&fin, |x| (*x).min(4999).to_string())
            ));
        }
        VecScen::Cv { cap, counts, readers } => {
            let cv: ConcurrentVec<usize> = ConcurrentVec::with_capacity(*cap);
            let done = AtomicBool::new(false);
            let barrier = Barrier::new(counts.len() + readers);
            let pushed: Mutex<Vec<(usize, usize)>> = Mutex::new(Vec::new()); // (value, returned index)
            let seen: Mutex<Vec<(usize, usize)>> = Mutex::new(Vec::new()); // (index, value) observed by readers
            let valid = |x: usize| x >= 1 && (x - 1) / 64 < counts.len() && (x - 1) % 64 < counts[(x - 1) / 64];
            std::thread::scope(|ts| {
                let mut hs = Vec::new();
                for (t, n) in counts.iter().enumerate() {
                    let (cv, barrier, pushed) = (&cv, &barrier, &pushed);
                    hs.push(ts.spawn(move || {
                        barrier.wait();
                        let mut mine = Vec::new();
                        for j in 0..*n {
                            let val = t * 64 + j + 1;
                            mine.push((val, cv.push(val)));
                            prog.fetch_add(1, SeqCst);
                        }
                        pushed.lock().unwrap().extend(mine);
                    }));
                }
                for _ in 0..*readers {
                    let (cv, barrier, done, v, seen, valid, reader_checks) = (&cv, &barrier, &done, &v, &seen, &valid, &reader_checks);
                    ts.spawn(move || {
                        barrier.wait();
                        let mut obs: Vec<usize> = Vec::new();
                        loop {
                            let fin = done.load(SeqCst);
                            {
                                let r = cv.read();
                                if r.len() < obs.len() {
                                    v(format!("read() shows {} elements after a read that showed {}", r.len(), obs.len()), "vec-cv-shrink");
                                }
                                for (i, x) in r.iter().enumerate() {
                                    if !valid(*x) {
                                        v(format!("read() shows element {x} at index {i}, which nobody pushed"), "vec-cv-garbage");
                                        break;
                                    }
                                    if i < obs.len() {
                                        if obs[i] != *x {
                                            v(format!("element {i} changed from {} to {x}", obs[i]), "vec-cv-changed");
                                            break;
                                        }
                                    } else {
                                        obs.push(*x);
                                    }
                                }
                            }
                            reader_checks.fetch_add(1, SeqCst);
                            if fin {
                                break;
                            }
                            std::thread::yield_now();
                        }
                        seen.lock().unwrap().extend(obs.into_iter().enumerate());
                    });
                }
                for h in hs {
                    let _ = h.join();
                }
                done.store(true, SeqCst);
            });
            let fin: Vec<usize> = cv.read().to_vec();
            let mut pushed = pushed.into_inner().unwrap();
            pushed.sort_by_key(|(_, i)| *i);
            let total: usize = counts.iter().sum();
            if pushed.len() != total || fin.len() != total {
                v(format!("{} pushes returned, final length {}, expected {total}", pushed.len(), fin.len()), "vec-cv-len");
            }
            for (k, (val, i)) in pushed.iter().enumerate() {
                if *i != k {
                    v(format!("returned indices are not a permutation of 0..{total}: {:?}", pushed.iter().map(|p| p.1).collect::<Vec<_>>()), "vec-cv-index");
                    break;
                }
                if fin.get(*i) != Some(val) {
                    v(format!("push({val}) returned index {i} but the final vector holds {:?} there", fin.get(*i)), "vec-cv-items");
                    break;
                }
            }
            for (i, x) in seen.into_inner().unwrap() {
                if fin.get(i) != Some(&x) {
                    v(format!("a reader saw {x} at index {i}; its pusher got a different index"), "vec-cv-items");
                    break;
                }
            }
            out.threads = counts.len();
            out.total_len = fin.len();
            out.realloc = total > cap.next_power_of_two();
            out.case = Some(format!(
                "([], {}, {})",
                coq_list(&pushed, |(val, i)| format!("({}, [{}])", (*i).min(4999), (*val).min(4999))),
                coq_list(&fin, |x| (*x).min(4999).to_string())
            ));
        }
        VecScen::PvwBig { threads, writes, chunk, cell, rounds, perturb } => {
            #[cfg(egglog_verif)]
            egglog_concurrency::verif_hooks::PERTURB_SEED.store(*perturb, SeqCst);
            let _ = perturb;
            let tag = |rd: usize, t: usize, w: usize, off: usize| -> u64 { 1 + (((rd as u64) << 48) | ((t as u64) << 40) | ((w as u64) << 24) | off as u64) };
            let mut max_len = 0usize;
            for rd in 0..*rounds {
                let barrier = Barrier::new(*threads);
                let prefix: Vec<u64> = (0..3).map(|i| tag(rd, 255, 0, i)).collect();
                // (chunk length, returned starts) per thread, and the final vector as plain u64
                let (res, fin): (Vec<(usize, Vec<usize>)>, Vec<u64>) = if !*cell {
                    let pvw = ParallelVecWriter::new(prefix.clone());
                    let res = std::thread::scope(|ts| {
                        let hs: Vec<_> = (0..*threads)
                            .map(|t| {
                                let (pvw, barrier, tag) = (&pvw, &barrier, &tag);
                                ts.spawn(move || {
                                    let len = *chunk + t * 7;
                                    let mut buf = vec![0u64; len];
                                    let mut st = Vec::with_capacity(*writes);
                                    barrier.wait();
                                    for w in 0..*writes {
                                        for (o, s) in buf.iter_mut().enumerate() {
                                            *s = tag(rd, t, w, o);
                                        }
                                        st.push(pvw.write_slice(&buf));
                                        prog.fetch_add(1, SeqCst);
                                    }
                                    (len, st)
                                })
                            })
                            .collect();
                        hs.into_iter().map(|h| h.join().unwrap_or((0, vec![]))).collect::<Vec<_>>()
                    });
                    (res, pvw.finish())
                } else {
                    let pvw = ParallelVecWriter::new(prefix.iter().map(|x| std::cell::Cell::new(*x)).collect::<Vec<_>>());
                    let res = std::thread::scope(|ts| {
                        let hs: Vec<_> = (0..*threads)
                            .map(|t| {
                                let (pvw, barrier, tag) = (&pvw, &barrier, &tag);
                                ts.spawn(move || {
                                    let len = *chunk + t * 7;
                                    let mut st = Vec::with_capacity(*writes);
                                    barrier.wait();
                                    for w in 0..*writes {
                                        let buf: Vec<std::cell::Cell<u64>> = (0..len).map(|o| std::cell::Cell::new(tag(rd, t, w, o))).collect();
                                        st.push(egglog_concurrency::parallel_writer::write_cell_slice(pvw, &buf));
                                        prog.fetch_add(1, SeqCst);
                                    }
                                    (len, st)
                                })
                            })
                            .collect();
                        hs.into_iter().map(|h| h.join().unwrap_or((0, vec![]))).collect::<Vec<_>>()
                    });
                    (res, pvw.finish().into_iter().map(|c| c.get()).collect())
                };
                let api = if *cell { "write_cell_slice" } else { "write_slice" };
                let expected: usize = 3 + res.iter().map(|(len, st)| len * st.len()).sum::<usize>();
                if res.iter().any(|(_, st)| st.len() != *writes) {
                    v(format!("round {rd}: a writer thread did not complete its {writes} {api} calls"), "vec-pvw-lost");
                }
                if fin.len() != expected {
                    v(format!("round {rd}: finish() has length {}, expected 3 initial + {} written", fin.len(), expected - 3), "vec-pvw-len");
                }
                if fin.len() < 3 || fin[..3] != prefix[..] {
                    v(format!("round {rd}: the initial prefix is not intact after concurrent growth"), "vec-pvw-prefix");
                }
                let mut bad = 0usize;
                let mut first = String::new();
                for (t, (len, st)) in res.iter().enumerate() {
                    for (w, s) in st.iter().enumerate() {
                        let wrong = match fin.get(*s..*s + *len) {
                            Some(g) => g.iter().enumerate().filter(|(o, x)| **x != tag(rd, t, w, *o)).count(),
                            None => *len,
                        };
                        if wrong != 0 {
                            bad += 1;
                            if first.is_empty() {
                                first = format!("thread {t} {api} #{w} returned start {s}: {wrong} of {len} elements are not there in the vector returned by finish()");
                            }
                        }
                    }
                }
                if bad != 0 {
                    v(format!("round {rd}: {bad} of {} chunks written while the vector was growing are lost or damaged; first: {first}", threads * writes), "vec-pvw-items");
                }
                // ranges must tile [3, len)
                let mut rs: Vec<(usize, usize)> = res.iter().flat_map(|(len, st)| st.iter().map(move |s| (*s, *len))).collect();
                rs.sort_unstable();
                let mut cur = 3usize;
                for (s, len) in rs {
                    if s != cur {
                        v(format!("round {rd}: reserved ranges do not tile: a chunk of {len} starts at {s}, previous range ends at {cur}"), "vec-pvw-overlap");
                        break;
                    }
                    cur += len;
                }
                max_len = max_len.max(fin.len());
            }
            #[cfg(egglog_verif)]
            egglog_concurrency::verif_hooks::PERTURB_SEED.store(0, SeqCst);
            out.threads = *threads;
            out.total_len = max_len;
            out.realloc = true;
        }
        VecScen::Nl { rounds } => {
            let nl: NotificationList<NId> = NotificationList::default();
            let mut maxid = 0usize;
            for (ri, round) in rounds.iter().enumerate() {
                let barrier = Barrier::new(round.len());
                std::thread::scope(|ts| {
                    for ids in round {
                        let (nl, barrier) = (&nl, &barrier);
                        ts.spawn(move || {
                            barrier.wait();
                            for i in ids {
                                nl.notify(NId::from_usize(*i));
                                prog.fetch_add(1, SeqCst);
                            }
                        });
                    }
                });
                let mut got: Vec<usize> = nl.reset().iter().map(|x| x.index()).collect();
                got.sort_unstable();
                let mut want: Vec<usize> = round.iter().flatten().copied().collect();
                want.sort_unstable();
                want.dedup();
                maxid = maxid.max(*want.last().unwrap_or(&0));
                if got != want {
                    v(format!("round {ri}: reset() returned {:?}, the notified set is {:?}", got, want), "vec-nl-set");
                }
                out.threads = round.len();
            }
            let again = nl.reset();
            if !again.is_empty() {
                v(format!("reset() right after a reset returned {} ids", again.len()), "vec-nl-set");
            }
            out.total_len = maxid + 1;
            out.realloc = maxid + 1 > 128;
        }
    }
    out.reader_checks = reader_checks.load(SeqCst);
    out.viols = viols.into_inner().unwrap_or_else(|e| e.into_inner());
    out
}

fn sub_vec(o: &Opts) -> SubRep {
    let t0 = Instant::now();
    let mut rep = SubRep::new("vec");
    rep.rule = "(a) ParallelVecWriter over a seeded initial vector of exact capacity: 2..8 threads x 1..6 write_contents/write_slice calls of 0..12 unique items, concurrent read_access/with_index/with_slice readers and unsafe read-back of own writes; (b) ConcurrentVec::with_capacity(1|2): 2..6 pushing threads + prefix readers; (c) NotificationList: concurrent notify of dense ids, reset at quiescence (predicate only); (d) every 10th scenario: growth DURING copies - a 3-element ParallelVecWriter, 6..8 threads released by a barrier, each 8..14 write_slice (or write_cell_slice) calls of 1024..2048(+7t) tagged u64, 8 rounds, half of them with the H5 perturbation seeded; every chunk verified at its returned offset after finish() (predicate only, no Coq case); this binary's global allocator moves every growing block >= 4 KiB and quarantines the old one. case = (init, [(returned start, items)] sorted by start, final vector); non-trivial iff >= 2 writer threads and the total length exceeds the initial capacity (a reallocation under the lock happened); distinct by the generated scenario".into();
    let header = "From Coq Require Import List NArith.\nImport ListNotations.\nRequire Import Verif.Base.Cases Verif.Conc.WritersModel.\n";
    let mut w = CaseWriter::new(&o.out, "cases_vec", header, "check_case", 50);
    let plan = make_plan(o, "vec", if o.thorough { 3000 } else { 150 });
    let mut distinct: HashSet<String> = HashSet::new();
    for (seed, idx, origin) in plan.items {
        let sc = Arc::new(gen_vec(seed, idx));
        let kind = match &*sc {
            VecScen::Pvw { .. } => "parallel_vec_writer",
            VecScen::Cv { .. } => "concurrent_vec",
            VecScen::Nl { .. } => "notification_list",
            VecScen::PvwBig { .. } => "parallel_vec_writer_growth_during_copy",
        };
        let input = json!({"sub": "vec", "seed": seed, "index": idx, "kind": kind});
        write_progress(o, "vec", &input);
        let sc2 = sc.clone();
        let seq = Arc::new(AtomicU64::new(0));
        let seq2 = seq.clone();
        let out = match watchdog(wd_secs(o), &seq, move || run_vec_scenario(&sc2, seq2)) {
            Outcome::Done(x) => x,
            Outcome::Panicked(msg) => {
                rep.viol(format!("scenario panicked: {msg}"), "vec-panic", &input);
                continue;
            }
            Outcome::Timeout => {
                rep.viol(format!("deadlock/timeout: scenario did not finish, no event for {}s", wd_secs(o)), "vec-deadlock", &input);
                rep.deadlocked = true;
                break;
            }
            Outcome::Crashed(sig) => {
                rep.viol(format!("fatal signal {sig} (memory fault / abort) while the scenario was running"), "vec-crash", &input);
                rep.deadlocked = true;
                break;
            }
        };
        rep.scenarios += 1;
        rep.bump("origin_hist", origin);
        rep.bump("kind_hist", kind);
        rep.bump("threads_hist", out.threads);
        rep.bump("final_len_hist", bucket(out.total_len, 20));
        rep.add("scenarios_with_reallocation", out.realloc as usize);
        rep.add("concurrent_reader_checks", out.reader_checks);
        if distinct.insert(format!("{:?}", sc)) && out.threads >= 2 && out.realloc {
            rep.nontrivial += 1;
        }
        for (what, key) in out.viols {
            rep.viol(what, key, &input);
        }
        if let Some(term) = out.case {
            if rep.samples.len() < 3 && term.len() < 600 {
                rep.samples.push(json!({"scenario": input, "case": term}));
            }
            w.push(term);
        }
    }
    w.flush();
    write_progress(o, &rep.name.clone(), &json!({"sub": rep.name, "done": true}));
    rep.cases = w.total;
    rep.shards = w.shards;
    rep.wall_ms = t0.elapsed().as_millis();
    rep
}

// ------------------------------------------------------------------------------------------------
// sub `uf`: egglog_union_find::concurrent::UnionFind (property C17, concurrent half)

#[derive(Debug, Clone, Copy)]
enum UOp {
    Union(usize, usize),
    Find(usize),
    Same(usize, usize),
}
#[derive(Debug)]
struct UfScen {
    kind: &'static str,
    n_ids: usize,
    cap: usize,
    use_pool: bool,
    setup: Vec<(usize, usize)>,
    ops: Vec<Vec<UOp>>,
}
fn gen_uf(seed: u64, idx: u64) -> UfScen {
    let mut r = Rng::for_case(seed, BASE_UF + idx);
    let nt = r.range(2, 8);
    let cap = r.range(1, 8);
    let use_pool = idx % 7 == 3;
    let sel = idx % 4;
    let mut setup = Vec::new();
    let mut ops: Vec<Vec<UOp>> = Vec::new();
    let kind;
    let n_ids;
    if sel == 0 || sel == 1 {
        kind = "random";
        n_ids = r.range(40, 300);
        let hot = r.range(6, 30).min(n_ids);
        for _ in 0..nt {
            let k = r.range(10, 60);
            let mut v = Vec::new();
            for _ in 0..k {
                let id = |r: &mut Rng| if r.chance(1, 2) { r.below(hot) } else { r.below(n_ids) };
                let x = r.below(100);
                v.push(if x < 45 {
                    UOp::Union(id(&mut r), id(&mut r))
                } else if x < 72 {
                    UOp::Find(id(&mut r))
                } else {
                    UOp::Same(id(&mut r), id(&mut r))
                });
            }
            ops.push(v);
        }
    } else if sel == 2 {
        // a connected block B above a chain that one or two threads union downwards, (k, k-1), so
        // that the root of B's class keeps changing while the others ask same_set/find about
        // members of B (connected before the run started)
        kind = "chain_down";
        let chain = r.range(20, 58);
        let bsz = r.range(4, 30);
        let base = r.range(chain + 1, 200);
        n_ids = base + bsz + r.range(0, 30);
        let mut members: Vec<usize> = (base..base + bsz).collect();
        // random spanning tree of B
        for i in 1..bsz {
            let j = r.below(i);
            setup.push((members[i], members[j]));
        }
        let nu = if nt >= 4 && r.chance(1, 2) { 2 } else { 1 };
        for t in 0..nt {
            let mut v = Vec::new();
            if t < nu {
                for k in 0..chain {
                    let a = base - k;
                    v.push(if r.chance(1, 2) { UOp::Union(a, a - 1) } else { UOp::Union(a - 1, a) });
                }
            } else {
                let k = r.range(20, 60);
                for _ in 0..k {
                    let a = *r.pick(&members);
                    let b = *r.pick(&members);
                    let x = r.below(100);
                    v.push(if x < 70 {
                        UOp::Same(a, b)
                    } else if x < 90 {
                        UOp::Find(a)
                    } else {
                        UOp::Same(a, base - r.below(chain)) // may or may not be connected yet
                    });
                }
            }
            ops.push(v);
        }
        members.clear();
    } else {
        // pre-built blocks of 2..6 members; threads union across blocks
        kind = "merge_blocks";
        let nb = r.range(4, 24);
        let mut blocks: Vec<Vec<usize>> = Vec::new();
        let mut next = r.below(5);
        for _ in 0..nb {
            let sz = r.range(2, 6);
            let b: Vec<usize> = (0..sz).map(|i| next + i).collect();
            next += sz + r.below(3);
            for i in 1..sz {
                setup.push((b[i], b[r.below(i)]));
            }
            blocks.push(b);
        }
        n_ids = next + r.range(1, 40);
        for _ in 0..nt {
            let k = r.range(10, 50);
            let mut v = Vec::new();
            for _ in 0..k {
                let (ba, bb) = (r.below(nb), r.below(nb));
                let a = *r.pick(&blocks[ba]);
                let b = *r.pick(&blocks[bb]);
                let x = r.below(100);
                v.push(if x < 40 {
                    UOp::Union(a, b)
                } else if x < 65 {
                    UOp::Find(a)
                } else {
                    UOp::Same(a, b)
                });
            }
            ops.push(v);
        }
    }
    UfScen { kind, n_ids, cap, use_pool, setup, ops }
}

#[derive(Debug, Clone)]
struct URec {
    t: usize,
    op: UOp,
    inv: u64,
    ret: u64,
    r1: usize,
    r2: usize,
    rb: bool,
}
struct UfOut {
    recs: Vec<URec>,
    finals: Vec<usize>,
    quiescent_bad: Option<String>,
}

fn uid(x: usize) -> UId {
    UId::from_usize(x)
}
fn uf_apply(uf: &UnionFind<UId>, clock: &EvLog, t: usize, op: UOp) -> URec {
    let inv = clock.stamp();
    let (mut r1, mut r2, mut rb) = (0usize, 0usize, false);
    match op {
        UOp::Union(a, b) => {
            let (p, c) = uf.union(uid(a), uid(b));
            r1 = p.index();
            r2 = c.index();
        }
        UOp::Find(x) => r1 = uf.find(uid(x)).index(),
        UOp::Same(a, b) => rb = uf.same_set(uid(a), uid(b)),
    }
    let ret = clock.stamp();
    URec { t, op, inv, ret, r1, r2, rb }
}

fn run_uf_scenario(sc: &UfScen, seq: Arc<AtomicU64>) -> UfOut {
    let uf: UnionFind<UId> = UnionFind::with_capacity(sc.cap);
    let clock = EvLog::new(0, seq);
    let mut recs: Vec<URec> = Vec::new();
    for (a, b) in &sc.setup {
        recs.push(uf_apply(&uf, &clock, usize::MAX, UOp::Union(*a, *b)));
    }
    let nt = sc.ops.len();
    let all: Mutex<Vec<URec>> = Mutex::new(Vec::new());
    let go = Barrier::new(nt);
    let body = |t: usize| {
        go.wait();
        let h = uf.clone(); // shallow: shares the buffer
        let mut mine = Vec::with_capacity(sc.ops[t].len());
        for op in &sc.ops[t] {
            mine.push(uf_apply(&h, &clock, t, *op));
        }
        all.lock().unwrap().extend(mine);
    };
    if sc.use_pool {
        let pool = ThreadPool::new(nt);
        pool.scope(|s| {
            for t in 0..nt {
                let body = &body;
                s.spawn(move |_| body(t));
            }
        });
    } else {
        std::thread::scope(|ts| {
            for t in 0..nt {
                let body = &body;
                ts.spawn(move || body(t));
            }
        });
    }
    recs.extend(all.into_inner().unwrap());
    // quiescence
    let finals: Vec<usize> = (0..sc.n_ids).map(|i| uf.find(uid(i)).index()).collect();
    let mut quiescent_bad = None;
    for r in &recs {
        if let UOp::Union(a, b) = r.op {
            if !uf.same_set(uid(a), uid(b)) {
                quiescent_bad = Some(format!("after union({a},{b}) returned, same_set({a},{b}) is false at quiescence"));
            }
        }
    }
    for i in 0..sc.n_ids.min(60) {
        let j = (i * 7 + 3) % sc.n_ids;
        let s = uf.same_set(uid(i), uid(j));
        if s != (finals[i] == finals[j]) {
            quiescent_bad = Some(format!("at quiescence same_set({i},{j}) = {s} but find gives {} and {}", finals[i], finals[j]));
        }
    }
    UfOut { recs, finals, quiescent_bad }
}

/// plain sequential union-find used as the oracle (min-representative kept separately)
struct Dsu {
    p: Vec<usize>,
    mn: Vec<usize>,
    sz: Vec<usize>,
}
impl Dsu {
    fn new(n: usize) -> Self {
        Dsu { p: (0..n).collect(), mn: (0..n).collect(), sz: vec![1; n] }
    }
    fn find(&mut self, mut x: usize) -> usize {
        while self.p[x] != x {
            self.p[x] = self.p[self.p[x]];
            x = self.p[x];
        }
        x
    }
    fn union(&mut self, a: usize, b: usize) {
        let (a, b) = (self.find(a), self.find(b));
        if a != b {
            self.p[b] = a;
            self.mn[a] = self.mn[a].min(self.mn[b]);
            self.sz[a] += self.sz[b];
        }
    }
    fn same(&mut self, a: usize, b: usize) -> bool {
        self.find(a) == self.find(b)
    }
    fn min_of(&mut self, x: usize) -> usize {
        let r = self.find(x);
        self.mn[r]
    }
    fn size_of(&mut self, x: usize) -> usize {
        let r = self.find(x);
        self.sz[r]
    }
}

fn sub_uf(o: &Opts) -> SubRep {
    let t0 = Instant::now();
    let mut rep = SubRep::new("uf");
    rep.rule = "concurrent UnionFind::with_capacity(1..8) over 40..300 ids (growth happens during the run), 2..8 threads (every 7th scenario: tasks of a ThreadPool scope) with seeded union/find/same_set lists; kinds random / chain_down (a pre-connected block whose root keeps moving down a chain while others ask same_set) / merge_blocks; every op is timestamped before and after with one SeqCst counter and checked against the partitions of the unions completed-before / started-before; case = (all unions issued, n, find(i) for i<n at quiescence); non-trivial iff two threads' op intervals overlapped AND some union joined two classes of >= 2 members; distinct by the generated scenario".into();
    let header = "From Coq Require Import List NArith.\nImport ListNotations.\nRequire Import Verif.Base.Cases Verif.UF.ConcModel.\n";
    let mut w = CaseWriter::new(&o.out, "cases_ufc", header, "check_case", 50);
    let plan = make_plan(o, "uf", if o.thorough { 4000 } else { 200 });
    let mut distinct: HashSet<String> = HashSet::new();
    for (seed, idx, origin) in plan.items {
        let sc = Arc::new(gen_uf(seed, idx));
        let input = json!({"sub": "uf", "seed": seed, "index": idx, "kind": sc.kind, "threads": sc.ops.len(), "ids": sc.n_ids, "capacity": sc.cap, "on_pool": sc.use_pool});
        write_progress(o, "uf", &input);
        let sc2 = sc.clone();
        let seq = Arc::new(AtomicU64::new(0));
        let seq2 = seq.clone();
        let out = match watchdog(wd_secs(o), &seq, move || run_uf_scenario(&sc2, seq2)) {
            Outcome::Done(x) => x,
            Outcome::Panicked(msg) => {
                rep.viol(format!("scenario panicked: {msg}"), "uf-panic", &input);
                continue;
            }
            Outcome::Timeout => {
                rep.viol(format!("deadlock/timeout: scenario did not finish, no event for {}s", wd_secs(o)), "uf-deadlock", &input);
                rep.deadlocked = true;
                break;
            }
            Outcome::Crashed(sig) => {
                rep.viol(format!("fatal signal {sig} (memory fault / abort) while the scenario was running"), "uf-crash", &input);
                rep.deadlocked = true;
                break;
            }
        };
        rep.scenarios += 1;
        rep.bump("origin_hist", origin);
        rep.bump("kind_hist", sc.kind);
        rep.bump("threads_hist", sc.ops.len());
        rep.bump("ids_hist", bucket(sc.n_ids, 50));
        rep.bump("capacity_hist", sc.cap);
        rep.bump("runner_hist", if sc.use_pool { "threadpool_scope" } else { "std_threads" });
        let n = sc.n_ids;
        let unions: Vec<(usize, usize, u64, u64)> =
            out.recs.iter().filter_map(|r| if let UOp::Union(a, b) = r.op { Some((a, b, r.inv, r.ret)) } else { None }).collect();
        rep.bump("unions_per_case_hist", bucket(unions.len(), 50));
        // facts per record, computed by two incremental sweeps:
        //   s_ok   : the connectivity the result claims holds in P_started(t_ret)
        //            (partition generated by the unions invoked before this op returned)
        //   d_same / d_min : connectivity of the arguments / least member of x's class in P_done(t_inv)
        //            (partition generated by the unions that had returned before this op was invoked)
        let m = out.recs.len();
        let mut s_ok = vec![true; m];
        let mut d_same = vec![false; m];
        let mut d_min = vec![usize::MAX; m];
        {
            let mut us: Vec<&(usize, usize, u64, u64)> = unions.iter().collect();
            us.sort_by_key(|u| u.2);
            let mut qs: Vec<usize> = (0..m).collect();
            qs.sort_by_key(|i| out.recs[*i].ret);
            let mut d = Dsu::new(n);
            let mut k = 0;
            for i in qs {
                let r = &out.recs[i];
                while k < us.len() && us[k].2 < r.ret {
                    d.union(us[k].0, us[k].1);
                    k += 1;
                }
                s_ok[i] = match r.op {
                    UOp::Find(x) => r.r1 < n && d.same(r.r1, x),
                    UOp::Same(a, b) => d.same(a, b),
                    UOp::Union(a, _) => r.r1 < n && r.r2 < n && d.same(r.r1, a) && d.same(r.r2, a),
                };
            }
        }
        {
            let mut us: Vec<&(usize, usize, u64, u64)> = unions.iter().collect();
            us.sort_by_key(|u| u.3);
            let mut qs: Vec<usize> = (0..m).collect();
            qs.sort_by_key(|i| out.recs[*i].inv);
            let mut d = Dsu::new(n);
            let mut k = 0;
            for i in qs {
                let r = &out.recs[i];
                while k < us.len() && us[k].3 < r.inv {
                    d.union(us[k].0, us[k].1);
                    k += 1;
                }
                match r.op {
                    UOp::Find(x) => d_min[i] = d.min_of(x),
                    UOp::Same(a, b) => d_same[i] = d.same(a, b),
                    UOp::Union(..) => {}
                }
            }
        }
        let mut reported: HashSet<&'static str> = HashSet::new();
        let mut bad = |rep: &mut SubRep, key: &'static str, what: String| {
            if reported.insert(key) {
                rep.viol(what, key, &input);
            }
        };
        // final state
        let mut full = Dsu::new(n);
        for (a, b, _, _) in &unions {
            full.union(*a, *b);
        }
        for i in 0..n {
            let m = full.min_of(i);
            if out.finals[i] != m {
                bad(&mut rep, "uf-final", format!("at quiescence find({i}) = {}, the least id connected to it by the issued unions is {m}", out.finals[i]));
                break;
            }
        }
        if let Some(q) = &out.quiescent_bad {
            bad(&mut rep, "uf-final", q.clone());
        }
        // per-operation necessary conditions of linearizability
        for (i, r) in out.recs.iter().enumerate() {
            match r.op {
                UOp::Find(x) => {
                    rep.bump("op_hist", "find");
                    let res = r.r1;
                    if res > x || res >= n {
                        bad(&mut rep, "uf-find", format!("find({x}) = {res} is larger than its argument"));
                    } else if !s_ok[i] {
                        bad(&mut rep, "uf-find", format!("find({x}) = {res}, not connected to {x} by the unions started before it returned"));
                    } else if res > d_min[i] {
                        bad(&mut rep, "uf-find", format!("find({x}) = {res}, but unions completed before the call already connect {x} to {}", d_min[i]));
                    }
                }
                UOp::Same(a, b) => {
                    rep.bump("op_hist", if r.rb { "same_set_true" } else { "same_set_false" });
                    if r.rb {
                        if !s_ok[i] {
                            bad(&mut rep, "uf-sameset-true", format!("same_set({a},{b}) = true but no unions started before it returned connect them"));
                        }
                    } else if d_same[i] {
                        bad(&mut rep, "uf-sameset-false", format!("same_set({a},{b}) = false although unions completed before the call connect them"));
                    }
                }
                UOp::Union(a, b) => {
                    rep.bump("op_hist", "union");
                    let (p, c) = (r.r1, r.r2);
                    if p > c || c >= n {
                        bad(&mut rep, "uf-union", format!("union({a},{b}) returned (parent {p}, child {c}): parent is not the smaller id"));
                    } else if !s_ok[i] {
                        bad(&mut rep, "uf-union", format!("union({a},{b}) returned ({p},{c}), not both connected to the arguments by unions started before it returned"));
                    } else if p > a.min(b) {
                        bad(&mut rep, "uf-union", format!("union({a},{b}) returned parent {p}, larger than an argument"));
                    }
                }
            }
        }
        // non-triviality: overlapping op intervals of different threads + a union of two big classes
        let mut spans: BTreeMap<usize, (u64, u64)> = BTreeMap::new();
        for r in out.recs.iter().filter(|r| r.t != usize::MAX) {
            let e = spans.entry(r.t).or_insert((r.inv, r.ret));
            e.0 = e.0.min(r.inv);
            e.1 = e.1.max(r.ret);
        }
        let mut ov_threads = 0usize;
        for (t, (a0, a1)) in &spans {
            if spans.iter().any(|(u, (b0, b1))| u != t && a0 < b1 && b0 < a1) {
                ov_threads += 1;
            }
        }
        let mut by_inv: Vec<&(usize, usize, u64, u64)> = unions.iter().collect();
        by_inv.sort_by_key(|u| u.2);
        let mut d = Dsu::new(n);
        let mut big = 0usize;
        let mut big_conc = 0usize;
        let setup_n = sc.setup.len();
        for (k, (a, b, _, _)) in by_inv.iter().enumerate() {
            if !d.same(*a, *b) && d.size_of(*a) >= 2 && d.size_of(*b) >= 2 {
                big += 1;
                if k >= setup_n {
                    big_conc += 1;
                }
            }
            d.union(*a, *b);
        }
        rep.bump("overlapping_threads_hist", ov_threads);
        rep.add("big_class_unions", big);
        rep.add("big_class_unions_during_concurrent_phase", big_conc);
        rep.add("scenarios_growing_beyond_capacity", (n > sc.cap.next_power_of_two()) as usize);
        let nontriv = ov_threads >= 2 && big >= 1;
        if distinct.insert(format!("{:?}", sc)) && nontriv {
            rep.nontrivial += 1;
        }
        let term = format!("({}, {}, {})", coq_list(&unions, |(a, b, _, _)| format!("({a},{b})")), n, coq_nat_list(&out.finals));
        if rep.samples.len() < 2 && n < 80 {
            rep.samples.push(json!({"scenario": input, "case": term}));
        }
        w.push(term);
    }
    w.flush();
    write_progress(o, &rep.name.clone(), &json!({"sub": rep.name, "done": true}));
    rep.cases = w.total;
    rep.shards = w.shards;
    rep.wall_ms = t0.elapsed().as_millis();
    rep
}

// ------------------------------------------------------------------------------------------------

static SINGLE_SUB: AtomicBool = AtomicBool::new(false);
fn progress_path(out: &std::path::Path, sub: &str, single: bool) -> std::path::PathBuf {
    if single {
        out.join("progress.json")
    } else {
        out.join(format!("progress_{sub}.json"))
    }
}
/// overwritten before every scenario so that the supervising parent knows what was running when
/// the child died
fn write_progress(o: &Opts, sub: &str, input: &Value) {
    let _ = std::fs::write(progress_path(&o.out, sub, SINGLE_SUB.load(SeqCst)), input.to_string());
}

/// parent process: run the real harness as a child (`--child`), and if that child is killed by a
/// signal, exits non-zero, stops starting scenarios or does not exit in time, write the report
/// ourselves: one `<sub>-crash` violation naming the scenario from the child's progress file.
fn supervise(o: &Opts, subs: &[&'static str], only: Option<&str>) -> ! {
    use std::os::unix::process::ExitStatusExt;
    let single = subs.len() == 1;
    for s in subs {
        let _ = std::fs::remove_file(progress_path(&o.out, s, single));
    }
    let _ = std::fs::remove_file(o.out.join("impl_report.json"));
    let deadline = if o.thorough {
        1500
    } else if single {
        150
    } else {
        400
    };
    let stall = if o.thorough { 240 } else { 75 };
    let t0 = Instant::now();
    let args: Vec<String> = std::env::args().skip(1).collect();
    let exe = std::env::current_exe().expect("current_exe");
    let mut child = match std::process::Command::new(exe).args(&args).arg("--child").spawn() {
        Ok(c) => c,
        Err(e) => {
            eprintln!("cannot re-execute the harness: {e}");
            std::process::exit(3);
        }
    };
    let reason: String = loop {
        match child.try_wait() {
            Ok(Some(st)) => {
                if st.success() && o.out.join("impl_report.json").exists() {
                    std::process::exit(0);
                }
                break match (st.signal(), st.code()) {
                    (Some(sig), _) => format!("was killed by signal {sig}"),
                    (_, Some(c)) => format!("exited with code {c}"),
                    _ => "ended abnormally".into(),
                };
            }
            Ok(None) => {}
            Err(e) => break format!("could not be waited for ({e})"),
        }
        let el = t0.elapsed().as_secs();
        // most recent sign of life: a scenario was started (its progress file was rewritten)
        let newest = subs
            .iter()
            .filter_map(|s| std::fs::metadata(progress_path(&o.out, s, single)).ok()?.modified().ok()?.elapsed().ok())
            .min()
            .map(|d| d.as_secs())
            .unwrap_or(el);
        if el >= deadline {
            let _ = child.kill();
            let _ = child.wait();
            break format!("did not exit within {deadline}s");
        }
        if newest >= stall && el >= stall {
            let _ = child.kill();
            let _ = child.wait();
            break format!("started no scenario for {stall}s (hung)");
        }
        std::thread::sleep(Duration::from_millis(100));
    };
    // the child is gone without a usable report: none of its shards may be evaluated
    if let Ok(rd) = std::fs::read_dir(&o.out) {
        for e in rd.flatten() {
            let n = e.file_name().to_string_lossy().to_string();
            if n.starts_with("cases_") && n.ends_with(".v") {
                let _ = std::fs::remove_file(e.path());
            }
        }
    }
    let mut viols = Vec::new();
    for s in subs {
        let inp = std::fs::read_to_string(progress_path(&o.out, s, single)).ok().and_then(|t| serde_json::from_str::<Value>(&t).ok());
        match inp {
            Some(v) if v.get("done").is_some() => {}
            Some(v) => viols.push(json!({
                "what": format!("harness child {reason} while running scenario {v}: memory corruption or hang in the implementation under test"),
                "key": format!("{s}-crash"),
                "input": v})),
            None => {}
        }
    }
    if viols.is_empty() {
        let s = subs[0];
        viols.push(json!({
            "what": format!("harness child {reason} outside of any scenario"),
            "key": format!("{s}-crash"),
            "input": {"sub": s, "seed": o.seed}}));
    }
    let report = json!({
        "sub": match only { Some(x) => format!("conc-{x}"), None => "conc".to_string() },
        "cases": 0, "shards": 0, "distinct_nontrivial": 0,
        "rule": "written by the supervising parent process: the harness child did not produce a report (see violations)",
        "samples": [], "violations": viols, "child": reason, "seed": o.seed,
        "tier": if o.thorough { "thorough" } else { "quick" },
        "total_wall_ms": t0.elapsed().as_millis() as u64,
    });
    std::fs::write(o.out.join("impl_report.json"), report.to_string() + "\n").unwrap();
    std::process::exit(0);
}

fn rep_json(r: &SubRep) -> Value {
    let mut m = serde_json::Map::new();
    m.insert("sub".into(), json!(format!("conc-{}", r.name)));
    m.insert("scenarios".into(), json!(r.scenarios));
    m.insert("cases".into(), json!(r.cases));
    m.insert("shards".into(), json!(r.shards));
    m.insert("distinct_nontrivial".into(), json!(r.nontrivial));
    m.insert("rule".into(), json!(r.rule));
    m.insert("samples".into(), json!(r.samples));
    m.insert("deadlocked".into(), json!(r.deadlocked));
    m.insert("wall_ms".into(), json!(r.wall_ms as u64));
    m.insert(
        "violations".into(),
        Value::Array(r.viols.iter().map(|v| json!({"what": v.what, "input": v.input, "key": v.key})).collect()),
    );
    for (h, hv) in &r.hists {
        m.insert(format!("{}_{}", r.name, h), json!(hv));
    }
    let mut ex = serde_json::Map::new();
    ex.insert(format!("conc_{}", r.name), json!(r.extra));
    m.insert("extra_coverage".into(), Value::Object(ex));
    Value::Object(m)
}

fn main() {
    let o = verif_harness::parse_opts();
    let t0 = Instant::now();
    let mut only: Option<String> = None;
    let mut i = 0;
    while i < o.extra.len() {
        if o.extra[i] == "--only" && i + 1 < o.extra.len() {
            only = Some(o.extra[i + 1].clone());
            i += 1;
        }
        i += 1;
    }
    let subs: Vec<&'static str> = match only.as_deref() {
        Some(x) if ["scope", "rolock", "vec", "uf"].contains(&x) => vec![*["scope", "rolock", "vec", "uf"].iter().find(|y| **y == x).unwrap()],
        Some(x) => {
            eprintln!("unknown --only {x}");
            std::process::exit(2);
        }
        None => vec!["scope", "rolock", "vec", "uf"],
    };
    if !o.extra.iter().any(|a| a == "--child") {
        supervise(&o, &subs, only.as_deref());
    }
    SINGLE_SUB.store(subs.len() == 1, SeqCst);
    std::panic::set_hook(Box::new(|_| {}));
    install_crash_handlers();
    let o = Arc::new(o);
    // the subs run concurrently (every scenario keeps its own event log); the extra load only adds
    // preemption noise
    let handles: Vec<_> = subs
        .iter()
        .map(|s| {
            let (o, s) = (o.clone(), s.to_string());
            std::thread::spawn(move || match s.as_str() {
                "scope" => sub_scope(&o),
                "rolock" => sub_rolock(&o),
                "vec" => sub_vec(&o),
                _ => sub_uf(&o),
            })
        })
        .collect();
    let mut reps: Vec<SubRep> = Vec::new();
    for (h, s) in handles.into_iter().zip(subs.iter()) {
        match h.join() {
            Ok(r) => reps.push(r),
            Err(p) => {
                let mut r = SubRep::new(s);
                r.viol(format!("harness driver of sub {s} panicked: {}", payload_str(&p)), &format!("{s}-driver-panic"), &json!({"sub": s, "seed": o.seed}));
                reps.push(r);
            }
        }
    }
    let report = if reps.len() == 1 {
        rep_json(&reps[0])
    } else {
        let mut m = serde_json::Map::new();
        m.insert("sub".into(), json!("conc"));
        m.insert("cases".into(), json!(reps.iter().map(|r| r.cases).sum::<usize>()));
        m.insert("shards".into(), json!(reps.iter().map(|r| r.shards).sum::<usize>()));
        m.insert("distinct_nontrivial".into(), json!(reps.iter().map(|r| r.nontrivial).sum::<usize>()));
        m.insert("rule".into(), json!(reps.iter().map(|r| format!("[{}] {}", r.name, r.rule)).collect::<Vec<_>>().join(" || ")));
        let mut samples = Vec::new();
        let mut viols = Vec::new();
        let mut ex = serde_json::Map::new();
        let mut per = serde_json::Map::new();
        for r in &reps {
            samples.extend(r.samples.iter().take(2).cloned());
            viols.extend(r.viols.iter().map(|v| json!({"what": v.what, "input": v.input, "key": v.key})));
            for (h, hv) in &r.hists {
                m.insert(format!("{}_{}", r.name, h), json!(hv));
            }
            ex.insert(format!("conc_{}", r.name), json!(r.extra));
            per.insert(
                r.name.clone(),
                json!({"scenarios": r.scenarios, "cases": r.cases, "shards": r.shards, "distinct_nontrivial": r.nontrivial, "deadlocked": r.deadlocked, "wall_ms": r.wall_ms as u64}),
            );
        }
        m.insert("samples".into(), Value::Array(samples));
        m.insert("violations".into(), Value::Array(viols));
        m.insert("per_sub".into(), Value::Object(per));
        m.insert("extra_coverage".into(), Value::Object(ex));
        Value::Object(m)
    };
    let mut report = report;
    if let Value::Object(m) = &mut report {
        m.insert("seed".into(), json!(o.seed));
        m.insert("tier".into(), json!(if o.thorough { "thorough" } else { "quick" }));
        m.insert("total_wall_ms".into(), json!(t0.elapsed().as_millis() as u64));
    }
    std::fs::write(o.out.join("impl_report.json"), serde_json::to_string(&report).unwrap() + "\n").unwrap();
    // leaked (deadlocked / parked) scenario threads must not keep the process alive, and no
    // destructor or atexit handler may run on a possibly corrupted heap
    unsafe { _exit(0) }
}
