(** C15 — the expr / fact / action / schedule / command grammar: the printers (`Display` impls of
    egglog-ast/src/generic_ast_helpers.rs and src/ast/mod.rs, reproduced character for character
    as layouts over [lsexp]) and the parser (`Parser::parse_*` of src/ast/parse.rs) over [sexp].
    Definitions only; proofs are in AstProofs.v.  Spans are not modelled (the property ignores
    them).  Parser macros and `user_defined` commands are not modelled (default parser). *)
From Coq Require Import List NArith ZArith Bool Ascii String.
Import ListNotations.
Require Import Verif.Base.Cases Verif.Syntax.Sexp.

Local Open Scope N_scope.

(** * syntax trees *)
Inductive expr := EVar (v : str) | ECall (f : str) (args : list expr) | ELit (l : lit).
Inductive fact := FEq (a b : expr) | FFact (e : expr).
Inductive change := Delete | Subsume.
Inductive action :=
| ALet (v : str) (e : expr)
| ASet (f : str) (args : list expr) (v : expr)
| AChange (c : change) (f : str) (args : list expr)
| AUnion (a b : expr)
| APanic (msg : str)
| AExpr (e : expr).
Inductive sched :=
| SSaturate (s : sched)
| SRepeat (n : N) (s : sched)
| SRun (ruleset : str) (until : option (list fact))
| SSeq (l : list sched).

Inductive eval_mode := Seminaive | Naive | UnsafeSeminaive.
Record rule := mkRule {
  r_head : list action; r_body : list fact; r_name : str; r_ruleset : str;
  r_mode : eval_mode; r_no_decomp : bool; r_include_subsumed : bool }.
Record rewrite := mkRewrite { w_lhs : expr; w_rhs : expr; w_conds : list fact; w_name : str }.
Record variant := mkVariant { v_name : str; v_types : list str; v_cost : option N; v_unextractable : bool }.
Inductive subdt := Variants (vs : list variant) | NewSort (head : str) (args : list expr).
Inductive pfmode := PFDefault | PFCsv.

Inductive command :=
| CSort (name : str) (presort : option (str * list expr)) (uf : option (str * option str))
        (proof_func : option str) (container_rebuild : option (str * option str))
        (proof_constructors : option (str * str * str * str)) (unionable : bool)
| CDatatype (name : str) (variants : list variant)
| CDatatypes (dts : list (str * subdt))
| CFunction (name : str) (inputs : list str) (output : str) (merge : option expr)
            (hidden let_binding : bool) (term_constructor : option str) (unextractable : bool)
| CConstructor (name : str) (inputs : list str) (output : str) (cost : option N)
               (unextractable hidden let_binding : bool) (term_constructor : option str)
| CRelation (name : str) (inputs : list str)
| CAddRuleset (name : str)
| CCombinedRuleset (name : str) (subs : list str)
| CRule (r : rule)
| CRewrite (ruleset : str) (w : rewrite) (subsume : bool)
| CBiRewrite (ruleset : str) (w : rewrite)
| CAction (a : action)
| CExtract (e v : expr)
| CRunSchedule (s : sched)
| CPrintStats (file : option str)
| CCheck (fs : list fact)
| CProve (fs : list fact)
| CProveExists (c : str)
| CPush (n : N)
| CPop (n : N)
| CPrintFunction (name : str) (rows : option N) (file : option str) (mode : pfmode)
| CPrintSize (name : option str)
| CInput (name : str) (file : str)
| COutput (file : str) (es : list expr)
| CFail (c : command)
| CInclude (file : str)
| CUserDefined (name : str) (es : list expr).

(** * keywords *)
Definition sp : str := [32].
Definition k_eq := Eval compute in s_ "=".
Definition k_let := Eval compute in s_ "let".
Definition k_set := Eval compute in s_ "set".
Definition k_delete := Eval compute in s_ "delete".
Definition k_subsume := Eval compute in s_ "subsume".
Definition k_union := Eval compute in s_ "union".
Definition k_panic := Eval compute in s_ "panic".
Definition k_saturate := Eval compute in s_ "saturate".
Definition k_seq := Eval compute in s_ "seq".
Definition k_repeat := Eval compute in s_ "repeat".
Definition k_run := Eval compute in s_ "run".
Definition k_until := Eval compute in s_ ":until".
Definition k_underscore := Eval compute in s_ "_".
Definition k_at := Eval compute in s_ "@".
Definition k_sort := Eval compute in s_ "sort".
Definition k_datatype := Eval compute in s_ "datatype".
Definition k_datatypes := Eval compute in s_ "datatype*".
Definition k_function := Eval compute in s_ "function".
Definition k_constructor := Eval compute in s_ "constructor".
Definition k_relation := Eval compute in s_ "relation".
Definition k_ruleset := Eval compute in s_ "ruleset".
Definition k_combined := Eval compute in s_ "unstable-combined-ruleset".
Definition k_rule := Eval compute in s_ "rule".
Definition k_rewrite := Eval compute in s_ "rewrite".
Definition k_birewrite := Eval compute in s_ "birewrite".
Definition k_run_schedule := Eval compute in s_ "run-schedule".
Definition k_extract := Eval compute in s_ "extract".
Definition k_check := Eval compute in s_ "check".
Definition k_prove := Eval compute in s_ "prove".
Definition k_prove_exists := Eval compute in s_ "prove-exists".
Definition k_push := Eval compute in s_ "push".
Definition k_pop := Eval compute in s_ "pop".
Definition k_print_stats := Eval compute in s_ "print-stats".
Definition k_print_function := Eval compute in s_ "print-function".
Definition k_print_size := Eval compute in s_ "print-size".
Definition k_input := Eval compute in s_ "input".
Definition k_output := Eval compute in s_ "output".
Definition k_include := Eval compute in s_ "include".
Definition k_fail := Eval compute in s_ "fail".
Definition o_cost := Eval compute in s_ ":cost".
Definition o_unextractable := Eval compute in s_ ":unextractable".
Definition o_merge := Eval compute in s_ ":merge".
Definition o_no_merge := Eval compute in s_ ":no-merge".
Definition o_hidden := Eval compute in s_ ":internal-hidden".
Definition o_let := Eval compute in s_ ":internal-let".
Definition o_term_ctor := Eval compute in s_ ":internal-term-constructor".
Definition o_uf := Eval compute in s_ ":internal-uf".
Definition o_proof_func := Eval compute in s_ ":internal-proof-func".
Definition o_proof_names := Eval compute in s_ ":internal-proof-names".
Definition o_container_rebuild := Eval compute in s_ ":internal-container-rebuild".
Definition k_crs := Eval compute in s_ "container-rebuild-spec".
Definition o_ruleset := Eval compute in s_ ":ruleset".
Definition o_name := Eval compute in s_ ":name".
Definition o_naive := Eval compute in s_ ":naive".
Definition o_unsafe_seminaive := Eval compute in s_ ":unsafe-seminaive".
Definition o_no_decomp := Eval compute in s_ ":no-decomp".
Definition o_include_subsumed := Eval compute in s_ ":internal-include-subsumed".
Definition o_subsume := Eval compute in s_ ":subsume".
Definition o_when := Eval compute in s_ ":when".
Definition o_file := Eval compute in s_ ":file".
Definition o_mode := Eval compute in s_ ":mode".
Definition k_csv := Eval compute in s_ "csv".
Definition k_default := Eval compute in s_ "default".

(** * printers (layouts; the printed text is [text (lay_x x)]) *)

(** `ListDisplay(xs, sep)` placed after something: first element preceded by [w0], others by [sep] *)
Definition list_disp (w0 sep : str) (xs : list lsexp) : list (str * lsexp) :=
  match xs with
  | [] => []
  | x :: tl => (w0, x) :: List.map (fun y => (sep, y)) tl
  end.
(** the blank that `"(head {})"` leaves when the list is empty *)
Definition tail_ws {A} (xs : list A) : str := match xs with [] => sp | _ => [] end.
Definition kw (k : str) : str * lsexp := ([], LAtom k).
Definition it (x : lsexp) : str * lsexp := (sp, x).
Definition lay_call (f : str) (args : list lsexp) : lsexp :=
  LList (kw f :: List.map it args) [].
Definition lay_N (n : N) : lsexp := LLit (LInt (Z.of_N n)).

Fixpoint lay_expr (e : expr) : lsexp :=
  match e with
  | ELit LUnit => LList [] []
  | ELit l => LLit l
  | EVar v => LAtom v
  | ECall f args => LList (kw f :: List.map (fun a => it (lay_expr a)) args) []
  end.

Definition lay_fact (f : fact) : lsexp :=
  match f with
  | FEq a b => LList [kw k_eq; it (lay_expr a); it (lay_expr b)] []
  | FFact e => lay_expr e
  end.

Definition change_kw (c : change) : str := match c with Delete => k_delete | Subsume => k_subsume end.

Definition lay_action (a : action) : lsexp :=
  match a with
  | ALet v e => LList [kw k_let; it (LAtom v); it (lay_expr e)] []
  | ASet f args v => LList [kw k_set; it (lay_call f (List.map lay_expr args)); it (lay_expr v)] []
  | AChange c f args => LList [kw (change_kw c); it (lay_call f (List.map lay_expr args))] []
  | AUnion a b => LList [kw k_union; it (lay_expr a); it (lay_expr b)] []
  | APanic m => LList [kw k_panic; it (LLit (LStr m))] []
  | AExpr e => lay_expr e
  end.

Definition lay_run (rs : str) (until : option (list fact)) : lsexp :=
  LList (kw k_run
           :: (match rs with [] => [] | _ => [it (LAtom rs)] end)
           ++ (match until with
               | None => []
               | Some fs => it (LAtom k_until) :: list_disp sp sp (List.map lay_fact fs)
               end))
        (match until with Some [] => sp | _ => [] end).

Fixpoint lay_sched (s : sched) : lsexp :=
  match s with
  | SSaturate s => LList [kw k_saturate; it (lay_sched s)] []
  | SRepeat n s => LList [kw k_repeat; it (lay_N n); it (lay_sched s)] []
  | SRun rs until => lay_run rs until
  | SSeq l => LList (kw k_seq :: list_disp sp sp (List.map lay_sched l)) (tail_ws l)
  end.

Definition nl7 : str := 10 :: List.repeat 32 7.
Definition nl6 : str := 10 :: List.repeat 32 6.
Definition nl8 : str := 10 :: List.repeat 32 8.

Definition opt_items (k : str) (o : option str) : list (str * lsexp) :=
  match o with None => [] | Some v => [it (LAtom k); it (LAtom v)] end.
Definition flag_items (k : str) (b : bool) : list (str * lsexp) :=
  if b then [it (LAtom k)] else [].
Definition cost_items (c : option N) : list (str * lsexp) :=
  match c with None => [] | Some n => [it (LAtom o_cost); it (lay_N n)] end.

(** `Display for Variant` *)
Definition lay_variant (v : variant) : lsexp :=
  LList (kw (v_name v) :: List.map (fun t => it (LAtom t)) (v_types v) ++ cost_items (v_cost v)
           ++ flag_items o_unextractable (v_unextractable v)) [].

(** `Display for Schema` = "({}) {}" *)
Definition schema_items (inputs : list str) (output : str) : list (str * lsexp) :=
  [it (LList (list_disp [] sp (List.map LAtom inputs)) []); it (LAtom output)].

(** the rule tail: ")\n{indent} {ruleset} {name}{eval_mode}{no_decomp}{include_subsumed})" *)
Definition rule_tail (r : rule) : list (str * lsexp) * str :=
  let p0 : str := nl8 in
  let '(i1, p1) := match r_ruleset r with
                   | [] => ([], p0 ++ sp)
                   | rs => ([(p0, LAtom o_ruleset); it (LAtom rs)], sp)
                   end in
  let '(i2, p2) := match r_name r with
                   | [] => (i1, p1)
                   | nm => (i1 ++ [(p1, LAtom o_name); it (LLit (LStr nm))], [])
                   end in
  let flags := (match r_mode r with Seminaive => [] | Naive => [o_naive] | UnsafeSeminaive => [o_unsafe_seminaive] end)
               ++ (if r_no_decomp r then [o_no_decomp] else [])
               ++ (if r_include_subsumed r then [o_include_subsumed] else []) in
  match flags with
  | [] => (i2, p2)
  | f :: fl => (i2 ++ (p2 ++ sp, LAtom f) :: List.map (fun k => it (LAtom k)) fl, [])
  end.

Definition lay_rule (r : rule) : lsexp :=
  let '(tl, cw) := rule_tail r in
  LList (kw k_rule
           :: it (LList (list_disp [] nl7 (List.map lay_fact (r_body r))) [])
           :: (nl6, LList (list_disp [] nl7 (List.map lay_action (r_head r))) [])
           :: tl) cw.

(** GenericRewrite::fmt_with_ruleset *)
Definition lay_rewrite (k : str) (ruleset : str) (w : rewrite) (subsume : bool) : lsexp :=
  LList (kw k :: it (lay_expr (w_lhs w)) :: it (lay_expr (w_rhs w))
           :: flag_items o_subsume subsume
           ++ (match w_conds w with
               | [] => []
               | cs => [it (LAtom o_when); it (LList (list_disp [] sp (List.map lay_fact cs)) [])]
               end)
           ++ (match ruleset with [] => [] | rs => [it (LAtom o_ruleset); it (LAtom rs)] end)
           ++ (match w_name w with [] => [] | nm => [it (LAtom o_name); it (LLit (LStr nm))] end)) [].

(** file names are printed as string literals *)
Definition lay_dbg (f : str) : lsexp := LLit (LStr f).

Definition lay_head_list (k : str) (pre : list (str * lsexp)) (xs : list lsexp) (sep : str) : lsexp :=
  LList (kw k :: pre ++ list_disp sp sep xs) (tail_ws xs).

Fixpoint lay_command (c : command) : lsexp :=
  match c with
  | CSort name None uf pf _ pc _ =>
      LList (kw k_sort :: it (LAtom name)
               :: (match uf with
                   | None => []
                   | Some (c, None) => [it (LAtom o_uf); it (LAtom c)]
                   | Some (c, Some i) => [it (LAtom o_uf); it (LAtom c); it (LAtom i)]
                   end)
               ++ opt_items o_proof_func pf
               ++ (match pc with
                   | None => []
                   | Some (a, b, c, d) => [it (LAtom o_proof_names); it (LAtom a); it (LAtom b); it (LAtom c); it (LAtom d)]
                   end)) []
  | CSort name (Some (h, args)) _ pf cr _ _ =>
      LList (kw k_sort :: it (LAtom name)
               :: it (LList (kw h :: list_disp sp sp (List.map lay_expr args)) (tail_ws args))
               :: opt_items o_proof_func pf
               ++ (match cr with
                   | None => []
                   | Some (p, None) => [it (LAtom o_container_rebuild); it (LList [kw k_crs; it (LAtom p)] [])]
                   | Some (p, Some q) => [it (LAtom o_container_rebuild); it (LList [kw k_crs; it (LAtom p); it (LAtom q)] [])]
                   end)) []
  | CDatatype name vs => lay_head_list k_datatype [it (LAtom name)] (List.map lay_variant vs) sp
  | CDatatypes dts =>
      lay_head_list k_datatypes []
        (List.map (fun '(name, d) =>
                     match d with
                     | Variants vs => LList (kw name :: list_disp sp sp (List.map lay_variant vs)) (tail_ws vs)
                     | NewSort h args =>
                         LList [kw k_sort; it (LAtom name);
                                it (LList (kw h :: list_disp sp sp (List.map lay_expr args)) (tail_ws args))] []
                     end) dts) sp
  | CFunction name ins out merge hidden letb tc unext =>
      LList (kw k_function :: it (LAtom name) :: schema_items ins out
               ++ (match merge with
                   | Some e => [it (LAtom o_merge); it (lay_expr e)]
                   | None => [it (LAtom o_no_merge)]
                   end)
               ++ flag_items o_unextractable unext ++ flag_items o_hidden hidden
               ++ flag_items o_let letb ++ opt_items o_term_ctor tc) []
  | CConstructor name ins out cost unext hidden letb tc =>
      LList (kw k_constructor :: it (LAtom name) :: schema_items ins out
               ++ cost_items cost
               ++ flag_items o_unextractable unext ++ flag_items o_hidden hidden
               ++ flag_items o_let letb ++ opt_items o_term_ctor tc) []
  | CRelation name ins =>
      LList [kw k_relation; it (LAtom name); it (LList (list_disp [] sp (List.map LAtom ins)) [])] []
  | CAddRuleset name => LList [kw k_ruleset; it (LAtom name)] []
  | CCombinedRuleset name subs => lay_head_list k_combined [it (LAtom name)] (List.map LAtom subs) sp
  | CRule r => lay_rule r
  | CRewrite rs w sub => lay_rewrite k_rewrite rs w sub
  | CBiRewrite rs w => lay_rewrite k_birewrite rs w false
  | CAction a => lay_action a
  | CExtract e v => LList [kw k_extract; it (lay_expr e); it (lay_expr v)] []
  | CRunSchedule s => LList [kw k_run_schedule; it (lay_sched s)] []
  | CPrintStats None => LList [kw k_print_stats] []
  | CPrintStats (Some f) => LList [kw k_print_stats; it (LAtom o_file); it (lay_dbg f)] []
  | CCheck fs => lay_head_list k_check [] (List.map lay_fact fs) [10]
  | CProve [] => LList [kw k_prove] []
  | CProve fs => lay_head_list k_prove [] (List.map lay_fact fs) sp
  | CProveExists c => LList [kw k_prove_exists; it (LAtom c)] []
  | CPush n => LList [kw k_push; it (lay_N n)] []
  | CPop n => LList [kw k_pop; it (lay_N n)] []
  | CPrintFunction name rows file mode =>
      LList (kw k_print_function :: it (LAtom name)
               :: (match rows with None => [] | Some n => [it (lay_N n)] end)
               ++ (match file with None => [] | Some f => [it (LAtom o_file); it (lay_dbg f)] end)
               ++ (match mode with PFDefault => [] | PFCsv => [it (LAtom o_mode); it (LAtom k_csv)] end)) []
  | CPrintSize None => LList [kw k_print_size] sp
  | CPrintSize (Some n) => LList [kw k_print_size; it (LAtom n)] []
  | CInput name f => LList [kw k_input; it (LAtom name); it (lay_dbg f)] []
  | COutput f es => lay_head_list k_output [it (lay_dbg f)] (List.map lay_expr es) sp
  | CFail c => LList [kw k_fail; it (lay_command c)] []
  | CInclude f => LList [kw k_include; it (lay_dbg f)] []
  | CUserDefined name es => lay_head_list name [] (List.map lay_expr es) sp
  end.

(** * the parser over s-expressions *)

(** parser state: the `_` counter of `symbol_gen` *)
Definition M (A : Type) := N -> pres (A * N).
Definition ret {A} (a : A) : M A := fun n => POk (a, n).
Definition failM {A} : M A := fun _ => PErr EGrammar.
Definition bindM {A B} (m : M A) (k : A -> M B) : M B :=
  fun n => match m n with POk (a, n') => k a n' | PErr e => PErr e | PFuel => PFuel end.
Notation "'do' x <- m ; k" := (bindM m (fun x => k)) (at level 200, x pattern, m at level 100, k at level 200).

Fixpoint mapM {A B} (f : A -> M B) (l : list A) : M (list B) :=
  match l with
  | [] => ret []
  | a :: tl => do b <- f a; do bs <- mapM f tl; ret (b :: bs)
  end.

(** SymbolGen::fresh("_"): "@_", "@_1", "@_2", ... *)
Definition fresh_name (n : N) : str :=
  k_at ++ k_underscore ++ (if n =? 0 then [] else print_N n).

Definition starts_with (p s : str) : bool := str_eqb (firstn (List.length p) s) p.
Definition is_reserved (s : str) : bool := starts_with k_at s.

Definition expect_atom (s : sexp) : M str := match s with SAtom a => ret a | _ => failM end.
Definition expect_string (s : sexp) : M str := match s with SLit (LStr x) => ret x | _ => failM end.
Definition expect_uint (bound : option Z) (s : sexp) : M N :=
  match s with
  | SLit (LInt z) =>
      if Z.leb 0 z && (match bound with None => true | Some b => Z.ltb z b end)
      then ret (Z.to_N z) else failM
  | _ => failM
  end.
Definition is_uint (bound : option Z) (s : sexp) : bool :=
  match expect_uint bound s 0 with POk _ => true | _ => false end.
Definition u32_bound : option Z := Some 4294967296%Z.

Section Parser.
  (** [chk] = `ensure_no_reserved_symbols` *)
  Variable chk : bool.

  Definition check_reserved (a : str) : M unit :=
    if chk && is_reserved a then failM else ret tt.

  Fixpoint parse_expr (s : sexp) : M expr :=
    match s with
    | SLit l => ret (ELit l)
    | SAtom a =>
        if str_eqb a k_underscore
        then (fun n => POk (EVar (fresh_name n), n + 1))
        else do _ <- check_reserved a; ret (EVar a)
    | SList [] => ret (ELit LUnit)
    | SList (SAtom f :: args) =>
        do es <- (fix go (l : list sexp) : M (list expr) :=
                    match l with
                    | [] => ret []
                    | a :: tl => do b <- parse_expr a; do bs <- go tl; ret (b :: bs)
                    end) args;
        ret (ECall f es)
    | SList _ => failM
    end.

  Definition parse_fact (s : sexp) : M fact :=
    match s with
    | SList (SAtom h :: tail) =>
        if str_eqb h k_eq then
          match tail with
          | [a; b] => do x <- parse_expr a; do y <- parse_expr b; ret (FEq x y)
          | _ => failM
          end
        else do e <- parse_expr s; ret (FFact e)
    | _ => failM
    end.

  Definition parse_lookup (s : sexp) : M (str * list expr) :=
    match s with
    | SList (SAtom f :: args) => do es <- mapM parse_expr args; ret (f, es)
    | _ => failM
    end.

  Definition parse_action (s : sexp) : M action :=
    match s with
    | SList (SAtom h :: tail) =>
        if str_eqb h k_let then
          match tail with
          | [name; value] =>
              do v <- expect_atom name; do _ <- check_reserved v;
              do e <- parse_expr value; ret (ALet v e)
          | _ => failM
          end
        else if str_eqb h k_set then
          match tail with
          | [call; value] =>
              do fa <- parse_lookup call; do v <- parse_expr value; ret (ASet (fst fa) (snd fa) v)
          | _ => failM
          end
        else if str_eqb h k_delete then
          match tail with
          | [call] => do fa <- parse_lookup call; ret (AChange Delete (fst fa) (snd fa))
          | _ => failM
          end
        else if str_eqb h k_subsume then
          match tail with
          | [call] => do fa <- parse_lookup call; ret (AChange Subsume (fst fa) (snd fa))
          | _ => failM
          end
        else if str_eqb h k_union then
          match tail with
          | [a; b] => do x <- parse_expr a; do y <- parse_expr b; ret (AUnion x y)
          | _ => failM
          end
        else if str_eqb h k_panic then
          match tail with
          | [m] => do x <- expect_string m; ret (APanic x)
          | _ => failM
          end
        else do e <- parse_expr s; ret (AExpr e)
    | _ => failM
    end.

  (** parse_options *)
  Definition option_name (s : sexp) : option str :=
    match s with
    | SAtom (c :: tl) => if c =? c_colon then Some (c :: tl) else None
    | _ => None
    end.

  Fixpoint take_vals (l : list sexp) : list sexp * list sexp :=
    match l with
    | [] => ([], [])
    | x :: tl => match option_name x with
                 | Some _ => ([], l)
                 | None => let '(a, r) := take_vals tl in (x :: a, r)
                 end
    end.

  Fixpoint parse_options_fuel (fuel : nat) (l : list sexp) : pres (list (str * list sexp)) :=
    match fuel with
    | O => PFuel
    | S f =>
        match l with
        | [] => POk []
        | x :: tl =>
            match option_name x with
            | None => PErr EGrammar
            | Some k => let '(vs, r) := take_vals tl in
                        pbind (parse_options_fuel f r) (fun o => POk ((k, vs) :: o))
            end
        end
    end.
  Definition parse_options (l : list sexp) : M (list (str * list sexp)) :=
    fun n => pbind (parse_options_fuel (S (List.length l)) l) (fun o => POk (o, n)).

  Definition parse_until (rest : list sexp) : M (option (list fact)) :=
    do o <- parse_options rest;
    match o with
    | [] => ret None
    | [(k, facts)] => if str_eqb k k_until then do fs <- mapM parse_fact facts; ret (Some fs) else failM
    | _ => failM
    end.

  Fixpoint parse_sched (s : sexp) : M sched :=
    match s with
    | SAtom rs => ret (SRun rs None)
    | SList (SAtom h :: tail) =>
        let scheds := (fix go (l : list sexp) : M (list sched) :=
                         match l with
                         | [] => ret []
                         | a :: tl => do b <- parse_sched a; do bs <- go tl; ret (b :: bs)
                         end) in
        if str_eqb h k_saturate then do l <- scheds tail; ret (SSaturate (SSeq l))
        else if str_eqb h k_seq then do l <- scheds tail; ret (SSeq l)
        else if str_eqb h k_repeat then
          match tail with
          | limit :: tail' => do n <- expect_uint None limit; do l <- scheds tail'; ret (SRepeat n (SSeq l))
          | [] => failM
          end
        else if str_eqb h k_run then
          let has_ruleset := match tail with
                             | [] => false
                             | SAtom o :: _ => negb (str_eqb o k_until)
                             | _ => true
                             end in
          match has_ruleset, tail with
          | true, x :: rest => do rs <- expect_atom x; do u <- parse_until rest; ret (SRun rs u)
          | _, _ => do u <- parse_until tail; ret (SRun [] u)
          end
        else failM
    | _ => failM
    end.

  Definition atoms (l : list sexp) : M (list str) := mapM expect_atom l.

  Definition parse_variant (s : sexp) : M variant :=
    match s with
    | SList (SAtom name :: tail) =>
        let dflt : M variant := do ts <- atoms tail; ret (mkVariant name ts None false) in
        let try_cost : M variant :=
          match List.rev tail with
          | c :: SAtom o :: rtypes =>
              if str_eqb o o_cost
              then do n <- expect_uint None c; do ts <- atoms (List.rev rtypes); ret (mkVariant name ts (Some n) false)
              else dflt
          | _ => dflt
          end in
        match List.rev tail with
        | SAtom o :: rtypes =>
            if str_eqb o o_unextractable
            then do ts <- atoms (List.rev rtypes); ret (mkVariant name ts None true)
            else try_cost
        | _ => try_cost
        end
    | _ => failM
    end.

  Definition parse_schema (inputs output : sexp) : M (list str * str) :=
    match inputs with
    | SList l => do ins <- atoms l; do out <- expect_atom output; ret (ins, out)
    | _ => failM
    end.

  Definition parse_facts_list (s : sexp) : M (list fact) :=
    match s with SList l => mapM parse_fact l | _ => failM end.

  (** fold over the parsed options with a state *)
  Fixpoint foldM {A S} (f : S -> A -> M S) (l : list A) (s : S) : M S :=
    match l with
    | [] => ret s
    | a :: tl => do s' <- f s a; foldM f tl s'
    end.

  Record fnst := mkFn { fn_merge : option (option expr); fn_hidden : bool; fn_let : bool;
                        fn_tc : option str; fn_unext : bool }.
  Definition fn_opt (st : fnst) (kv : str * list sexp) : M fnst :=
    let '(k, v) := kv in
    if str_eqb k o_no_merge then
      match v, fn_merge st with
      | [], None => ret (mkFn (Some None) (fn_hidden st) (fn_let st) (fn_tc st) (fn_unext st))
      | _, _ => failM
      end
    else if str_eqb k o_merge then
      match v, fn_merge st with
      | [e], None => do x <- parse_expr e; ret (mkFn (Some (Some x)) (fn_hidden st) (fn_let st) (fn_tc st) (fn_unext st))
      | _, _ => failM
      end
    else if str_eqb k o_hidden then
      match v with [] => ret (mkFn (fn_merge st) true (fn_let st) (fn_tc st) (fn_unext st)) | _ => failM end
    else if str_eqb k o_let then
      match v with [] => ret (mkFn (fn_merge st) (fn_hidden st) true (fn_tc st) (fn_unext st)) | _ => failM end
    else if str_eqb k o_unextractable then
      match v with [] => ret (mkFn (fn_merge st) (fn_hidden st) (fn_let st) (fn_tc st) true) | _ => failM end
    else if str_eqb k o_term_ctor then
      match v with
      | [tc] => do t <- expect_atom tc; ret (mkFn (fn_merge st) (fn_hidden st) (fn_let st) (Some t) (fn_unext st))
      | _ => failM
      end
    else failM.

  Record ctst := mkCt { ct_cost : option N; ct_unext : bool; ct_hidden : bool; ct_let : bool }.
  Definition ct_opt (st : ctst) (kv : str * list sexp) : M ctst :=
    let '(k, v) := kv in
    if str_eqb k o_unextractable then
      match v with [] => ret (mkCt (ct_cost st) true (ct_hidden st) (ct_let st)) | _ => failM end
    else if str_eqb k o_hidden then
      match v with [] => ret (mkCt (ct_cost st) (ct_unext st) true (ct_let st)) | _ => failM end
    else if str_eqb k o_let then
      match v with [] => ret (mkCt (ct_cost st) (ct_unext st) (ct_hidden st) true) | _ => failM end
    else if str_eqb k o_cost then
      match v with
      | [c] => do n <- expect_uint None c; ret (mkCt (Some n) (ct_unext st) (ct_hidden st) (ct_let st))
      | _ => failM
      end
    else failM.

  Record rlst := mkRl { rl_ruleset : str; rl_name : str; rl_mode : option eval_mode;
                        rl_no_decomp : bool; rl_incl : bool }.
  Definition rl_opt (st : rlst) (kv : str * list sexp) : M rlst :=
    let '(k, v) := kv in
    if str_eqb k o_ruleset then
      match v with [r] => do x <- expect_atom r; ret (mkRl x (rl_name st) (rl_mode st) (rl_no_decomp st) (rl_incl st)) | _ => failM end
    else if str_eqb k o_name then
      match v with [s] => do x <- expect_string s; ret (mkRl (rl_ruleset st) x (rl_mode st) (rl_no_decomp st) (rl_incl st)) | _ => failM end
    else if str_eqb k o_naive || str_eqb k o_unsafe_seminaive then
      match v, rl_mode st with
      | [], None => ret (mkRl (rl_ruleset st) (rl_name st)
                           (Some (if str_eqb k o_naive then Naive else UnsafeSeminaive))
                           (rl_no_decomp st) (rl_incl st))
      | _, _ => failM
      end
    else if str_eqb k o_no_decomp then
      match v with [] => ret (mkRl (rl_ruleset st) (rl_name st) (rl_mode st) true (rl_incl st)) | _ => failM end
    else if str_eqb k o_include_subsumed then
      match v with [] => ret (mkRl (rl_ruleset st) (rl_name st) (rl_mode st) (rl_no_decomp st) true) | _ => failM end
    else failM.

  (** rewrite / birewrite options: (ruleset, conditions, subsume, name) *)
  Definition rw_opt (bi : bool) (st : str * list fact * bool * str) (kv : str * list sexp)
    : M (str * list fact * bool * str) :=
    let '(k, v) := kv in
    let '(rs, conds, sub, nm) := st in
    if str_eqb k o_ruleset then
      match v with [r] => do x <- expect_atom r; ret (x, conds, sub, nm) | _ => failM end
    else if negb bi && str_eqb k o_subsume then
      match v with [] => ret (rs, conds, true, nm) | _ => failM end
    else if str_eqb k o_when then
      match v with [w] => do fs <- parse_facts_list w; ret (rs, fs, sub, nm) | _ => failM end
    else if str_eqb k o_name then
      match v with [s] => do x <- expect_string s; ret (rs, conds, sub, x) | _ => failM end
    else failM.

  Definition parse_crs (s : sexp) : M (str * option str) :=
    match s with
    | SList (SAtom h :: items) =>
        if str_eqb h k_crs then
          match items with
          | [p] => do x <- expect_atom p; ret (x, None)
          | [p; q] => do y <- expect_atom q; do x <- expect_atom p; ret (x, Some y)
          | _ => failM
          end
        else failM
    | _ => failM
    end.

  (** sort options without a container: (uf, proof_func, proof_constructors) *)
  Definition sort_opt (st : option (str * option str) * option str * option (str * str * str * str))
             (kv : str * list sexp) :=
    let '(k, v) := kv in
    let '(uf, pf, pc) := st in
    if str_eqb k o_uf then
      match v with
      | [c] => do x <- expect_atom c; ret (Some (x, None), pf, pc)
      | [c; i] => do x <- expect_atom c; do y <- expect_atom i; ret (Some (x, Some y), pf, pc)
      | _ => failM
      end
    else if str_eqb k o_proof_func then
      match v with [p] => do x <- expect_atom p; ret (uf, Some x, pc) | _ => failM end
    else if str_eqb k o_proof_names then
      match v with
      | [a; b; c; d] =>
          do a' <- expect_atom a; do b' <- expect_atom b; do c' <- expect_atom c; do d' <- expect_atom d;
          ret (uf, pf, Some (a', b', c', d'))
      | _ => failM
      end
    else failM.

  (** container sort options: (proof_func, container_rebuild) *)
  Definition csort_opt (st : option str * option (str * option str)) (kv : str * list sexp) :=
    let '(k, v) := kv in
    let '(pf, cr) := st in
    if str_eqb k o_proof_func then
      match v with [p] => do x <- expect_atom p; ret (Some x, cr) | _ => failM end
    else if str_eqb k o_container_rebuild then
      match v with [s] => do x <- parse_crs s; ret (pf, Some x) | _ => failM end
    else failM.

  Definition pf_opt (st : option str * pfmode) (kv : str * list sexp) : M (option str * pfmode) :=
    let '(k, v) := kv in
    let '(file, mode) := st in
    if str_eqb k o_file then
      match v with [f] => do x <- expect_string f; ret (Some x, mode) | _ => failM end
    else if str_eqb k o_mode then
      match v with
      | [SAtom m] => if str_eqb m k_default then ret (file, PFDefault)
                     else if str_eqb m k_csv then ret (file, PFCsv) else failM
      | _ => failM
      end
    else failM.

  Definition parse_rec_datatype (s : sexp) : M (str * subdt) :=
    match s with
    | SList (SAtom h :: tail) =>
        if str_eqb h k_sort then
          match tail with
          | [name; call] =>
              do n <- expect_atom name; do fa <- parse_lookup call; ret (n, NewSort (fst fa) (snd fa))
          | _ => failM
          end
        else do vs <- mapM parse_variant tail; ret (h, Variants vs)
    | _ => failM
    end.

  Fixpoint parse_command (s : sexp) : M command :=
    match s with
    | SList (SAtom h :: tail) =>
        if str_eqb h k_sort then
          match tail with
          | [name] => do n <- expect_atom name; ret (CSort n None None None None None true)
          | name :: SList call :: rest =>
              match call with
              | SAtom f :: args =>
                  do o <- parse_options rest;
                  do st <- foldM csort_opt o (None, None);
                  do n <- expect_atom name;
                  do es <- mapM parse_expr args;
                  ret (CSort n (Some (f, es)) None (fst st) (snd st) None true)
              | _ => failM
              end
          | name :: rest =>
              do o <- parse_options rest;
              do st <- foldM sort_opt o (None, None, None);
              do n <- expect_atom name;
              ret (CSort n None (fst (fst st)) (snd (fst st)) None (snd st) true)
          | [] => failM
          end
        else if str_eqb h k_datatype then
          match tail with
          | name :: variants => do n <- expect_atom name; do vs <- mapM parse_variant variants; ret (CDatatype n vs)
          | [] => failM
          end
        else if str_eqb h k_datatypes then
          do ds <- mapM parse_rec_datatype tail; ret (CDatatypes ds)
        else if str_eqb h k_function then
          match tail with
          | name :: inputs :: output :: rest =>
              do o <- parse_options rest;
              do st <- foldM fn_opt o (mkFn None false false None false);
              match fn_merge st with
              | None => failM
              | Some m =>
                  do n <- expect_atom name; do sc <- parse_schema inputs output;
                  ret (CFunction n (fst sc) (snd sc) m (fn_hidden st) (fn_let st) (fn_tc st) (fn_unext st))
              end
          | _ => failM
          end
        else if str_eqb h k_constructor then
          match tail with
          | name :: inputs :: output :: rest =>
              do o <- parse_options rest;
              do st <- foldM ct_opt o (mkCt None false false false);
              do n <- expect_atom name; do sc <- parse_schema inputs output;
              ret (CConstructor n (fst sc) (snd sc) (ct_cost st) (ct_unext st) (ct_hidden st) (ct_let st) None)
          | _ => failM
          end
        else if str_eqb h k_relation then
          match tail with
          | [name; SList ins] => do n <- expect_atom name; do i <- atoms ins; ret (CRelation n i)
          | _ => failM
          end
        else if str_eqb h k_ruleset then
          match tail with [name] => do n <- expect_atom name; ret (CAddRuleset n) | _ => failM end
        else if str_eqb h k_combined then
          match tail with
          | name :: subs => do n <- expect_atom name; do l <- atoms subs; ret (CCombinedRuleset n l)
          | [] => failM
          end
        else if str_eqb h k_rule then
          match tail with
          | SList lhs :: SList rhs :: rest =>
              do body <- mapM parse_fact lhs;
              do head <- mapM parse_action rhs;
              do o <- parse_options rest;
              do st <- foldM rl_opt o (mkRl [] [] None false false);
              ret (CRule (mkRule head body (rl_name st) (rl_ruleset st)
                            (match rl_mode st with Some m => m | None => Seminaive end)
                            (rl_no_decomp st) (rl_incl st)))
          | _ => failM
          end
        else if str_eqb h k_rewrite then
          match tail with
          | lhs :: rhs :: rest =>
              do l <- parse_expr lhs; do r <- parse_expr rhs;
              do o <- parse_options rest;
              do st <- foldM (rw_opt false) o ([], [], false, []);
              let '(rs, conds, sub, nm) := st in
              ret (CRewrite rs (mkRewrite l r conds nm) sub)
          | _ => failM
          end
        else if str_eqb h k_birewrite then
          match tail with
          | lhs :: rhs :: rest =>
              do l <- parse_expr lhs; do r <- parse_expr rhs;
              do o <- parse_options rest;
              do st <- foldM (rw_opt true) o ([], [], false, []);
              let '(rs, conds, _, nm) := st in
              ret (CBiRewrite rs (mkRewrite l r conds nm))
          | _ => failM
          end
        else if str_eqb h k_run then
          match tail with
          | [] => failM
          | t0 :: tl =>
              let has_ruleset := match tl with t1 :: _ => is_uint u32_bound t1 | [] => false end in
              match has_ruleset, tl with
              | true, t1 :: rest =>
                  do rs <- expect_atom t0; do n <- expect_uint None t1; do u <- parse_until rest;
                  ret (CRunSchedule (SRepeat n (SRun rs u)))
              | _, _ =>
                  do n <- expect_uint None t0; do u <- parse_until tl;
                  ret (CRunSchedule (SRepeat n (SRun [] u)))
              end
          end
        else if str_eqb h k_run_schedule then
          do l <- mapM parse_sched tail; ret (CRunSchedule (SSeq l))
        else if str_eqb h k_extract then
          match tail with
          | [e] => do x <- parse_expr e; ret (CExtract x (ELit (LInt 0)))
          | [e; v] => do x <- parse_expr e; do y <- parse_expr v; ret (CExtract x y)
          | _ => failM
          end
        else if str_eqb h k_check then do fs <- mapM parse_fact tail; ret (CCheck fs)
        else if str_eqb h k_prove then do fs <- mapM parse_fact tail; ret (CProve fs)
        else if str_eqb h k_prove_exists then
          match tail with [c] => do x <- expect_atom c; ret (CProveExists x) | _ => failM end
        else if str_eqb h k_push then
          match tail with
          | [] => ret (CPush 1)
          | [n] => do x <- expect_uint None n; ret (CPush x)
          | _ => failM
          end
        else if str_eqb h k_pop then
          match tail with
          | [] => ret (CPop 1)
          | [n] => do x <- expect_uint None n; ret (CPop x)
          | _ => failM
          end
        else if str_eqb h k_print_stats then
          match tail with
          | [] => ret (CPrintStats None)
          | [SAtom o; file] => if str_eqb o o_file then do f <- expect_string file; ret (CPrintStats (Some f)) else failM
          | _ => failM
          end
        else if str_eqb h k_print_function then
          match tail with
          | [name] => do n <- expect_atom name; ret (CPrintFunction n None None PFDefault)
          | name :: r0 :: rest' =>
              let rows := match expect_uint None r0 0 with POk (x, _) => Some x | _ => None end in
              let rest := match rows with Some _ => rest' | None => r0 :: rest' end in
              do o <- parse_options rest;
              do st <- foldM pf_opt o (None, PFDefault);
              do n <- expect_atom name;
              ret (CPrintFunction n rows (fst st) (snd st))
          | [] => failM
          end
        else if str_eqb h k_print_size then
          match tail with
          | [] => ret (CPrintSize None)
          | [name] => do n <- expect_atom name; ret (CPrintSize (Some n))
          | _ => failM
          end
        else if str_eqb h k_input then
          match tail with
          | [name; file] => do n <- expect_atom name; do f <- expect_string file; ret (CInput n f)
          | _ => failM
          end
        else if str_eqb h k_output then
          match tail with
          | file :: es => do f <- expect_string file; do xs <- mapM parse_expr es; ret (COutput f xs)
          | [] => failM
          end
        else if str_eqb h k_include then
          match tail with [file] => do f <- expect_string file; ret (CInclude f) | _ => failM end
        else if str_eqb h k_fail then
          match tail with
          | [sub] => do c <- parse_command sub; ret (CFail c)
          | _ => failM
          end
        else do a <- parse_action s; ret (CAction a)
    | _ => failM
    end.
End Parser.

(** * boolean equalities (for the case files) *)
Definition opt_eqb {A} (e : A -> A -> bool) (a b : option A) : bool :=
  match a, b with Some x, Some y => e x y | None, None => true | _, _ => false end.

Fixpoint expr_eqb (a b : expr) {struct a} : bool :=
  match a, b with
  | EVar x, EVar y => str_eqb x y
  | ELit x, ELit y => lit_eqb x y
  | ECall f x, ECall g y =>
      str_eqb f g &&
      (fix go (x y : list expr) {struct x} : bool :=
         match x, y with
         | [], [] => true
         | a :: x', b :: y' => expr_eqb a b && go x' y'
         | _, _ => false
         end) x y
  | _, _ => false
  end.
Definition exprs_eqb := list_eqb expr_eqb.
Definition fact_eqb (a b : fact) : bool :=
  match a, b with
  | FEq a1 a2, FEq b1 b2 => expr_eqb a1 b1 && expr_eqb a2 b2
  | FFact x, FFact y => expr_eqb x y
  | _, _ => false
  end.
Definition facts_eqb := list_eqb fact_eqb.
Definition change_eqb (a b : change) : bool :=
  match a, b with Delete, Delete | Subsume, Subsume => true | _, _ => false end.
Definition action_eqb (a b : action) : bool :=
  match a, b with
  | ALet v e, ALet v' e' => str_eqb v v' && expr_eqb e e'
  | ASet f x v, ASet f' x' v' => str_eqb f f' && exprs_eqb x x' && expr_eqb v v'
  | AChange c f x, AChange c' f' x' => change_eqb c c' && str_eqb f f' && exprs_eqb x x'
  | AUnion x y, AUnion x' y' => expr_eqb x x' && expr_eqb y y'
  | APanic m, APanic m' => str_eqb m m'
  | AExpr e, AExpr e' => expr_eqb e e'
  | _, _ => false
  end.
Fixpoint sched_eqb (a b : sched) {struct a} : bool :=
  match a, b with
  | SSaturate x, SSaturate y => sched_eqb x y
  | SRepeat n x, SRepeat m y => N.eqb n m && sched_eqb x y
  | SRun r u, SRun r' u' => str_eqb r r' && opt_eqb facts_eqb u u'
  | SSeq x, SSeq y =>
      (fix go (x y : list sched) {struct x} : bool :=
         match x, y with
         | [], [] => true
         | a :: x', b :: y' => sched_eqb a b && go x' y'
         | _, _ => false
         end) x y
  | _, _ => false
  end.
Definition mode_eqb (a b : eval_mode) : bool :=
  match a, b with Seminaive, Seminaive | Naive, Naive | UnsafeSeminaive, UnsafeSeminaive => true | _, _ => false end.
Definition strs_eqb := list_eqb str_eqb.
Definition variant_eqb (a b : variant) : bool :=
  str_eqb (v_name a) (v_name b) && strs_eqb (v_types a) (v_types b)
  && opt_eqb N.eqb (v_cost a) (v_cost b) && Bool.eqb (v_unextractable a) (v_unextractable b).
Definition subdt_eqb (a b : subdt) : bool :=
  match a, b with
  | Variants x, Variants y => list_eqb variant_eqb x y
  | NewSort h x, NewSort h' x' => str_eqb h h' && exprs_eqb x x'
  | _, _ => false
  end.
Definition pair_eqb {A B} (ea : A -> A -> bool) (eb : B -> B -> bool) (a b : A * B) : bool :=
  ea (fst a) (fst b) && eb (snd a) (snd b).
Definition rewrite_eqb (a b : rewrite) : bool :=
  expr_eqb (w_lhs a) (w_lhs b) && expr_eqb (w_rhs a) (w_rhs b)
  && facts_eqb (w_conds a) (w_conds b) && str_eqb (w_name a) (w_name b).
Definition rule_eqb (a b : rule) : bool :=
  list_eqb action_eqb (r_head a) (r_head b) && facts_eqb (r_body a) (r_body b)
  && str_eqb (r_name a) (r_name b) && str_eqb (r_ruleset a) (r_ruleset b)
  && mode_eqb (r_mode a) (r_mode b) && Bool.eqb (r_no_decomp a) (r_no_decomp b)
  && Bool.eqb (r_include_subsumed a) (r_include_subsumed b).
Definition pfmode_eqb (a b : pfmode) : bool :=
  match a, b with PFDefault, PFDefault | PFCsv, PFCsv => true | _, _ => false end.

Fixpoint command_eqb (a b : command) {struct a} : bool :=
  match a, b with
  | CSort n p u f c pc un, CSort n' p' u' f' c' pc' un' =>
      str_eqb n n' && opt_eqb (pair_eqb str_eqb exprs_eqb) p p'
      && opt_eqb (pair_eqb str_eqb (opt_eqb str_eqb)) u u' && opt_eqb str_eqb f f'
      && opt_eqb (pair_eqb str_eqb (opt_eqb str_eqb)) c c'
      && opt_eqb (pair_eqb (pair_eqb (pair_eqb str_eqb str_eqb) str_eqb) str_eqb) pc pc'
      && Bool.eqb un un'
  | CDatatype n v, CDatatype n' v' => str_eqb n n' && list_eqb variant_eqb v v'
  | CDatatypes d, CDatatypes d' => list_eqb (pair_eqb str_eqb subdt_eqb) d d'
  | CFunction n i o m h l t u, CFunction n' i' o' m' h' l' t' u' =>
      str_eqb n n' && strs_eqb i i' && str_eqb o o' && opt_eqb expr_eqb m m' && Bool.eqb h h'
      && Bool.eqb l l' && opt_eqb str_eqb t t' && Bool.eqb u u'
  | CConstructor n i o c u h l t, CConstructor n' i' o' c' u' h' l' t' =>
      str_eqb n n' && strs_eqb i i' && str_eqb o o' && opt_eqb N.eqb c c' && Bool.eqb u u'
      && Bool.eqb h h' && Bool.eqb l l' && opt_eqb str_eqb t t'
  | CRelation n i, CRelation n' i' => str_eqb n n' && strs_eqb i i'
  | CAddRuleset n, CAddRuleset n' => str_eqb n n'
  | CCombinedRuleset n s, CCombinedRuleset n' s' => str_eqb n n' && strs_eqb s s'
  | CRule r, CRule r' => rule_eqb r r'
  | CRewrite rs w s, CRewrite rs' w' s' => str_eqb rs rs' && rewrite_eqb w w' && Bool.eqb s s'
  | CBiRewrite rs w, CBiRewrite rs' w' => str_eqb rs rs' && rewrite_eqb w w'
  | CAction x, CAction y => action_eqb x y
  | CExtract e v, CExtract e' v' => expr_eqb e e' && expr_eqb v v'
  | CRunSchedule s, CRunSchedule s' => sched_eqb s s'
  | CPrintStats f, CPrintStats f' => opt_eqb str_eqb f f'
  | CCheck f, CCheck f' => facts_eqb f f'
  | CProve f, CProve f' => facts_eqb f f'
  | CProveExists c, CProveExists c' => str_eqb c c'
  | CPush n, CPush n' => N.eqb n n'
  | CPop n, CPop n' => N.eqb n n'
  | CPrintFunction n r f m, CPrintFunction n' r' f' m' =>
      str_eqb n n' && opt_eqb N.eqb r r' && opt_eqb str_eqb f f' && pfmode_eqb m m'
  | CPrintSize n, CPrintSize n' => opt_eqb str_eqb n n'
  | CInput n f, CInput n' f' => str_eqb n n' && str_eqb f f'
  | COutput f e, COutput f' e' => str_eqb f f' && exprs_eqb e e'
  | CFail c, CFail c' => command_eqb c c'
  | CInclude f, CInclude f' => str_eqb f f'
  | CUserDefined n e, CUserDefined n' e' => str_eqb n n' && exprs_eqb e e'
  | _, _ => false
  end.

(** * whole-text entry points *)
Section Text.
  Variable fmt_f64 : Z -> str.
  Variable parse_f64 : str -> option fl.
  Variable chk : bool.

  Definition print_expr (e : expr) : str := text fmt_f64 (lay_expr e).
  Definition print_fact (f : fact) : str := text fmt_f64 (lay_fact f).
  Definition print_action (a : action) : str := text fmt_f64 (lay_action a).
  Definition print_sched (s : sched) : str := text fmt_f64 (lay_sched s).
  Definition print_command (c : command) : str := text fmt_f64 (lay_command c).

  (** read one s-expression from the text, then parse it (Parser::get_*_from_string) *)
  Definition parse_with {A} (p : sexp -> M A) (t : str) (n : N) : pres (A * N) :=
    match read_sexp parse_f64 t with
    | POk (s, _) => p s n
    | PErr e => PErr e
    | PFuel => PFuel
    end.
  Definition parse_expr_str := parse_with (parse_expr chk).
  Definition parse_fact_str := parse_with (parse_fact chk).
  Definition parse_action_str := parse_with (parse_action chk).
  Definition parse_sched_str := parse_with (parse_sched chk).

  (** Parser::get_program_from_string *)
  Definition parse_program (t : str) (n : N) : pres (list command * N) :=
    match read_all parse_f64 t with
    | POk ss => mapM (parse_command chk) ss n
    | PErr e => PErr e
    | PFuel => PFuel
    end.
End Text.

(** * cases written by the harness (harness/src/bin/h_syntax.rs)
    Every case carries the two float tables recorded from the real `f64::to_string` /
    `str::parse::<f64>` for the strings/values that occur in it. *)
Definition orc := (list (Z * str) * list (str * option fl))%type.

Definition res_eqb {A} (e : A -> A -> bool) (a b : pres A) : bool :=
  match a, b with
  | POk x, POk y => e x y
  | PErr x, PErr y => perr_eqb x y
  | _, _ => false
  end.

Inductive case :=
(** the text, and what `all_sexps` produced for it (observed through a command macro) *)
| KRead (o : orc) (txt : str) (expect : pres (list sexp))
(** a literal, its `Display` output *)
| KLit (o : orc) (l : lit) (txt : str)
(** Rust whitespace code points below the bound *)
| KWs (bound : N) (ws : list N)
(** an AST built by the generator / parsed from a file, its `Display` text, and what the Rust
    parser returns for that text ([chk] = ensure_no_reserved_symbols) *)
| KExpr (o : orc) (chk : bool) (e : expr) (txt : str) (back : pres expr)
| KFact (o : orc) (chk : bool) (f : fact) (txt : str) (back : pres fact)
| KAction (o : orc) (chk : bool) (a : action) (txt : str) (back : pres action)
| KSched (o : orc) (chk : bool) (s : sched) (txt : str) (back : pres sched)
| KCmd (o : orc) (chk : bool) (c : command) (txt : str) (back : pres (list command))
(** arbitrary program text and the Rust parser's result on it *)
| KProg (o : orc) (chk : bool) (txt : str) (back : pres (list command)).

Fixpoint N_range (fuel : nat) (from : N) : list N :=
  match fuel with O => [] | S f => from :: N_range f (from + 1) end.

Definition drop_state {A} (r : pres (A * N)) : pres A :=
  match r with POk (a, _) => POk a | PErr e => PErr e | PFuel => PFuel end.

Definition check_case (c : case) : bool :=
  match c with
  | KRead (ft, pt) txt expect =>
      res_eqb (list_eqb sexp_eqb) (read_all (lookup_parse pt) txt) expect
  | KLit (ft, pt) l txt =>
      str_eqb (print_lit (lookup_fmt ft) l) txt
      && res_eqb (list_eqb sexp_eqb) (read_all (lookup_parse pt) txt)
           (POk [match l with LUnit => SList [] | _ => SLit l end])
  | KWs bound ws => list_eqb N.eqb (List.filter is_ws (N_range (N.to_nat bound) 0)) ws
  | KExpr (ft, pt) chk e txt back =>
      str_eqb (print_expr (lookup_fmt ft) e) txt
      && res_eqb expr_eqb (drop_state (parse_expr_str (lookup_parse pt) chk txt 0)) back
  | KFact (ft, pt) chk f txt back =>
      str_eqb (print_fact (lookup_fmt ft) f) txt
      && res_eqb fact_eqb (drop_state (parse_fact_str (lookup_parse pt) chk txt 0)) back
  | KAction (ft, pt) chk a txt back =>
      str_eqb (print_action (lookup_fmt ft) a) txt
      && res_eqb action_eqb (drop_state (parse_action_str (lookup_parse pt) chk txt 0)) back
  | KSched (ft, pt) chk s txt back =>
      str_eqb (print_sched (lookup_fmt ft) s) txt
      && res_eqb sched_eqb (drop_state (parse_sched_str (lookup_parse pt) chk txt 0)) back
  | KCmd (ft, pt) chk c txt back =>
      str_eqb (print_command (lookup_fmt ft) c) txt
      && res_eqb (list_eqb command_eqb) (drop_state (parse_program (lookup_parse pt) chk txt 0)) back
  | KProg (ft, pt) chk txt back =>
      res_eqb (list_eqb command_eqb) (drop_state (parse_program (lookup_parse pt) chk txt 0)) back
  end.
