(** C04 — The database is canonical and consistent after every command (invariant part over the
    Egg model; the lead adds the theorems about failing commands / containers / serialisation).
    This file only pins statements and prints their assumptions. *)
From Coq Require Import List Arith PeanoNat ZArith.
Import ListNotations.
Require Import Verif.Base.Res Verif.gen.UFSeq Verif.gen.MergeArms Verif.UF.Seq
  Verif.Egg.Model Verif.Egg.CmdOk Verif.Egg.CCDefs Verif.Egg.Rebuild Verif.Egg.CC.

(** After EVERY command history over constructor tables, when control returns:
    the union-find order invariant holds; every e-class id stored in any column of any row is in
    range and is the canonical representative of its class; every table holds at most one row per
    key; and congruent rows (keys equal modulo the union-find) have been merged. *)
Theorem c04_inv_reachable : forall n sg cs s,
  Forall (fun m => m = MUnionId) sg ->
  run sg (init n) cs = Ok s ->
  Inv (uf s) /\ length (wit s) = length (uf s) /\ length (tabs s) = n /\
  (forall f r i, In r (get_tab (tabs s) f) -> (In (VId i) (rargs r) \/ rret r = VId i) ->
     i < length (uf s) /\ par (uf s) i = i /\ rep (uf s) i = i) /\
  (forall f r, In r (get_tab (tabs s) f) -> exists i, rret r = VId i) /\
  (forall f, NoDup (map rargs (get_tab (tabs s) f))) /\
  (forall f r1 r2, In r1 (get_tab (tabs s) f) -> In r2 (get_tab (tabs s) f) ->
     map (canon (uf s)) (rargs r1) = map (canon (uf s)) (rargs r2) -> r1 = r2).
Proof. exact CC.c04_inv_reachable. Qed.
Print Assumptions c04_inv_reachable.

(** "Everything the engine has recorded as equal is already visible to the very next query":
    on a reachable state, plain lookups ([eval], which never consults the union-find) give exactly
    the evaluation modulo the union-find ([R]: any row whose canonicalised key matches). *)
Theorem c04_eval_is_eval_modulo_uf : forall n sg cs s t v,
  Forall (fun m => m = MUnionId) sg ->
  run sg (init n) cs = Ok s ->
  (eval s t = Some v <-> R (uf s) (tabs s) t v).
Proof. exact CC.c04_eval_is_eval_modulo_uf. Qed.
Print Assumptions c04_eval_is_eval_modulo_uf.

(** non-vacuity: the final tables of the chain example (f-table has 3 rows after 6 were inserted
    and merged; all ids are roots of the final union-find) *)
Example c04_example_tables :
  bind (run Ex.sg (init 4) Ex.cs1) (fun s => Ok (uf s, map (map (fun r => (rargs r, rret r))) (tabs s)))
  = Ok ([0; 1; 2; 3; 0; 1; 2; 3; 8],
        [[([], VId 0)]; [([], VId 0)];
         [([VId 0], VId 1); ([VId 1], VId 2); ([VId 2], VId 3)];
         [([], VId 8)]]).
Proof. vm_compute. reflexivity. Qed.

(* ================================================================== *)
(** * The invariant along every run of the rule interpreter ([Egg/Rules.v])

    [visited sg n ks s]: [s] is a state the program [ks] passes through — after one of its
    commands (up to the first error), or the state in which it ends, returned together with the
    error if there is one. *)
Require Import Verif.Egg.Rules Verif.Egg.RulesProofs.

(** the invariant, spelled out (this pins [c04_inv]) *)
Theorem c04_inv_unfold : forall n s, c04_inv n s <->
  (Inv (uf s) /\ length (wit s) = length (uf s) /\ length (tabs s) = n /\
   (forall f r i, In r (get_tab (tabs s) f) -> (In (VId i) (rargs r) \/ rret r = VId i) ->
      i < length (uf s) /\ par (uf s) i = i /\ rep (uf s) i = i) /\
   (forall f, NoDup (map rargs (get_tab (tabs s) f))) /\
   (forall f r1 r2, In r1 (get_tab (tabs s) f) -> In r2 (get_tab (tabs s) f) ->
      map (canon (uf s)) (rargs r1) = map (canon (uf s)) (rargs r2) -> r1 = r2)).
Proof. intros n s. reflexivity. Qed.
Print Assumptions c04_inv_unfold.

(** [visited], spelled out *)
Theorem c04_visited_unfold : forall sg n ks s, visited sg n ks s <->
  (In s (map fst (ptrace sg (init n, []) ks)) \/ s = fst (fst (pfinal sg (init n, []) ks))).
Proof. intros. reflexivity. Qed.
Print Assumptions c04_visited_unfold.

(** constructor fragment: the state after EVERY command of every such program (and at the error
    point) is canonical, functional and has no congruent rows *)
Theorem c04_rules_inv_reachable : forall n sg ks s,
  prog_ctor_okb n sg ks = true -> visited sg n ks s -> c04_inv n s.
Proof. exact RulesProofs.rules_inv_visited. Qed.
Print Assumptions c04_rules_inv_reachable.

(** EVERY program over EVERY signature — constructors, lattice functions (min/max/or/and),
    relations, :no-merge, sets, subsumption, deletion, panics, ungrounded actions, merge conflicts:
    every visited state, error or not, satisfies the invariant. No hypothesis. *)
Theorem c04_x_inv_reachable : forall n sg ks s, visited sg n ks s -> c04_inv n s.
Proof. exact RulesProofs.x_inv_visited. Qed.
Print Assumptions c04_x_inv_reachable.

(** ... and the model never reports its own error code 4 (fuel exhausted / panic): the rebuild
    loop terminates within [rebuild_fuel] on every signature, the union-find never panics *)
Theorem c04_x_no_model_error : forall n sg ks, snd (pfinal sg (init n, []) ks) <> Some 4.
Proof. exact RulesProofs.x_no_model_error. Qed.
Print Assumptions c04_x_no_model_error.

(** non-vacuity: a mixed-signature program (constructor, min-lattice function, relation; sets, a
    rule, a union merging two function rows through min, subsume, delete, panic) *)
Example c04_x_example :
  length (ptrace REx.sg2 (init 4, []) REx.ks2) = 10 /\
  snd (pfinal REx.sg2 (init 4, []) REx.ks2) = Some 1 /\
  REx.dump (fst (pfinal REx.sg2 (init 4, []) REx.ks2))
  = ([0; 0],
     [[([], VId 0, false)]; [];
      [([VId 0; VInt 1], VInt 0, true); ([VId 0; VInt 3], VInt 0, false); ([VId 0; VInt 9], VInt 0, false)];
      [([], VId 0, false)]]) /\
  nth 7 (map REx.dump (ptrace REx.sg2 (init 4, []) REx.ks2)) ([], [])
  = ([0; 0],
     [[([], VId 0, false)]; [([VId 0], VInt 3, false)];
      [([VId 0; VInt 1], VInt 0, false); ([VId 0; VInt 3], VInt 0, false); ([VId 0; VInt 9], VInt 0, false)];
      [([], VId 0, false)]]).
Proof. exact RulesProofs.rex_mixed. Qed.

(* ================================================================== *)
(** * The serialised e-graph and the read API describe the same rows

    [serialize_default outs (uf s) (tabs s)] is the hand model of [EGraph::serialize] with
    [SerializeConfig::default()] (Egg/Serialize.v; compared with the real function on the real dump
    after every command by harness h_serialize, whole node map in IndexMap order). [outs] gives the
    output sort of every table (eq-sort / i64 / Unit) - the statement holds for every choice. *)
Require Import Verif.Egg.Serialize Verif.Egg.SerializeProofs.

(** [ser_agrees], spelled out (this pins it) *)
Theorem c04_ser_agrees_unfold : forall outs s, ser_agrees outs s <->
  (let g := serialize_default outs (uf s) (tabs s) in
   (* every function node of the serialised graph is a live row of the dump *)
   (forall f off nd, find_node g (NFun f off) = Some nd ->
      exists r, nth_error (get_tab (tabs s) f) off = Some r) /\
   (* every row is a node: its op, the e-class of its (canonicalised) output, its subsumed flag;
      every child is a node that exists in the graph, in the canonical class of the argument *)
   (forall f off r, nth_error (get_tab (tabs s) f) off = Some r ->
      exists ch, find_node g (NFun f off)
                 = Some (mkNode (OpFun f) (out_class (uf s) (nth f outs OEq) (rret r)) ch (rsub r)) /\
                 Forall2 (fun x v => exists cn, find_node g x = Some cn /\
                                                n_class cn = class_of (uf s) v) ch (rargs r)) /\
   (* canonicalisation is the identity on every stored id: class ids are the stored ids *)
   (forall f r i, In r (get_tab (tabs s) f) -> (In (VId i) (rargs r) \/ rret r = VId i) ->
      class_of (uf s) (VId i) = CEq i) /\
   (* two nodes are in one e-class iff the read API (plain key lookup, as [eval]) returns the
      same value for their keys *)
   (forall f1 r1 f2 r2 i1 i2, In r1 (get_tab (tabs s) f1) -> In r2 (get_tab (tabs s) f2) ->
      rret r1 = VId i1 -> rret r2 = VId i2 ->
      (class_of (uf s) (rret r1) = class_of (uf s) (rret r2) <->
       option_map rret (tab_lookup (get_tab (tabs s) f1) (rargs r1))
       = option_map rret (tab_lookup (get_tab (tabs s) f2) (rargs r2))))).
Proof. intros outs s. reflexivity. Qed.
Print Assumptions c04_ser_agrees_unfold.

(** at EVERY state the rule interpreter visits (after every command, and at the error point of a
    failing one), for every signature and program *)
Theorem c04_serialize_agrees : forall n sg ks s outs, visited sg n ks s -> ser_agrees outs s.
Proof. exact SerializeProofs.serialize_agrees_visited. Qed.
Print Assumptions c04_serialize_agrees.

(** the first two clauses need no invariant at all: they hold for the serialisation of ANY dump
    (so also for a dump of an engine state that is not canonical) *)
Theorem c04_serialize_nodes_are_rows : forall p outs ts f off nd,
  find_node (serialize_default outs p ts) (NFun f off) = Some nd ->
  exists r, nth_error (get_tab ts f) off = Some r.
Proof. exact SerializeProofs.ser_nodes_are_rows. Qed.
Print Assumptions c04_serialize_nodes_are_rows.

Theorem c04_serialize_rows_are_nodes : forall p outs ts f off r,
  nth_error (get_tab ts f) off = Some r ->
  exists ch, find_node (serialize_default outs p ts) (NFun f off)
             = Some (mkNode (OpFun f) (out_class p (nth f outs OEq) (rret r)) ch (rsub r)) /\
             Forall2 (fun x v => exists cn, find_node (serialize_default outs p ts) x = Some cn /\
                                            n_class cn = class_of p v) ch (rargs r).
Proof. exact SerializeProofs.ser_rows_are_nodes. Qed.
Print Assumptions c04_serialize_rows_are_nodes.

(** primitive and dummy nodes carry the class their id names *)
Theorem c04_serialize_leaf_class : forall p outs ts n nd,
  find_node (serialize_default outs p ts) n = Some nd ->
  match n with NPrim c | NDummy c => n_class nd = c | NFun _ _ => True end.
Proof. exact SerializeProofs.ser_leaf_class. Qed.
Print Assumptions c04_serialize_leaf_class.

(** non-vacuity: a dump with a shared class, a subsumed row, a class without nodes (dummy), an
    i64 function and a Unit function; and the limited configuration *)
Example c04_serialize_example :
  map fst (o_nodes SEx.g)
  = [NFun 0 0; NFun 0 1; NPrim (CInt 5); NFun 1 0; NDummy (CEq 3); NFun 1 1; NPrim (CInt 7);
     NFun 2 0; NPrim CUnit; NFun 3 0] /\
  find_node SEx.g (NFun 1 0) = Some (mkNode (OpFun 1) (CEq 1) [NFun 0 1; NPrim (CInt 5)] true) /\
  find_node SEx.g (NFun 1 1) = Some (mkNode (OpFun 1) (CEq 1) [NDummy (CEq 3); NPrim (CInt 5)] false) /\
  find_node SEx.g (NFun 2 0) = Some (mkNode (OpFun 2) (CInt 7) [NFun 1 1] false) /\
  find_node SEx.g (NFun 3 0) = Some (mkNode (OpFun 3) CUnit [NFun 1 0] false) /\
  o_cdata SEx.g = [CEq 0; CEq 1; CInt 5; CEq 3; CInt 7; CUnit].
Proof. exact SerializeProofs.SEx.ex_nodes. Qed.

Example c04_serialize_limited_example :
  let g' := serialize (Some 2) (Some 1) SEx.outs [0; 1; 1; 3] SEx.ts in
  map fst (o_nodes g') = [NFun 0 0; NPrim (CInt 5); NFun 1 0] /\ o_trunc g' = [0; 1] /\ o_disc g' = [2; 3].
Proof. exact SerializeProofs.SEx.ex_limited. Qed.
