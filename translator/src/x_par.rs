//! Extension module (Tier A) for C01. Output: coq/gen/ParFacts.v
//!
//! Regenerates, from /repo/egglog-bridge/src/lib.rs on every run, the CONTROL FACTS of the rebuild
//! loop that the C01 theorems (coq/Egg/RebuildBound.v, pinned in Props/C01.v) are stated under:
//!
//!  * `EGraph::rebuild` (native branch)  -> `rebuild_loop_exit_condition : loop_exit`
//!        `loop { ..; if !a && !b && !c { break; } }` with that `break` the only exit = ExitWhenNoChange;
//!        `for _ in 0..N { .. }` (N a literal or a local `const`)                   = ExitAfterCap N
//!  * the order of the steps inside the loop body -> `rebuild_loop_order : list rebuild_step`
//!        (rebuild_containers, apply_rebuild, refresh_rows_for_values, inc_ts — in SOURCE order)
//!  * the flags whose all-false conjunction leaves the loop -> `rebuild_break_flags : list change_flag`
//!  * `EGraph::run_rules_inner` / the flush function (the one calling `merge_all`): the rebuild is
//!    run iff the union-find grew -> `rebuild_guard_run_rules`, `rebuild_guard_flush : rebuild_guard`
//!
//! Contract: return (text of the .v file, report lines). Each report line is one JSON object
//! {"item":"ParFacts.<name>","file":"<rust file>","ok":true|false[,"error":"..."]}.
//! Fail closed: when a site is not recognised, the Gallina definition is OMITTED (dependent proofs
//! stop compiling) and an ok:false report line is pushed.
use quote::ToTokens;
use syn::visit::Visit;
use syn::{BinOp, Block, Expr, ImplItem, Item, Lit, Pat, Stmt, UnOp};

const FILE: &str = "egglog-bridge/src/lib.rs";

type R<T> = Result<T, String>;

fn norm<T: ToTokens>(t: &T) -> String {
    t.to_token_stream().to_string().chars().filter(|c| !c.is_whitespace()).collect()
}

/// names of all method calls inside a syntax node, in visiting (source) order
#[derive(Default)]
struct Calls {
    names: Vec<String>,
    breaks: usize,
    returns: usize,
}
impl<'ast> Visit<'ast> for Calls {
    fn visit_expr_method_call(&mut self, e: &'ast syn::ExprMethodCall) {
        // receiver first so that `a.f().g()` yields f, g
        self.visit_expr(&e.receiver);
        self.names.push(e.method.to_string());
        for a in &e.args {
            self.visit_expr(a);
        }
    }
    fn visit_expr_break(&mut self, e: &'ast syn::ExprBreak) {
        self.breaks += 1;
        syn::visit::visit_expr_break(self, e);
    }
    fn visit_expr_return(&mut self, e: &'ast syn::ExprReturn) {
        self.returns += 1;
        syn::visit::visit_expr_return(self, e);
    }
    // closures / nested fns are not part of this control flow, but count their calls anyway
}

fn calls_of_stmt(s: &Stmt) -> Calls {
    let mut c = Calls::default();
    c.visit_stmt(s);
    c
}
fn calls_of_block(b: &Block) -> Calls {
    let mut c = Calls::default();
    c.visit_block(b);
    c
}
fn calls_of_expr(e: &Expr) -> Calls {
    let mut c = Calls::default();
    c.visit_expr(e);
    c
}

fn find_fn<'a>(file: &'a syn::File, ty: &str, pred: &dyn Fn(&syn::ImplItemFn) -> bool) -> Option<&'a syn::ImplItemFn> {
    for it in &file.items {
        if let Item::Impl(im) = it {
            if im.trait_.is_some() {
                continue;
            }
            let tyname = match &*im.self_ty {
                syn::Type::Path(p) => p.path.segments.last().map(|s| s.ident.to_string()),
                _ => None,
            };
            if tyname.as_deref() != Some(ty) {
                continue;
            }
            for ii in &im.items {
                if let ImplItem::Fn(f) = ii {
                    if pred(f) {
                        return Some(f);
                    }
                }
            }
        }
    }
    None
}

fn stmt_expr(s: &Stmt) -> Option<&Expr> {
    match s {
        Stmt::Expr(e, _) => Some(e),
        _ => None,
    }
}

/// `let x = init;` / `let x: T = init;` -> (x, init)
fn let_binding(s: &Stmt) -> Option<(String, &Expr)> {
    if let Stmt::Local(l) = s {
        let name = match &l.pat {
            Pat::Ident(i) => i.ident.to_string(),
            Pat::Type(t) => match &*t.pat {
                Pat::Ident(i) => i.ident.to_string(),
                _ => return None,
            },
            _ => return None,
        };
        let init = l.init.as_ref()?;
        if init.diverge.is_some() {
            return None;
        }
        return Some((name, &init.expr));
    }
    None
}

fn flatten_and<'a>(e: &'a Expr, out: &mut Vec<&'a Expr>) -> R<()> {
    match e {
        Expr::Binary(b) => match b.op {
            BinOp::And(_) => {
                flatten_and(&b.left, out)?;
                flatten_and(&b.right, out)
            }
            _ => Err(format!("break condition uses an operator other than && : {}", norm(e))),
        },
        Expr::Paren(p) => flatten_and(&p.expr, out),
        _ => {
            out.push(e);
            Ok(())
        }
    }
}

const STEPS: &[(&str, &str)] = &[
    ("rebuild_containers", "StepContainers"),
    ("apply_rebuild", "StepTables"),
    ("refresh_rows_for_values", "StepRefresh"),
    ("inc_ts", "StepIncTs"),
];

struct LoopSite<'a> {
    exit: R<String>,
    body: &'a Block,
}

/// the native branch of `EGraph::rebuild` and its iteration construct
fn loop_site(file: &syn::File) -> R<LoopSite<'_>> {
    let f = find_fn(file, "EGraph", &|f| f.sig.ident == "rebuild").ok_or("impl EGraph { fn rebuild } not found")?;
    let mut native: Option<&Block> = None;
    for s in &f.block.stmts {
        if let Some(Expr::If(i)) = stmt_expr(s) {
            let c = norm(&i.cond);
            if c.contains(".rebuilder(&[])") && c.ends_with(".is_some()") {
                native = Some(&i.then_branch);
                break;
            }
        }
    }
    let native = native.ok_or("native-rebuild branch (`if ...rebuilder(&[]).is_some()`) not found")?;
    // local consts (for `for _ in 0..CONST`)
    let mut consts: Vec<(String, u64)> = Vec::new();
    for s in &native.stmts {
        if let Stmt::Item(Item::Const(c)) = s {
            if let Expr::Lit(l) = &*c.expr {
                if let Lit::Int(i) = &l.lit {
                    if let Ok(v) = i.base10_parse::<u64>() {
                        consts.push((c.ident.to_string(), v));
                    }
                }
            }
        }
    }
    let mut site: Option<LoopSite> = None;
    let mut n_loops = 0;
    for s in &native.stmts {
        match stmt_expr(s) {
            Some(Expr::Loop(l)) => {
                n_loops += 1;
                site = Some(LoopSite { exit: loop_exit_of_loop(&l.body), body: &l.body });
            }
            Some(Expr::ForLoop(fl)) => {
                n_loops += 1;
                // `tables.push` loop: `for (_, func) in self.funcs.iter()` is not the rebuild loop
                let c = calls_of_block(&fl.body);
                if !c.names.iter().any(|n| n == "apply_rebuild") {
                    n_loops -= 1;
                    continue;
                }
                site = Some(LoopSite { exit: loop_exit_of_for(fl, &consts), body: &fl.body });
            }
            Some(Expr::While(w)) => {
                n_loops += 1;
                site = Some(LoopSite {
                    exit: Err(format!("`while {}` is not a recognised rebuild loop", norm(&w.cond))),
                    body: &w.body,
                });
            }
            _ => {}
        }
    }
    if n_loops != 1 {
        return Err(format!("expected exactly one rebuild loop in the native branch, found {}", n_loops));
    }
    site.ok_or_else(|| "rebuild loop not found".to_string())
}

fn final_break_cond(body: &Block) -> R<&Expr> {
    let last = body.stmts.last().ok_or("empty loop body")?;
    let i = match stmt_expr(last) {
        Some(Expr::If(i)) => i,
        _ => return Err("the last statement of the loop body is not `if COND { break; }`".into()),
    };
    if i.else_branch.is_some() {
        return Err("the final `if` of the loop body has an else branch".into());
    }
    if i.then_branch.stmts.len() != 1 || !matches!(stmt_expr(&i.then_branch.stmts[0]), Some(Expr::Break(b)) if b.expr.is_none() && b.label.is_none()) {
        return Err("the final `if` of the loop body is not exactly `{ break; }`".into());
    }
    Ok(&i.cond)
}

fn loop_exit_of_loop(body: &Block) -> R<String> {
    let cond = final_break_cond(body)?;
    let c = calls_of_block(body);
    if c.breaks != 1 {
        return Err(format!("the loop body contains {} `break`s (expected only the final one)", c.breaks));
    }
    if c.returns != 0 {
        return Err("the loop body contains a `return`".into());
    }
    // the condition must be the pure all-flags-false conjunction (no counters, no ||)
    break_flags(body, cond)?;
    Ok("ExitWhenNoChange".into())
}

fn loop_exit_of_for(fl: &syn::ExprForLoop, consts: &[(String, u64)]) -> R<String> {
    if !matches!(&*fl.pat, Pat::Wild(_)) {
        return Err("rebuild `for` loop with a binding pattern".into());
    }
    let r = match &*fl.expr {
        Expr::Range(r) => r,
        _ => return Err("rebuild `for` loop not over a range".into()),
    };
    if !matches!(r.limits, syn::RangeLimits::HalfOpen(_)) {
        return Err("rebuild `for` loop over an inclusive range".into());
    }
    match r.start.as_deref() {
        Some(Expr::Lit(l)) if norm(l) == "0" => {}
        _ => return Err("rebuild `for` loop range does not start at 0".into()),
    }
    let cap = match r.end.as_deref() {
        Some(Expr::Lit(l)) => match &l.lit {
            Lit::Int(i) => i.base10_parse::<u64>().map_err(|e| e.to_string())?,
            _ => return Err("non-integer cap".into()),
        },
        Some(Expr::Path(p)) => {
            let name = norm(p);
            consts.iter().find(|(n, _)| *n == name).map(|(_, v)| *v).ok_or(format!("cap `{}` is not a local const literal", name))?
        }
        _ => return Err("unrecognised cap expression".into()),
    };
    Ok(format!("ExitAfterCap {}", cap))
}

fn loop_order(body: &Block) -> R<String> {
    let mut seq: Vec<&str> = Vec::new();
    for s in &body.stmts {
        for n in calls_of_stmt(s).names {
            if let Some((_, g)) = STEPS.iter().find(|(r, _)| *r == n) {
                seq.push(g);
            }
        }
    }
    for (r, g) in STEPS {
        let k = seq.iter().filter(|x| *x == g).count();
        if k != 1 {
            return Err(format!("`{}` occurs {} times in the loop body (expected once)", r, k));
        }
    }
    Ok(format!("[{}]", seq.join("; ")))
}

fn break_flags(body: &Block, cond: &Expr) -> R<String> {
    // locals bound from one of the step calls
    let mut bound: Vec<(String, &str)> = Vec::new();
    for s in &body.stmts {
        if let Some((x, init)) = let_binding(s) {
            let names = calls_of_expr(init).names;
            for (r, _) in STEPS {
                if names.iter().any(|n| n == r) {
                    bound.push((x.clone(), r));
                }
            }
        }
    }
    let lookup = |x: &str| bound.iter().find(|(n, _)| n == x).map(|(_, r)| *r);
    let mut ops = Vec::new();
    flatten_and(cond, &mut ops)?;
    let mut flags: Vec<&str> = Vec::new();
    for o in ops {
        let inner = match o {
            Expr::Unary(u) if matches!(u.op, UnOp::Not(_)) => &*u.expr,
            _ => return Err(format!("operand `{}` of the break condition is not a negation", norm(o))),
        };
        let flag = match inner {
            Expr::Path(p) => match lookup(&norm(p)) {
                Some("apply_rebuild") => "FlagTables",
                Some("refresh_rows_for_values") => "FlagRefreshed",
                _ => return Err(format!("unknown flag `{}` in the break condition", norm(p))),
            },
            Expr::MethodCall(m) if m.method == "changed" && m.args.is_empty() => match lookup(&norm(&m.receiver)) {
                Some("rebuild_containers") => "FlagContainers",
                _ => return Err(format!("unknown flag `{}` in the break condition", norm(inner))),
            },
            _ => return Err(format!("unknown flag `{}` in the break condition", norm(inner))),
        };
        if flags.contains(&flag) {
            return Err(format!("flag {} repeated", flag));
        }
        flags.push(flag);
    }
    Ok(format!("[{}]", flags.join("; ")))
}

/// is this statement an unconditional `self.rebuild()` (possibly `?` / `.unwrap()`), at this level
fn is_rebuild_stmt(s: &Stmt) -> bool {
    let e = match s {
        Stmt::Expr(e, _) => e,
        _ => return false,
    };
    let n = norm(e);
    n == "self.rebuild()?" || n == "self.rebuild().unwrap()" || n == "self.rebuild()"
}

fn uf_len_local(stmts: &[Stmt], name: &str) -> bool {
    stmts.iter().any(|s| match let_binding(s) {
        Some((x, init)) => x == name && norm(init) == "self.db.get_table(self.uf_table).len()",
        None => false,
    })
}

fn guard_of(stmts: &[Stmt], skip_form: bool) -> R<String> {
    // skip_form: `if before == after { ..return.. }  ... self.rebuild()?;`   (run_rules_inner)
    // else     : `if before != after { self.rebuild().unwrap(); }`            (flush)
    let any_rebuild = stmts.iter().any(|s| calls_of_stmt(s).names.iter().any(|n| n == "rebuild"));
    let mut guarded = false;
    let mut seen_skip = false;
    let mut uncond = false;
    for s in stmts {
        if let Some(Expr::If(i)) = stmt_expr(s) {
            let c = norm(&i.cond);
            let then_calls = calls_of_block(&i.then_branch);
            let then_rebuilds = then_calls.names.iter().any(|n| n == "rebuild");
            if c == "uf_size_before==uf_size_after" || c == "uf_size_after==uf_size_before" {
                if i.else_branch.is_some() || then_rebuilds || then_calls.returns == 0 {
                    return Err("unrecognised shape of the `uf_size_before == uf_size_after` skip".into());
                }
                seen_skip = true;
                continue;
            }
            if c == "uf_size_before!=uf_size_after" || c == "uf_size_after!=uf_size_before" {
                if i.else_branch.is_some() || !i.then_branch.stmts.iter().any(is_rebuild_stmt) {
                    return Err("unrecognised shape of the `uf_size_before != uf_size_after` guard".into());
                }
                guarded = true;
                continue;
            }
            if c.starts_with("letSome(message)=") {
                // the panic path of run_rules_inner: rebuilds iff the union-find grew, then returns Err
                continue;
            }
            if then_rebuilds {
                return Err(format!("rebuild under an unrecognised condition `{}`", c));
            }
        } else if is_rebuild_stmt(s) {
            if seen_skip && skip_form {
                guarded = true;
            } else {
                uncond = true;
            }
        } else if matches!(s, Stmt::Expr(..)) && calls_of_stmt(s).names.iter().any(|n| n == "rebuild") {
            return Err("rebuild call in an unrecognised statement".into());
        }
    }
    if guarded && !uncond {
        if !(uf_len_local(stmts, "uf_size_before") && uf_len_local(stmts, "uf_size_after")) {
            return Err("uf_size_before / uf_size_after are not both `self.db.get_table(self.uf_table).len()`".into());
        }
        return Ok("RebuildIffUfGrew".into());
    }
    if uncond {
        return Ok("RebuildAlways".into());
    }
    if !any_rebuild {
        return Ok("RebuildNever".into());
    }
    Err("rebuild call site not recognised".into())
}

pub fn generate(repo: &std::path::Path) -> (String, Vec<String>) {
    let mut out = String::new();
    let mut rep: Vec<String> = Vec::new();
    out.push_str("(* GENERATED by /verif/translator (x_par.rs) from egglog-bridge/src/lib.rs — do not edit *)\n");
    out.push_str("From Coq Require Import List.\nImport ListNotations.\n\n");
    out.push_str("Inductive loop_exit := ExitWhenNoChange | ExitAfterCap (cap : nat).\n");
    out.push_str("Inductive rebuild_step := StepContainers | StepTables | StepRefresh | StepIncTs.\n");
    out.push_str("Inductive change_flag := FlagContainers | FlagTables | FlagRefreshed.\n");
    out.push_str("Inductive rebuild_guard := RebuildIffUfGrew | RebuildAlways | RebuildNever.\n\n");

    let mut emit = |name: &str, ty: &str, r: R<String>, out: &mut String| match r {
        Ok(v) => {
            out.push_str(&format!("(* item ParFacts.{} *)\nDefinition {} : {} := {}.\n", name, name, ty, v));
            rep.push(format!("{{\"item\":\"ParFacts.{}\",\"file\":\"{}\",\"ok\":true}}", name, FILE));
        }
        Err(e) => {
            out.push_str(&format!("(* item ParFacts.{} NOT RECOGNISED: {} *)\n", name, e.replace("*)", "* )")));
            rep.push(format!(
                "{{\"item\":\"ParFacts.{}\",\"file\":\"{}\",\"ok\":false,\"error\":\"{}\"}}",
                name,
                FILE,
                e.replace('\\', "\\\\").replace('"', "'")
            ));
        }
    };

    let src = std::fs::read_to_string(repo.join(FILE));
    let file: R<syn::File> = match src {
        Ok(s) => syn::parse_file(&s).map_err(|e| format!("parse error: {}", e)),
        Err(e) => Err(format!("cannot read {}: {}", FILE, e)),
    };
    match &file {
        Err(e) => {
            for (n, t) in [
                ("rebuild_loop_exit_condition", "loop_exit"),
                ("rebuild_loop_order", "list rebuild_step"),
                ("rebuild_break_flags", "list change_flag"),
                ("rebuild_guard_run_rules", "rebuild_guard"),
                ("rebuild_guard_flush", "rebuild_guard"),
            ] {
                emit(n, t, Err(e.clone()), &mut out);
            }
        }
        Ok(file) => {
            match loop_site(file) {
                Ok(site) => {
                    let order = loop_order(site.body);
                    let flags = final_break_cond(site.body).and_then(|c| break_flags(site.body, c));
                    emit("rebuild_loop_exit_condition", "loop_exit", site.exit, &mut out);
                    emit("rebuild_loop_order", "list rebuild_step", order, &mut out);
                    emit("rebuild_break_flags", "list change_flag", flags, &mut out);
                }
                Err(e) => {
                    emit("rebuild_loop_exit_condition", "loop_exit", Err(e.clone()), &mut out);
                    emit("rebuild_loop_order", "list rebuild_step", Err(e.clone()), &mut out);
                    emit("rebuild_break_flags", "list change_flag", Err(e), &mut out);
                }
            }
            let rr = find_fn(file, "EGraph", &|f| f.sig.ident == "run_rules_inner")
                .ok_or_else(|| "fn run_rules_inner not found".to_string())
                .and_then(|f| guard_of(&f.block.stmts, true));
            emit("rebuild_guard_run_rules", "rebuild_guard", rr, &mut out);
            let fl = find_fn(file, "EGraph", &|f| calls_of_block(&f.block).names.iter().any(|n| n == "merge_all"))
                .ok_or_else(|| "fn calling merge_all not found".to_string())
                .and_then(|f| guard_of(&f.block.stmts, false));
            emit("rebuild_guard_flush", "rebuild_guard", fl, &mut out);
        }
    }
    (out, rep)
}
