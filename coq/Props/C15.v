(** C15 — Printing and re-parsing a program is the identity, at every stage.
    This file only pins statements and prints their assumptions.

    Text = list of Unicode scalar values.  [fmt_f64] / [parse_f64] stand for Rust's
    `f64::to_string` / `str::parse::<f64>`; the three hypotheses about them are tested on the real
    functions by harness/src/bin/h_syntax (float_hypothesis) and named in the trusted base. *)
From Coq Require Import List NArith ZArith Bool String.
Import ListNotations.
Require Import Verif.Base.Cases Verif.gen.SyntaxFacts Verif.Syntax.Sexp Verif.Syntax.SexpProofs Verif.Syntax.Ast Verif.Syntax.AstProofs
               Verif.Syntax.Tables Verif.Syntax.CmdProofs.
Local Open Scope N_scope.

(** the escape lemma at the heart: lexing the escaped form of ANY sequence of characters
    (quotes, backslashes, newlines, any code point) gives it back *)
Theorem c15_string_escape_roundtrip : forall (s rest : str),
  lex_string false (escape s ++ c_quote :: rest) = POk (s, rest).
Proof. exact lex_string_escape. Qed.
Print Assumptions c15_string_escape_roundtrip.

(** i64: every value in range prints to a text that `parse::<i64>` maps back to it *)
Theorem c15_int_roundtrip : forall z, in_i64 z = true -> parse_i64 (print_int z) = Some z.
Proof. exact parse_print_int. Qed.
Print Assumptions c15_int_roundtrip.

(** every literal the lexer can produce (Int in the i64 range, Bool, String of any characters,
    NaN, +-inf, finite floats relative to the oracle) prints to a text that reads back as itself *)
Theorem c15_lit_roundtrip :
  forall (fmt_f64 : Z -> str) (parse_f64 : str -> option fl),
    (forall x, finite_bits x -> numchars (fmt_f64 x)) ->
    (forall x, finite_bits x -> fmt_f64 x <> []) ->
    (forall x, finite_bits x -> parse_f64 (print_float fmt_f64 (FFin x)) = Some (FFin x)) ->
    forall l, wf_lit l -> read_sexp parse_f64 (print_lit fmt_f64 l) = POk (SLit l, []).
Proof. exact lit_roundtrip. Qed.
Print Assumptions c15_lit_roundtrip.

(** ALL s-expressions: a well-formed tree prints to a text that reads back as the same tree *)
Theorem c15_sexp_roundtrip :
  forall (fmt_f64 : Z -> str) (parse_f64 : str -> option fl),
    (forall x, finite_bits x -> numchars (fmt_f64 x)) ->
    (forall x, finite_bits x -> fmt_f64 x <> []) ->
    (forall x, finite_bits x -> parse_f64 (print_float fmt_f64 (FFin x)) = Some (FFin x)) ->
    forall s, wf_sexp parse_f64 s -> read_sexp parse_f64 (print_sexp fmt_f64 s) = POk (s, []).
Proof. exact sexp_roundtrip. Qed.
Print Assumptions c15_sexp_roundtrip.

(** ... and under ANY layout (blanks of any kind between items, before the closing parenthesis),
    followed by anything that starts with a delimiter: what the `Display` impls emit *)
Theorem c15_layout_roundtrip :
  forall (fmt_f64 : Z -> str) (parse_f64 : str -> option fl),
    (forall x, finite_bits x -> numchars (fmt_f64 x)) ->
    (forall x, finite_bits x -> fmt_f64 x <> []) ->
    (forall x, finite_bits x -> parse_f64 (print_float fmt_f64 (FFin x)) = Some (FFin x)) ->
    forall l rest, wf_l parse_f64 l -> follow_ok rest ->
      read_sexp parse_f64 (text fmt_f64 l ++ rest) = POk (strip l, skip_ws false rest).
Proof. exact read_sexp_layout. Qed.
Print Assumptions c15_layout_roundtrip.

(** the reader never exhausts the fuel it supplies itself: its result is a tree or a parse error *)
Theorem c15_reader_total : forall (parse_f64 : str -> option fl) s, read_sexp parse_f64 s <> PFuel.
Proof. exact read_sexp_total. Qed.
Print Assumptions c15_reader_total.

(** [wf_atom] is not vacuous: every atom the lexer itself produces satisfies it *)
Theorem c15_lexer_atoms_wf : forall (parse_f64 : str -> option fl) s x r a,
  next_token s = POk (TOther x, r) -> classify parse_f64 x = SAtom a -> wf_atom parse_f64 a.
Proof. exact lexer_atoms_wf. Qed.
Print Assumptions c15_lexer_atoms_wf.

(** expressions, facts, actions: print (exact `Display` text) then parse = identity, parser state
    (wildcard counter) unchanged; [chk] = ensure_no_reserved_symbols *)
Theorem c15_expr_roundtrip :
  forall (fmt_f64 : Z -> str) (parse_f64 : str -> option fl),
    (forall x, finite_bits x -> numchars (fmt_f64 x)) ->
    (forall x, finite_bits x -> fmt_f64 x <> []) ->
    (forall x, finite_bits x -> parse_f64 (print_float fmt_f64 (FFin x)) = Some (FFin x)) ->
    forall chk e n, wf_expr parse_f64 chk e ->
      parse_expr_str parse_f64 chk (print_expr fmt_f64 e) n = POk (e, n).
Proof. exact expr_roundtrip. Qed.
Print Assumptions c15_expr_roundtrip.

Theorem c15_fact_roundtrip :
  forall (fmt_f64 : Z -> str) (parse_f64 : str -> option fl),
    (forall x, finite_bits x -> numchars (fmt_f64 x)) ->
    (forall x, finite_bits x -> fmt_f64 x <> []) ->
    (forall x, finite_bits x -> parse_f64 (print_float fmt_f64 (FFin x)) = Some (FFin x)) ->
    (forall s x, parse_f64 s = Some (FFin x) -> has_digit s = true) ->
    forall chk f n, wf_fact parse_f64 chk f ->
      parse_fact_str parse_f64 chk (print_fact fmt_f64 f) n = POk (f, n).
Proof. exact fact_roundtrip. Qed.
Print Assumptions c15_fact_roundtrip.

(** includes `(panic msg)` for EVERY message (after repo fix 0357906 the message is printed as a
    string literal; before it, this theorem was false for messages with a quote or a backslash) *)
Theorem c15_action_roundtrip :
  forall (fmt_f64 : Z -> str) (parse_f64 : str -> option fl),
    (forall x, finite_bits x -> numchars (fmt_f64 x)) ->
    (forall x, finite_bits x -> fmt_f64 x <> []) ->
    (forall x, finite_bits x -> parse_f64 (print_float fmt_f64 (FFin x)) = Some (FFin x)) ->
    (forall s x, parse_f64 s = Some (FFin x) -> has_digit s = true) ->
    forall chk a n, wf_action parse_f64 chk a ->
      parse_action_str parse_f64 chk (print_action fmt_f64 a) n = POk (a, n).
Proof. exact action_roundtrip. Qed.
Print Assumptions c15_action_roundtrip.

(** schedules: re-parsing the printed schedule gives [rewrap s] (bodies of saturate / repeat
    wrapped in one more `seq`), NOT s: known finding C15-schedule-reparse-adds-seq *)
Theorem c15_schedule_reparse :
  forall (fmt_f64 : Z -> str) (parse_f64 : str -> option fl),
    (forall x, finite_bits x -> numchars (fmt_f64 x)) ->
    (forall x, finite_bits x -> fmt_f64 x <> []) ->
    (forall x, finite_bits x -> parse_f64 (print_float fmt_f64 (FFin x)) = Some (FFin x)) ->
    (forall s x, parse_f64 s = Some (FFin x) -> has_digit s = true) ->
    forall chk s n, wf_sched parse_f64 chk s ->
      parse_sched_str parse_f64 chk (print_sched fmt_f64 s) n = POk (rewrap s, n).
Proof. exact sched_reparse. Qed.
Print Assumptions c15_schedule_reparse.

Theorem c15_schedule_roundtrip_refuted : exists s, rewrap s <> s.
Proof. exists (SSaturate (SRun [] None)). discriminate. Qed.

(** the difference disappears when singleton sequences are flattened (it is semantically inert) *)
Theorem c15_schedule_roundtrip_partial : forall s, flat (rewrap s) = flat s.
Proof. exact flat_rewrap. Qed.
Print Assumptions c15_schedule_roundtrip_partial.

(** * Tier A: the lexer / printer / keyword tables regenerated from the Rust source
    (gen/SyntaxFacts.v, rebuilt on every run from egglog-ast/src/generic_ast_helpers.rs and
    src/ast/parse.rs) are the tables the model uses. *)

(** the string-escape table of `Display for Literal` and the `(in_escape, c)` table of the lexer *)
Theorem c15_escape_tables_regenerated :
  (forall s, escape s = List.flat_map (fun c => match assoc printer_escape_table c with Some t => t | None => [c] end) s)
  /\ (forall c, unescape c = assoc lexer_unescape_table c)
  /\ c_quote = lexer_string_quote /\ c_bs = lexer_escape_intro /\ c_quote = printer_string_quote
  /\ lexer_paren_tokens = [(c_lp, true); (c_rp, false)]
  /\ (forall c, is_delim c = is_ws c || existsb (N.eqb c) lexer_other_delims)
  /\ (forall fmt s, print_lit fmt (LStr s) = gen_print_string s)
  /\ (forall fmt, print_lit fmt LUnit = printer_unit_text) /\ k_dot0 = printer_float_int_suffix.
Proof.
  split; [exact escape_gen|]. split; [exact unescape_gen|].
  destruct lexer_chars_gen as (A & B & C & D & _).
  repeat (split; [assumption|]). split; [exact is_delim_gen|]. split; [exact print_string_gen|].
  split; [intro fmt; apply (print_misc_gen fmt) | apply (print_misc_gen (fun _ => []))].
Qed.
Print Assumptions c15_escape_tables_regenerated.

(** the lexer reads back the text the REGENERATED printer table emits, for every string; and the two
    regenerated tables are compatible as data *)
Theorem c15_string_roundtrip_regenerated : forall s rest,
  lex_string false (gen_escape s ++ lexer_string_quote :: rest) = POk (s, rest).
Proof. exact gen_string_roundtrip. Qed.
Print Assumptions c15_string_roundtrip_regenerated.

Theorem c15_escape_tables_compatible : escape_tables_compatible = true.
Proof. exact escape_tables_ok. Qed.

(** the order in which a token is classified (true, false, i64, NaN, inf, -inf, finite f64, symbol) *)
Theorem c15_classify_order_regenerated : forall parse_f64 s,
  classify parse_f64 s = classify_by parse_f64 lexer_classify_order s.
Proof. exact classify_gen. Qed.
Print Assumptions c15_classify_order_regenerated.

(** keyword tables: the heads of parse_command / parse_action / parse_schedule / parse_fact, in
    source order, and what the `_` arm does *)
Theorem c15_keyword_tables_regenerated :
  List.map fst command_heads = hand_command_heads /\ command_fallback = FBAction
  /\ List.map fst action_heads = hand_action_heads /\ action_fallback = FBExpr
  /\ List.map fst schedule_heads = hand_schedule_heads /\ schedule_fallback = FBError
  /\ List.map fst fact_heads = [k_eq] /\ fact_fallback = FBExpr.
Proof. exact heads_gen. Qed.

(** ... and the model parser dispatches exactly by them: a head outside the table falls through *)
Theorem c15_command_dispatch : forall chk h tail,
  is_head command_heads h = false ->
  parse_command chk (SList (SAtom h :: tail)) =
  bindM (parse_action chk (SList (SAtom h :: tail))) (fun a => ret (CAction a)).
Proof. exact parse_command_fallback. Qed.
Print Assumptions c15_command_dispatch.

Theorem c15_action_dispatch : forall chk h tail,
  is_head action_heads h = false ->
  parse_action chk (SList (SAtom h :: tail)) =
  bindM (parse_expr chk (SList (SAtom h :: tail))) (fun e => ret (AExpr e)).
Proof. exact parse_action_fallback. Qed.

Theorem c15_schedule_dispatch : forall chk h tail n,
  is_head schedule_heads h = false -> parse_sched chk (SList (SAtom h :: tail)) n = PErr EGrammar.
Proof. exact parse_sched_fallback. Qed.

(** ... and a keyword arm rejects every tail length that none of the regenerated slice patterns of its
    `match tail` accepts *)
Theorem c15_command_arity : forall chk h ar tail n,
  In (h, Some ar) command_heads -> arity_ok ar (List.length tail) = false ->
  parse_command chk (SList (SAtom h :: tail)) n = PErr EGrammar.
Proof. exact command_arity. Qed.
Print Assumptions c15_command_arity.

Theorem c15_action_arity : forall chk h ar tail n,
  In (h, Some ar) action_heads -> arity_ok ar (List.length tail) = false ->
  parse_action chk (SList (SAtom h :: tail)) n = PErr EGrammar.
Proof. exact action_arity. Qed.

Theorem c15_schedule_arity : forall chk h ar tail n,
  In (h, Some ar) schedule_heads -> arity_ok ar (List.length tail) = false ->
  parse_sched chk (SList (SAtom h :: tail)) n = PErr EGrammar.
Proof. exact schedule_arity. Qed.

(** * command level: `Parser::get_program_from_string(c.to_string())` = [c] up to the parser's normal
    form [norm_command] (identity except `run-schedule`, whose schedules are wrapped in a Sequence and
    re-parse to [rewrap]: K7), for every command satisfying the well-formedness predicate
    [wf_command] (symbols are lexer-producible symbols, numbers fit an i64, option values do not
    start with a colon, the head of a top-level call is not in the REGENERATED command-keyword table;
    forms not yet covered are excluded by [wf_command] = False, see lib/propcfg/C15.py) *)
Theorem c15_command_roundtrip :
  forall (fmt_f64 : Z -> str) (parse_f64 : str -> option fl),
    (forall x, finite_bits x -> numchars (fmt_f64 x)) ->
    (forall x, finite_bits x -> fmt_f64 x <> []) ->
    (forall x, finite_bits x -> parse_f64 (print_float fmt_f64 (FFin x)) = Some (FFin x)) ->
    (forall s x, parse_f64 s = Some (FFin x) -> has_digit s = true) ->
    forall chk c n, wf_command parse_f64 chk c ->
      parse_program parse_f64 chk (print_command fmt_f64 c) n = POk ([norm_command c], n).
Proof. exact command_roundtrip. Qed.
Print Assumptions c15_command_roundtrip.

Theorem c15_command_norm_identity : forall c, no_sched c -> norm_command c = c.
Proof. exact norm_command_id. Qed.

Theorem c15_command_norm_sched : forall s, flat (SSeq [rewrap s]) = flat s.
Proof. exact norm_command_sched. Qed.

(** non-vacuity: concrete well-formed inputs, and a concrete run of the model *)
Example c15_wf_example : forall parse_f64,
  (forall s x, parse_f64 s = Some (FFin x) -> has_digit s = true) ->
  wf_action parse_f64 true
    (AUnion (ECall (s_ "g") [EVar (s_ "x"); ELit (LInt (-9223372036854775808))]) (ELit (LStr (s_ "a\b")))).
Proof.
  intros p H.
  assert (forall k, tok_ok k -> has_digit k = false -> str_eqb k k_true = false -> str_eqb k k_false = false ->
                    str_eqb k k_NaN = false -> str_eqb k k_inf = false -> str_eqb k k_ninf = false -> wf_atom p k) as W
      by (intros; apply word_atom; assumption).
  assert (wf_atom p (s_ "g")) by (apply W; [repeat split; try discriminate | reflexivity ..]).
  assert (wf_atom p (s_ "x")) by (apply W; [repeat split; try discriminate | reflexivity ..]).
  simpl.
  split; [split; [assumption | split; [split; [assumption | split; [discriminate | intros _; reflexivity]]
                                      | split; [right; reflexivity | exact I]]]
         | right; exact I].
Qed.

Example c15_example :
  check_case (KCmd ([], []) true
                (CRule (mkRule [APanic [34; 92]] [FEq (EVar (s_ "x")) (ELit (LInt 1))] [34] (s_ "r") Naive true false))
                (s_ "(rule ((= x 1))" ++ [10] ++ s_ "      ((panic " ++ [34; 92; 34; 92; 92; 34] ++ s_ "))" ++ [10]
                   ++ s_ "        :ruleset r :name " ++ [34; 92; 34; 34] ++ s_ " :naive :no-decomp)")
                (POk [CRule (mkRule [APanic [34; 92]] [FEq (EVar (s_ "x")) (ELit (LInt 1))] [34] (s_ "r") Naive true false)]))
  = true.
Proof. vm_compute. reflexivity. Qed.

Example c15_wf_command_example : forall parse_f64,
  (forall s x, parse_f64 s = Some (FFin x) -> has_digit s = true) ->
  wf_command parse_f64 true
    (CFail (CAction (AUnion (ECall (s_ "g") [EVar (s_ "x"); ELit (LInt (-9223372036854775808))]) (ELit (LStr (s_ "a\b"))))))
  /\ wf_command parse_f64 true (CPush 3)
  /\ wf_command parse_f64 true (CAction (AExpr (ECall (s_ "g") [ELit (LInt 1)]))).
Proof.
  intros p H. split; [|split].
  - split; [exact (c15_wf_example p H) | exact I].
  - reflexivity.
  - assert (wf_atom p (s_ "g")) as Hg
      by (apply (word_atom p H); [repeat split; try discriminate | reflexivity ..]).
    split; [|reflexivity]. split.
    + simpl. split; [exact Hg|]. split; [right; reflexivity | exact I].
    + exists (s_ "g"), [ELit (LInt 1)]. split; [reflexivity|].
      unfold action_kw. intros [E|[E|[E|[E|[E|E]]]]]; discriminate E.
Qed.
