(** C10 — Schedules mean what they say: run, repeat, saturate, seq, until.
    This file only pins statements and prints their assumptions.

    [run_schedule], [run_rules], [RunReport_default/union/singleton], [collect_rule_ids] are
    regenerated from /repo/src/lib.rs and /repo/egglog-reports/src/lib.rs on every run
    (gen/SchedFns.v).  [exec step holds fuel s sched = run_schedule step holds fuel s sched].
    Every theorem quantifies over the engine: [step] is one iteration of a ruleset
    ([EGraph::step_rules]) and [holds] the [:until] test ([check_facts]), both arbitrary. *)
From Coq Require Import List Arith PeanoNat Bool.
Import ListNotations.
Require Import Verif.Egg.Model Verif.Egg.Rules.
Require Import Verif.Base.Res Verif.Sched.Syntax Verif.gen.SchedFns Verif.Sched.Algebra Verif.Sched.Laws.
Require Import Verif.gen.SchedRunFacts Verif.Sched.EggStep Verif.Sched.EggLaws.

(** [RunReport::union] is a monoid with unit [RunReport::default]; [updated] is the disjunction,
    [can_stop] the conjunction, [iterations] the concatenation; [singleton] sets
    [can_stop = not updated]. *)
Theorem c10_report_algebra : forall I : Type,
  (forall a : RunReport I, RunReport_union RunReport_default a = a)
  /\ (forall a : RunReport I, RunReport_union a RunReport_default = a)
  /\ (forall a b c : RunReport I,
        RunReport_union (RunReport_union a b) c = RunReport_union a (RunReport_union b c))
  /\ (forall a b : RunReport I, updated (RunReport_union a b) = updated a || updated b)
  /\ (forall a b : RunReport I, can_stop (RunReport_union a b) = can_stop a && can_stop b)
  /\ (forall a b : RunReport I, iterations (RunReport_union a b) = iterations a ++ iterations b)
  /\ updated (@RunReport_default I) = false /\ can_stop (@RunReport_default I) = true
  /\ iterations (@RunReport_default I) = []
  /\ (forall (changed : I -> bool) it,
        updated (RunReport_singleton changed it) = changed it
        /\ can_stop (RunReport_singleton changed it) = negb (changed it)
        /\ iterations (RunReport_singleton changed it) = [it]).
Proof. exact @report_algebra. Qed.
Print Assumptions c10_report_algebra.

(** [(run R n)] parses to [Repeat n (Run R)]; it is [iterate]: at most n single iterations of R,
    ending right after the first one that reports no change.  Holds for every engine whose leaf
    reports have [can_stop = not updated] (every [step_rules], see [c10_step_rules_singleton]). *)
Theorem c10_run_n : forall (St R F I : Type) (step : St -> R -> St * RunReport I)
    (holds : St -> F -> bool), singleton_like step ->
  forall fuel rs n s,
    exec step holds fuel s (Repeat n (Run (mkConfig rs None)))
    = Ok (iterate step holds rs None n s RunReport_default).
Proof. exact @run_n. Qed.
Print Assumptions c10_run_n.

Theorem c10_step_rules_singleton : forall (St R I : Type) (backend_run : St -> R -> St * I)
    (changed : I -> bool), singleton_like (step_of backend_run changed).
Proof. exact @step_of_singleton_like. Qed.
Print Assumptions c10_step_rules_singleton.

(** [:until]: the facts are tested BEFORE each iteration and the run ends without stepping as soon
    as they hold ([iterate] with [Some f]); if they hold at the start nothing runs at all, for
    every engine; if they do not hold, a single [(run R :until f)] leaf is exactly one step. *)
Theorem c10_until : forall (St R F I : Type) (step : St -> R -> St * RunReport I)
    (holds : St -> F -> bool),
  (singleton_like step -> forall fuel rs f n s,
     exec step holds fuel s (Repeat n (Run (mkConfig rs (Some f))))
     = Ok (iterate step holds rs (Some f) n s RunReport_default))
  /\ (forall fuel rs f n s, holds s f = true ->
        exec step holds fuel s (Repeat n (Run (mkConfig rs (Some f)))) = Ok (s, RunReport_default))
  /\ (forall fuel rs f s, holds s f = false ->
        exec step holds fuel s (Run (mkConfig rs (Some f))) = Ok (step s rs)).
Proof.
  intros. split; [|split].
  - intros; apply until_spec; auto.
  - intros; apply until_holds_now; auto.
  - intros; apply until_not_yet; auto.
Qed.
Print Assumptions c10_until.

(** [repeat a (repeat b s) = repeat (a*b) s] when none of the a*b executions allows a stop. *)
Theorem c10_repeat_mul : forall (St R F I : Type) (step : St -> R -> St * RunReport I)
    (holds : St -> F -> bool) fuel sched a b s,
  no_early_stop step holds fuel sched (a * b) s ->
  exec step holds fuel s (Repeat a (Repeat b sched)) = exec step holds fuel s (Repeat (a * b) sched).
Proof. exact @repeat_mul. Qed.
Print Assumptions c10_repeat_mul.

Theorem c10_repeat_one : forall (St R F I : Type) (step : St -> R -> St * RunReport I)
    (holds : St -> F -> bool) fuel sched s,
  exec step holds fuel s (Repeat 1 sched) = exec step holds fuel s sched.
Proof. exact @repeat_one. Qed.
Print Assumptions c10_repeat_one.

(** seq is associative (nested sequences flatten, reports included) and has the empty sequence
    as unit. *)
Theorem c10_seq_assoc : forall (St R F I : Type) (step : St -> R -> St * RunReport I)
    (holds : St -> F -> bool) fuel s,
  (forall a b c,
     exec step holds fuel s (Sequence [a; Sequence [b; c]]) = exec step holds fuel s (Sequence [a; b; c])
     /\ exec step holds fuel s (Sequence [Sequence [a; b]; c]) = exec step holds fuel s (Sequence [a; b; c]))
  /\ (forall l1 l2 l3,
     exec step holds fuel s (Sequence (l1 ++ Sequence l2 :: l3)) = exec step holds fuel s (Sequence (l1 ++ l2 ++ l3))).
Proof. intros. split; intros; [apply seq_assoc|apply seq_flatten]. Qed.
Print Assumptions c10_seq_assoc.

Theorem c10_seq_unit : forall (St R F I : Type) (step : St -> R -> St * RunReport I)
    (holds : St -> F -> bool) fuel s x,
  exec step holds fuel s (Sequence []) = Ok (s, RunReport_default)
  /\ exec step holds fuel s (Sequence [x]) = exec step holds fuel s x.
Proof. exact @seq_unit. Qed.
Print Assumptions c10_seq_unit.

(** saturate: for EVERY engine, if it returns then its last execution of the body reported no
    update; if moreover iterations that report no update leave the state alone ([quiescent], a
    hypothesis on leaves only, checked on the real engine by the harness), then the returned state
    is a fixpoint of the body: executing the body once more from it reports no update and returns
    the same state. *)
Theorem c10_saturate_fix : forall (St R F I : Type) (step : St -> R -> St * RunReport I)
    (holds : St -> F -> bool) fuel sched s s' r,
  exec step holds fuel s (Saturate sched) = Ok (s', r) ->
  (exists s0 r0, exec step holds fuel s0 sched = Ok (s', r0) /\ updated r0 = false)
  /\ (quiescent step ->
      exists r', exec step holds fuel s' sched = Ok (s', r') /\ updated r' = false).
Proof.
  intros. split.
  - eapply saturate_last; eauto.
  - intros Hq. eapply saturate_fix; eauto.
Qed.
Print Assumptions c10_saturate_fix.

(** the lifting used above: leaf quiescence implies schedule quiescence *)
Theorem c10_quiescent_lift : forall (St R F I : Type) (step : St -> R -> St * RunReport I)
    (holds : St -> F -> bool), quiescent step ->
  forall fuel sched s s' r,
    exec step holds fuel s sched = Ok (s', r) -> updated r = false -> s' = s.
Proof. exact @exec_quiescent. Qed.
Print Assumptions c10_quiescent_lift.

(** saturate is idempotent: running it again from its result changes nothing and reports no
    update; [seq (saturate s) (saturate s)] ends in the same state as [saturate s]. *)
Theorem c10_saturate_idem : forall (St R F I : Type) (step : St -> R -> St * RunReport I)
    (holds : St -> F -> bool), quiescent step ->
  forall fuel sched s s' r,
  exec step holds fuel s (Saturate sched) = Ok (s', r) ->
  exists r', exec step holds fuel s' (Saturate sched) = Ok (s', r') /\ updated r' = false
     /\ exec step holds fuel s (Sequence [Saturate sched; Saturate sched]) = Ok (s', RunReport_union r r').
Proof. exact @saturate_idem. Qed.
Print Assumptions c10_saturate_idem.

(** combined rulesets: [collect_rule_ids] returns the members found in the table it is given at
    run time; for a combination of plain rulesets, the concatenation of their current rules. *)
Theorem c10_combined_current : forall fuel m c subs ids,
  assoc_get m c = Some (Combined subs) ->
  (forall x, In x subs -> exists l, assoc_get m x = Some (Rules l)) ->
  collect_rule_ids fuel c m [] = Ok ids ->
  ids = concat (map (fun x => match assoc_get m x with Some (Rules l) => l | _ => [] end) subs).
Proof. exact combined_current. Qed.
Print Assumptions c10_combined_current.

Theorem c10_collect_members : forall fuel name m acc ids,
  collect_rule_ids fuel name m acc = Ok ids -> exists ms, members m name ms /\ ids = acc ++ ms.
Proof. exact collect_sound. Qed.
Print Assumptions c10_collect_members.

(** fuel only bounds the saturate loops: a run that returns returns the same under more fuel *)
Theorem c10_fuel_mono : forall (St R F I : Type) (step : St -> R -> St * RunReport I)
    (holds : St -> F -> bool) fuel fuel', fuel <= fuel' ->
  forall sched s res, exec step holds fuel s sched = Ok res -> exec step holds fuel' s sched = Ok res.
Proof. exact @fuel_mono. Qed.
Print Assumptions c10_fuel_mono.

(** non-vacuity.  A toy engine: the state counts up to 3; ruleset 0 increments while below 3. *)
Definition toy_step (s : nat) (r : nat) : nat * RunReport (nat * bool) :=
  step_of (fun s r => if (Nat.eqb r 0 && Nat.ltb s 3)%bool then (S s, (r, true)) else (s, (r, false)))
          (@snd nat bool) s r.
Definition toy_holds (s : nat) (f : nat) : bool := Nat.leb f s.

Example c10_example_run_stops_early :
  exec toy_step toy_holds 10 0 (Repeat 7 (Run (mkConfig 0 None)))
  = Ok (3, mkReport [(0, true); (0, true); (0, true); (0, false)] true false).
Proof. vm_compute. reflexivity. Qed.

Example c10_example_until :
  exec toy_step toy_holds 10 0 (Repeat 7 (Run (mkConfig 0 (Some 2))))
  = Ok (2, mkReport [(0, true); (0, true)] true false).
Proof. vm_compute. reflexivity. Qed.

Example c10_example_saturate :
  exec toy_step toy_holds 10 1 (Saturate (Sequence [Run (mkConfig 1 None); Run (mkConfig 0 None)]))
  = Ok (3, mkReport [(1, false); (0, true); (1, false); (0, true); (1, false); (0, false)] true false)
  /\ quiescent toy_step.
Proof.
  split; [vm_compute; reflexivity|].
  intros s r. unfold toy_step, step_of. destruct (Nat.eqb r 0 && Nat.ltb s 3)%bool; simpl; auto; discriminate.
Qed.

Example c10_example_no_early_stop :
  no_early_stop toy_step toy_holds 10 (Run (mkConfig 0 None)) (1 * 3) 0
  /\ exec toy_step toy_holds 10 0 (Repeat 1 (Repeat 3 (Run (mkConfig 0 None))))
     = Ok (3, mkReport [(0, true); (0, true); (0, true)] true false).
Proof. split; [|vm_compute; reflexivity]. simpl. repeat (do 2 eexists; split; [vm_compute; reflexivity|split; [reflexivity|]]). exact Logic.I. Qed.

(** the quiescence hypothesis of [c10_saturate_fix]/[c10_saturate_idem] cannot be dropped: an
    engine whose no-update iterations still move the state *)
Example c10_saturate_fix_needs_quiescence :
  let step := step_of (fun (s r : nat) => (S s, Nat.even s)) (fun b : bool => b) in
  exec step toy_holds 10 0 (Saturate (Run (mkConfig 0 None))) = Ok (2, mkReport [true; false] true false)
  /\ exec step toy_holds 10 2 (Run (mkConfig 0 None)) = Ok (3, mkReport [true] true false).
Proof. vm_compute. split; reflexivity. Qed.

(** the no-early-stop hypothesis of [c10_repeat_mul] cannot be dropped either (for an arbitrary
    engine): the nested form restarts after an inner early stop *)
Example c10_repeat_mul_needs_no_early_stop :
  let step := step_of (fun (s r : nat) => (S s, negb (Nat.eqb s 1))) (fun b : bool => b) in
  exec step toy_holds 10 0 (Repeat 2 (Repeat 2 (Run (mkConfig 0 None)))) = Ok (4, mkReport [true; false; true; true] true false)
  /\ exec step toy_holds 10 0 (Repeat 4 (Run (mkConfig 0 None))) = Ok (2, mkReport [true; false] true false).
Proof. vm_compute. split; reflexivity. Qed.

(** a rule added to a sub-ruleset after the combination is run by the combined ruleset *)
Example c10_example_combined_after_add :
  let m := [(1, Rules [10; 11]); (2, Rules [20]); (3, Combined [1; 2])] in
  collect_rule_ids 5 3 m [] = Ok [10; 11; 20]
  /\ collect_rule_ids 5 3 (add_rule m 1 12) [] = Ok [10; 11; 12; 20].
Proof. vm_compute. split; reflexivity. Qed.

(** ** Session 4: surface syntax, the [changed] flag, and the concrete step over the Egg model.

    [desugar_run], [desugar_*] are regenerated from src/ast/parse.rs (parse_command "run" /
    "run-schedule", parse_schedule); [table_merge_changed], [merge_callback_changed],
    [iteration_changed], [rebuild_needed] from core-relations/src/free_join/mod.rs, egglog-bridge and
    egglog-reports (gen/SchedRunFacts.v). *)

(** the command [(run R n :until f)] IS [iterate]: at most n iterations of R, the facts tested
    before each one, ending after the first iteration that reports no change *)
Theorem c10_parse_run : forall (St R F I : Type) (step : St -> R -> St * RunReport I)
    (holds : St -> F -> bool), singleton_like step ->
  forall fuel (rs : R) n (u : option F) s,
    exec step holds fuel s (desugar_run rs n u) = Ok (iterate step holds rs u n s RunReport_default).
Proof. exact @parse_run. Qed.
Print Assumptions c10_parse_run.

(** what the parser builds for the schedule forms: [(saturate s..)] and [(repeat n s..)] wrap
    their bodies in ONE sequence (so the laws above apply to them as stated) *)
Theorem c10_parse_shapes : forall (R F : Type) (rs : R) (u : option F) n (tail : list (schedule R F)),
  desugar_atom rs = Run (mkConfig rs (@None F))
  /\ desugar_run_leaf rs u = Run (mkConfig rs u)
  /\ desugar_seq tail = Sequence tail
  /\ desugar_run_schedule tail = Sequence tail
  /\ desugar_repeat n tail = Repeat n (Sequence tail)
  /\ desugar_saturate tail = Saturate (Sequence tail).
Proof. exact @parse_shapes. Qed.
Print Assumptions c10_parse_shapes.

(** which results of a table merge feed [RunReport.updated]: rows ADDED and merge callbacks that
    CHANGED a stored value or subsume flag — never rows removed; the rebuild that follows an
    iteration does not feed it either *)
Theorem c10_flag_inputs :
  (forall added removed esc, table_merge_changed added removed esc = (added || esc)%bool)
  /\ (forall (V W : Type) (vneq : V -> V -> bool) (wneq : W -> W -> bool) rc ro sc so,
        merge_callback_changed vneq wneq rc ro sc so = (vneq rc ro || wneq sc so)%bool)
  /\ (forall c r, iteration_changed c r = c)
  /\ (forall a b, rebuild_needed a b = negb (Nat.eqb a b)).
Proof. exact flag_inputs. Qed.
Print Assumptions c10_flag_inputs.

(** the concrete step (one iteration of a ruleset of the shared rule interpreter, resolved at run
    time by [collect_rule_ids]) satisfies the hypothesis of [c10_run_n]/[c10_until], so
    [(run R n :until f)] over the Egg model is [iterate] of Egg iterations *)
Theorem c10_egg_step_singleton : forall p : prog, singleton_like (egg_step p).
Proof. exact egg_step_singleton. Qed.
Print Assumptions c10_egg_step_singleton.

Theorem c10_egg_run_n : forall (p : prog) fuel rs n u st,
  egg_exec p fuel st (desugar_run rs n u)
  = Ok (iterate (egg_step p) egg_holds rs u n st RunReport_default).
Proof. exact egg_run_n. Qed.
Print Assumptions c10_egg_run_n.

(** "updated iff the database changed" FAILS from right to left in the faithful model (and on the
    engine: replay in DESIGN 10.7 / harness counter egg_delete_only_iterations_unreported): an
    iteration that only removes rows reports [updated = false] *)
Theorem c10_updated_iff_changed_refuted : exists (p : prog) (st : dbst) (r : nat),
  updated (snd (egg_step p st r)) = false
  /\ tabs_size (fst (fst (egg_step p st r))) <> tabs_size (fst st)
  /\ snd (fst (egg_step p st r)) = None.
Proof.
  exists del_prog, del_state, 0. destruct delete_not_reported as (H1 & H2 & H3 & H4).
  split; [exact H1|]. split; [rewrite H2, H3; discriminate|exact H4].
Qed.
Print Assumptions c10_updated_iff_changed_refuted.
