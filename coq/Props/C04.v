(** C04 — The database is canonical and consistent after every command (invariant part over the
    Egg model; the lead adds the theorems about failing commands / containers / serialisation).
    This file only pins statements and prints their assumptions. *)
From Coq Require Import List Arith PeanoNat ZArith.
Import ListNotations.
Require Import Verif.Base.Res Verif.gen.UFSeq Verif.gen.MergeArms Verif.UF.Seq
  Verif.Egg.Model Verif.Egg.CmdOk Verif.Egg.CCDefs Verif.Egg.Rebuild Verif.Egg.CC.

(** After EVERY command history over constructor tables, when control returns:
    the union-find order invariant holds; every e-class id stored in any column of any row is in
    range and is the canonical representative of its class; every table holds at most one row per
    key; and congruent rows (keys equal modulo the union-find) have been merged. *)
Theorem c04_inv_reachable : forall n sg cs s,
  Forall (fun m => m = MUnionId) sg ->
  run sg (init n) cs = Ok s ->
  Inv (uf s) /\ length (wit s) = length (uf s) /\ length (tabs s) = n /\
  (forall f r i, In r (get_tab (tabs s) f) -> (In (VId i) (rargs r) \/ rret r = VId i) ->
     i < length (uf s) /\ par (uf s) i = i /\ rep (uf s) i = i) /\
  (forall f r, In r (get_tab (tabs s) f) -> exists i, rret r = VId i) /\
  (forall f, NoDup (map rargs (get_tab (tabs s) f))) /\
  (forall f r1 r2, In r1 (get_tab (tabs s) f) -> In r2 (get_tab (tabs s) f) ->
     map (canon (uf s)) (rargs r1) = map (canon (uf s)) (rargs r2) -> r1 = r2).
Proof. exact CC.c04_inv_reachable. Qed.
Print Assumptions c04_inv_reachable.

(** "Everything the engine has recorded as equal is already visible to the very next query":
    on a reachable state, plain lookups ([eval], which never consults the union-find) give exactly
    the evaluation modulo the union-find ([R]: any row whose canonicalised key matches). *)
Theorem c04_eval_is_eval_modulo_uf : forall n sg cs s t v,
  Forall (fun m => m = MUnionId) sg ->
  run sg (init n) cs = Ok s ->
  (eval s t = Some v <-> R (uf s) (tabs s) t v).
Proof. exact CC.c04_eval_is_eval_modulo_uf. Qed.
Print Assumptions c04_eval_is_eval_modulo_uf.

(** non-vacuity: the final tables of the chain example (f-table has 3 rows after 6 were inserted
    and merged; all ids are roots of the final union-find) *)
Example c04_example_tables :
  bind (run Ex.sg (init 4) Ex.cs1) (fun s => Ok (uf s, map (map (fun r => (rargs r, rret r))) (tabs s)))
  = Ok ([0; 1; 2; 3; 0; 1; 2; 3; 8],
        [[([], VId 0)]; [([], VId 0)];
         [([VId 0], VId 1); ([VId 1], VId 2); ([VId 2], VId 3)];
         [([], VId 8)]]).
Proof. vm_compute. reflexivity. Qed.

(* ================================================================== *)
(** * The invariant along every run of the rule interpreter ([Egg/Rules.v])

    [visited sg n ks s]: [s] is a state the program [ks] passes through — after one of its
    commands (up to the first error), or the state in which it ends, returned together with the
    error if there is one. *)
Require Import Verif.Egg.Rules Verif.Egg.RulesProofs.

(** the invariant, spelled out (this pins [c04_inv]) *)
Theorem c04_inv_unfold : forall n s, c04_inv n s <->
  (Inv (uf s) /\ length (wit s) = length (uf s) /\ length (tabs s) = n /\
   (forall f r i, In r (get_tab (tabs s) f) -> (In (VId i) (rargs r) \/ rret r = VId i) ->
      i < length (uf s) /\ par (uf s) i = i /\ rep (uf s) i = i) /\
   (forall f, NoDup (map rargs (get_tab (tabs s) f))) /\
   (forall f r1 r2, In r1 (get_tab (tabs s) f) -> In r2 (get_tab (tabs s) f) ->
      map (canon (uf s)) (rargs r1) = map (canon (uf s)) (rargs r2) -> r1 = r2)).
Proof. intros n s. reflexivity. Qed.
Print Assumptions c04_inv_unfold.

(** [visited], spelled out *)
Theorem c04_visited_unfold : forall sg n ks s, visited sg n ks s <->
  (In s (map fst (ptrace sg (init n, []) ks)) \/ s = fst (fst (pfinal sg (init n, []) ks))).
Proof. intros. reflexivity. Qed.
Print Assumptions c04_visited_unfold.

(** constructor fragment: the state after EVERY command of every such program (and at the error
    point) is canonical, functional and has no congruent rows *)
Theorem c04_rules_inv_reachable : forall n sg ks s,
  prog_ctor_okb n sg ks = true -> visited sg n ks s -> c04_inv n s.
Proof. exact RulesProofs.rules_inv_visited. Qed.
Print Assumptions c04_rules_inv_reachable.

(** EVERY program over EVERY signature — constructors, lattice functions (min/max/or/and),
    relations, :no-merge, sets, subsumption, deletion, panics, ungrounded actions, merge conflicts:
    every visited state, error or not, satisfies the invariant. No hypothesis. *)
Theorem c04_x_inv_reachable : forall n sg ks s, visited sg n ks s -> c04_inv n s.
Proof. exact RulesProofs.x_inv_visited. Qed.
Print Assumptions c04_x_inv_reachable.

(** ... and the model never reports its own error code 4 (fuel exhausted / panic): the rebuild
    loop terminates within [rebuild_fuel] on every signature, the union-find never panics *)
Theorem c04_x_no_model_error : forall n sg ks, snd (pfinal sg (init n, []) ks) <> Some 4.
Proof. exact RulesProofs.x_no_model_error. Qed.
Print Assumptions c04_x_no_model_error.

(** non-vacuity: a mixed-signature program (constructor, min-lattice function, relation; sets, a
    rule, a union merging two function rows through min, subsume, delete, panic) *)
Example c04_x_example :
  length (ptrace REx.sg2 (init 4, []) REx.ks2) = 10 /\
  snd (pfinal REx.sg2 (init 4, []) REx.ks2) = Some 1 /\
  REx.dump (fst (pfinal REx.sg2 (init 4, []) REx.ks2))
  = ([0; 0],
     [[([], VId 0, false)]; [];
      [([VId 0; VInt 1], VInt 0, true); ([VId 0; VInt 3], VInt 0, false); ([VId 0; VInt 9], VInt 0, false)];
      [([], VId 0, false)]]) /\
  nth 7 (map REx.dump (ptrace REx.sg2 (init 4, []) REx.ks2)) ([], [])
  = ([0; 0],
     [[([], VId 0, false)]; [([VId 0], VInt 3, false)];
      [([VId 0; VInt 1], VInt 0, false); ([VId 0; VInt 3], VInt 0, false); ([VId 0; VInt 9], VInt 0, false)];
      [([], VId 0, false)]]).
Proof. exact RulesProofs.rex_mixed. Qed.
