(** C17 (sequential half): proofs over the *translated* union-find (gen/UFSeq.v). *)
From Coq Require Import List Arith Lia PeanoNat Relations.
Import ListNotations.
Require Import Verif.Base.Res Verif.gen.UFSeq Verif.UF.Ops.

Definition par (p : list nat) (x : nat) : nat := nth x p x.
Definition Inv (p : list nat) : Prop := forall i, par p i <= i.

Inductive root_of (p : list nat) : nat -> nat -> Prop :=
| root_here x : par p x = x -> root_of p x x
| root_step x r : par p x <> x -> root_of p (par p x) r -> root_of p x r.

Lemma par_nth p x d : x < length p -> par p x = nth x p d.
Proof. intros. unfold par. apply nth_indep. auto. Qed.

Lemma par_oob p x : length p <= x -> par p x = x.
Proof. intros. unfold par. apply nth_overflow. auto. Qed.

Lemma par_set p i v x : i < length p ->
  par (set_nth p i v) x = if Nat.eqb x i then v else par p x.
Proof. intros; unfold par; apply nth_set_nth; auto. Qed.

Lemma root_total p : Inv p -> forall x, exists r, root_of p x r /\ r <= x.
Proof.
  intros HI x. induction x as [x IH] using lt_wf_ind.
  destruct (Nat.eq_dec (par p x) x) as [E|N].
  - exists x. split; [constructor; auto|lia].
  - pose proof (HI x). destruct (IH (par p x)) as [r [Hr Hle]]; [lia|].
    exists r. split; [apply root_step; auto|lia].
Qed.

Lemma root_unique p x r1 r2 : root_of p x r1 -> root_of p x r2 -> r1 = r2.
Proof.
  intros H1; revert r2; induction H1; intros r2 H2; inversion H2; subst; try congruence.
  apply IHroot_of; auto.
Qed.

Lemma root_is_root p x r : root_of p x r -> par p r = r.
Proof. induction 1; auto. Qed.

Lemma root_le p x r : Inv p -> root_of p x r -> r <= x.
Proof. intros HI H. induction H; auto. pose proof (HI x). lia. Qed.

Lemma root_of_root p r : par p r = r -> forall r', root_of p r r' -> r' = r.
Proof. intros H r' H'. inversion H'; subst; congruence. Qed.

Lemma root_idem p x r : root_of p x r -> root_of p r r.
Proof. intros H. constructor. eapply root_is_root; eauto. Qed.

(** roots only depend on [par] *)
Lemma root_ext p q : (forall x, par p x = par q x) -> forall x r, root_of p x r -> root_of q x r.
Proof.
  intros E x r H. induction H.
  - constructor. rewrite <- E. auto.
  - apply root_step; rewrite <- E; auto.
Qed.

Lemma Inv_ext p q : (forall x, par p x = par q x) -> Inv p -> Inv q.
Proof. intros E H i. rewrite <- E. apply H. Qed.

(* ------------------------------------------------------------------ *)
(** * reserve *)

Lemma fold_push_length (l : list nat) : forall p,
  length (fold_left (fun parents i => parents ++ [i]) l p) = length p + length l.
Proof.
  induction l as [|a l IH]; intros p; simpl; [lia|].
  rewrite IH, app_length. simpl. lia.
Qed.

Lemma fold_push_par n : forall p x, 
  par (fold_left (fun parents i => parents ++ [i]) (seq (length p) n) p) x = par p x.
Proof.
  induction n as [|n IH]; intros p x; simpl; auto.
  replace (S (length p)) with (length (p ++ [length p])) by (rewrite app_length; simpl; lia).
  rewrite IH. unfold par.
  destruct (Nat.lt_ge_cases x (length p)).
  - rewrite app_nth1; auto.
  - rewrite (nth_overflow p) by auto.
    destruct (Nat.eq_dec x (length p)) as [->|].
    + rewrite app_nth2 by lia. rewrite Nat.sub_diag. reflexivity.
    + rewrite nth_overflow; auto. rewrite app_length. simpl. lia.
Qed.

Lemma reserve_par p v x : par (reserve p v) x = par p x.
Proof.
  unfold reserve. destruct (Nat.leb_spec (length p) v); auto.
  unfold range_incl. apply fold_push_par.
Qed.

Lemma reserve_length p v : length (reserve p v) = Nat.max (length p) (S v).
Proof.
  unfold reserve. destruct (Nat.leb_spec (length p) v); [|lia].
  unfold range_incl. rewrite fold_push_length, seq_length. lia.
Qed.

Lemma reserve_inv p v : Inv p -> Inv (reserve p v).
Proof. apply Inv_ext. intro. symmetry. apply reserve_par. Qed.

Lemma reserve_root p v x r : root_of p x r <-> root_of (reserve p v) x r.
Proof. split; apply root_ext; intro; [symmetry|]; apply reserve_par. Qed.

(* ------------------------------------------------------------------ *)
(** * reset *)

Lemma reset_par p x : par (reset p) x = x.
Proof.
  unfold reset, mapi, par.
  destruct (Nat.lt_ge_cases x (length p)).
  - rewrite (nth_mapi_from _ p 0 x x 0); auto.
  - apply nth_overflow. rewrite length_mapi_from. auto.
Qed.

Lemma reset_length p : length (reset p) = length p.
Proof. apply length_mapi_from. Qed.

Lemma reset_root p x r : root_of (reset p) x r <-> r = x.
Proof.
  split.
  - intros H. inversion H; subst; auto. rewrite reset_par in H0. congruence.
  - intros ->. constructor. apply reset_par.
Qed.

Lemma reset_inv p : Inv (reset p).
Proof. intro i. rewrite reset_par. lia. Qed.

(* ------------------------------------------------------------------ *)
(** * find (path halving) *)

Lemma halve_inv p cur : Inv p -> cur < length p -> Inv (set_nth p cur (par p (par p cur))).
Proof.
  intros HI Hc i. rewrite par_set by auto.
  destruct (Nat.eqb_spec i cur) as [->|]; [|apply HI].
  pose proof (HI cur). pose proof (HI (par p cur)). lia.
Qed.

(** path halving preserves every node's root: compression never changes the partition *)
Lemma halve_root p cur : Inv p -> cur < length p ->
  forall x r, root_of p x r -> root_of (set_nth p cur (par p (par p cur))) x r.
Proof.
  intros HI Hc x. induction x as [x IH] using lt_wf_ind. intros r Hr.
  set (p' := set_nth p cur (par p (par p cur))).
  assert (Hp' : forall y, par p' y = if Nat.eqb y cur then par p (par p cur) else par p y)
    by (intro; apply par_set; auto).
  inversion Hr; subst.
  - apply root_here. rewrite Hp'.
    destruct (Nat.eqb_spec r cur) as [->|]; auto. rewrite H; auto.
  - pose proof (HI x) as Hx.
    destruct (Nat.eq_dec x cur) as [->|Nc].
    + inversion H0; subst.
      * apply root_step; [rewrite Hp', Nat.eqb_refl, H1; auto|].
        rewrite Hp', Nat.eqb_refl, H1. apply IH; [lia|]. apply root_here; auto.
      * pose proof (HI (par p cur)).
        assert (par p (par p cur) < cur) by lia.
        apply root_step; [rewrite Hp', Nat.eqb_refl; lia|].
        rewrite Hp', Nat.eqb_refl. apply IH; auto.
    + apply root_step; rewrite Hp'; destruct (Nat.eqb_spec x cur); try congruence; auto.
      apply IH; auto. lia.
Qed.

Lemma Inv_par_lt_len p x : Inv p -> x < length p -> par p x < length p.
Proof. intros HI H. pose proof (HI x). lia. Qed.

Lemma find_loop_ok : forall fuel p cur, Inv p -> cur < length p -> cur < fuel ->
  exists p' r, find_loop fuel p cur = Ok (p', r)
    /\ root_of p cur r /\ Inv p' /\ length p' = length p
    /\ (forall x r', root_of p x r' -> root_of p' x r').
Proof.
  induction fuel as [|fuel IH]; intros p cur HI Hc Hf; [lia|].
  cbn [find_loop].
  rewrite (idx_ok p cur cur) by auto. cbn [bind]. fold (par p cur).
  destruct (Nat.eqb_spec cur (par p cur)) as [E|N].
  - exists p, cur. repeat split; auto. constructor; auto.
  - pose proof (HI cur) as Hle.
    assert (Hpl : par p cur < length p) by (apply Inv_par_lt_len; auto).
    rewrite (idx_ok p (par p cur) (par p cur)) by auto. cbn [bind]. fold (par p (par p cur)).
    rewrite upd_ok by auto. cbn [bind].
    pose proof (HI (par p cur)) as Hle2.
    destruct (IH (set_nth p cur (par p (par p cur))) (par p (par p cur))) as (p' & r & Hfind & Hroot & HI' & Hlen & Hpres).
    + apply halve_inv; auto.
    + rewrite length_set_nth. lia.
    + lia.
    + exists p', r. split; [exact Hfind|].
      assert (Hr0 : root_of p cur r).
      { destruct (root_total p HI cur) as (r0 & Hr0 & _).
        pose proof (halve_root p cur HI Hc cur r0 Hr0) as H1.
        (* root of grand in p is r0 too *)
        assert (root_of p (par p (par p cur)) r0).
        { inversion Hr0; subst; [congruence|].
          inversion H0; subst.
          - rewrite H2. constructor; auto.
          - auto. }
        pose proof (halve_root p cur HI Hc _ _ H) as H2.
        rewrite (root_unique _ _ _ _ Hroot H2). auto. }
      repeat split; auto.
      * rewrite Hlen. apply length_set_nth.
      * intros x r' Hx. apply Hpres. apply halve_root; auto.
Qed.

Theorem find_ok p id fuel : Inv p -> Nat.max (length p) (S id) <= fuel ->
  exists p' r, find fuel p id = Ok (p', r)
    /\ root_of p id r /\ Inv p' /\ length p' = Nat.max (length p) (S id)
    /\ (forall x r', root_of p x r' <-> root_of p' x r').
Proof.
  intros HI Hf. unfold find.
  destruct (find_loop_ok fuel (reserve p id) id) as (p' & r & H1 & H2 & H3 & H4 & H5).
  - apply reserve_inv; auto.
  - rewrite reserve_length. lia.
  - lia.
  - exists p', r. split; auto. split; [apply (reserve_root p id); auto|].
    split; auto. split; [rewrite H4; apply reserve_length|].
    intros x r'. split.
    + intros Hx. apply H5. apply reserve_root. auto.
    + intros Hx. destruct (root_total p HI x) as (r0 & Hr0 & _).
      assert (root_of p' x r0) by (apply H5; apply reserve_root; auto).
      rewrite (root_unique _ _ _ _ Hx H). auto.
Qed.

(* ------------------------------------------------------------------ *)
(** * find_naive *)

Lemma find_naive_loop_ok : forall fuel p cur, Inv p -> cur < length p -> cur < fuel ->
  exists r, find_naive_loop fuel p cur = Ok r /\ root_of p cur r.
Proof.
  induction fuel as [|fuel IH]; intros p cur HI Hc Hf; [lia|].
  cbn [find_naive_loop]. rewrite (idx_ok p cur cur) by auto. cbn [bind]. fold (par p cur).
  destruct (Nat.eqb_spec cur (par p cur)) as [E|N].
  - exists cur. split; auto. constructor; auto.
  - pose proof (HI cur). destruct (IH p (par p cur)) as (r & Hr & Hroot); auto.
    + apply Inv_par_lt_len; auto.
    + lia.
    + exists r. split; auto. apply root_step; auto.
Qed.

Theorem find_naive_ok p id fuel : Inv p -> length p <= fuel ->
  exists r, find_naive fuel p id = Ok r /\ root_of p id r.
Proof.
  intros HI Hf. unfold find_naive.
  destruct (Nat.leb_spec (length p) id).
  - exists id. split; auto. constructor. apply par_oob. auto.
  - apply find_naive_loop_ok; auto. lia.
Qed.

(* ------------------------------------------------------------------ *)
(** * union *)

Definition eqv (p : list nat) (a b : nat) : Prop := exists r, root_of p a r /\ root_of p b r.

Lemma eqv_refl p : Inv p -> forall a, eqv p a a.
Proof. intros HI a. destruct (root_total p HI a) as (r & H & _). exists r; auto. Qed.
Lemma eqv_sym p a b : eqv p a b -> eqv p b a.
Proof. intros (r & H1 & H2). exists r; auto. Qed.
Lemma eqv_trans p a b c : eqv p a b -> eqv p b c -> eqv p a c.
Proof.
  intros (r & H1 & H2) (r' & H3 & H4). rewrite (root_unique _ _ _ _ H3 H2) in H4. exists r; auto.
Qed.

(** linking root [c] under root [q] (q < c): every node whose root was [c] now has root [q] *)
Lemma link_root p c q : Inv p -> c < length p -> par p c = c -> par p q = q -> q < c ->
  forall x r, root_of p x r -> root_of (set_nth p c q) x (if Nat.eqb r c then q else r).
Proof.
  intros HI Hc Hrc Hrq Hlt x. induction x as [x IH] using lt_wf_ind. intros r Hr.
  assert (Hp' : forall y, par (set_nth p c q) y = if Nat.eqb y c then q else par p y)
    by (intro; apply par_set; auto).
  inversion Hr; subst.
  - destruct (Nat.eqb_spec r c) as [->|Nc].
    + apply root_step; [rewrite Hp', Nat.eqb_refl; lia|].
      rewrite Hp', Nat.eqb_refl. apply root_here. rewrite Hp'.
      destruct (Nat.eqb_spec q c); [lia|auto].
    + apply root_here. rewrite Hp'. destruct (Nat.eqb_spec r c); [congruence|auto].
  - assert (x <> c) by congruence.
    pose proof (HI x).
    apply root_step; rewrite Hp'; destruct (Nat.eqb_spec x c); try congruence; auto.
    apply IH; auto. lia.
Qed.

Lemma link_inv p c q : Inv p -> c < length p -> q <= c -> Inv (set_nth p c q).
Proof.
  intros HI Hc Hle i. rewrite par_set by auto.
  destruct (Nat.eqb_spec i c) as [->|]; auto.
Qed.

Theorem union_ok p a b fuel : Inv p -> Nat.max (length p) (S (Nat.max a b)) <= fuel ->
  exists p' ra rb, root_of p a ra /\ root_of p b rb
    /\ union fuel p a b = Ok (p', (Nat.min ra rb, if Nat.eqb ra rb then ra else Nat.max ra rb))
    /\ Inv p' /\ length p' = Nat.max (length p) (S (Nat.max a b))
    /\ (forall x r, root_of p x r ->
          root_of p' x (if (negb (Nat.eqb ra rb) && Nat.eqb r (Nat.max ra rb))%bool then Nat.min ra rb else r)).
Proof.
  intros HI Hf. unfold union.
  set (p1 := reserve (reserve p a) b).
  assert (HI1 : Inv p1) by (apply reserve_inv, reserve_inv; auto).
  assert (Hl1 : length p1 = Nat.max (length p) (S (Nat.max a b))).
  { unfold p1. rewrite !reserve_length. lia. }
  assert (Hr1 : forall x r, root_of p x r <-> root_of p1 x r).
  { intros. unfold p1. rewrite <- reserve_root, <- reserve_root. reflexivity. }
  destruct (find_ok p1 a fuel HI1) as (p2 & ra & Hfa & Hra & HI2 & Hl2 & Hr2); [lia|].
  rewrite Hfa. cbn [bind].
  destruct (find_ok p2 b fuel HI2) as (p3 & rb & Hfb & Hrb & HI3 & Hl3 & Hr3); [lia|].
  rewrite Hfb. cbn [bind].
  assert (Hra0 : root_of p a ra) by (apply Hr1; auto).
  assert (Hrb0 : root_of p b rb) by (apply Hr1, Hr2; auto).
  assert (Hlen3 : length p3 = Nat.max (length p) (S (Nat.max a b))) by lia.
  assert (Hall : forall x r, root_of p x r <-> root_of p3 x r).
  { intros. rewrite Hr1, Hr2, Hr3. reflexivity. }
  pose proof (root_le _ _ _ HI Hra0) as Hlea.
  pose proof (root_le _ _ _ HI Hrb0) as Hleb.
  destruct (Nat.eqb_spec ra rb) as [E|N]; cbn [negb].
  - subst rb. exists p3, ra, ra. rewrite Nat.min_id, Nat.eqb_refl. cbn [negb andb].
    repeat split; auto.
    intros x r Hx. apply Hall; auto.
  - rewrite upd_ok by lia. cbn [bind].
    exists (set_nth p3 (Nat.max ra rb) (Nat.min ra rb)), ra, rb.
    destruct (Nat.eqb_spec ra rb) as [|_]; [congruence|]. cbn [negb andb].
    repeat split; auto.
    + apply link_inv; auto; lia.
    + rewrite length_set_nth. auto.
    + intros x r Hx.
      assert (Hpa : par p3 ra = ra) by (eapply root_is_root; apply Hall; eauto).
      assert (Hpb : par p3 rb = rb) by (eapply root_is_root; apply Hall; eauto).
      apply link_root; auto; try lia.
      * destruct (Nat.max_spec ra rb) as [[_ ->]|[_ ->]]; auto.
      * destruct (Nat.min_spec ra rb) as [[_ ->]|[_ ->]]; auto.
      * apply Hall; auto.
Qed.

(** the partition after [union a b] is the old one with the classes of a and b merged *)
Corollary union_eqv p a b fuel p' res : Inv p -> Nat.max (length p) (S (Nat.max a b)) <= fuel ->
  union fuel p a b = Ok (p', res) ->
  Inv p' /\ forall x y, eqv p' x y <->
     (eqv p x y \/ (eqv p x a /\ eqv p b y) \/ (eqv p x b /\ eqv p a y)).
Proof.
  intros HI Hf Hu.
  destruct (union_ok p a b fuel HI Hf) as (p'' & ra & rb & Hra & Hrb & Hu' & HI' & _ & Hmap).
  rewrite Hu in Hu'. injection Hu' as <- _. split; auto.
  intros x y.
  destruct (root_total p HI x) as (rx & Hrx & _).
  destruct (root_total p HI y) as (ry & Hry & _).
  pose proof (Hmap x rx Hrx) as Hx'. pose proof (Hmap y ry Hry) as Hy'.
  set (f := fun r => if (negb (Nat.eqb ra rb) && Nat.eqb r (Nat.max ra rb))%bool then Nat.min ra rb else r).
  change (root_of p' x (f rx)) in Hx'. change (root_of p' y (f ry)) in Hy'.
  assert (Heq' : eqv p' x y <-> f rx = f ry).
  { split.
    - intros (r & H1 & H2). rewrite <- (root_unique _ _ _ _ H1 Hx'), <- (root_unique _ _ _ _ H2 Hy'). auto.
    - intros E. exists (f rx). split; auto. rewrite E. auto. }
  assert (Heq : forall u v ru rv, root_of p u ru -> root_of p v rv -> (eqv p u v <-> ru = rv)).
  { intros u v ru rv Hu0 Hv0. split.
    - intros (r & H1 & H2). rewrite (root_unique _ _ _ _ Hu0 H1), (root_unique _ _ _ _ Hv0 H2). auto.
    - intros ->. exists rv; auto. }
  rewrite Heq'. rewrite (Heq x y rx ry), (Heq x a rx ra), (Heq b y rb ry), (Heq x b rx rb), (Heq a y ra ry); auto.
  unfold f. destruct (Nat.eqb_spec ra rb) as [->|N]; cbn [negb andb].
  - intuition congruence.
  - destruct (Nat.eqb_spec rx (Nat.max ra rb)); destruct (Nat.eqb_spec ry (Nat.max ra rb)); lia.
Qed.

(* ------------------------------------------------------------------ *)
(** * operation sequences *)

(** connectivity of the union operations since the last reset *)
Inductive conn : list op -> nat -> nat -> Prop :=
| conn_refl ops a : conn ops a a
| conn_sym ops a b : conn ops a b -> conn ops b a
| conn_trans ops a b c : conn ops a b -> conn ops b c -> conn ops a c
| conn_here ops a b : conn (ops ++ [OUnion a b]) a b
| conn_union ops a b x y : conn ops x y -> conn (ops ++ [OUnion a b]) x y
| conn_find ops a x y : conn ops x y -> conn (ops ++ [OFind a]) x y.
(* after OReset only reflexivity (and sym/trans of it) is available *)

Lemma conn_reset_eq ops x y : conn (ops ++ [OReset]) x y -> x = y.
Proof.
  intros H. remember (ops ++ [OReset]) as l eqn:E. revert ops E.
  induction H; intros ops0 E; subst; auto.
  - symmetry. eauto.
  - transitivity b; eauto.
  - apply app_inj_tail in E. destruct E; discriminate.
  - apply app_inj_tail in E. destruct E; discriminate.
  - apply app_inj_tail in E. destruct E; discriminate.
Qed.

Lemma conn_find_inv ops a x y : conn (ops ++ [OFind a]) x y <-> conn ops x y.
Proof.
  split; [|apply conn_find].
  intros H. remember (ops ++ [OFind a]) as l eqn:E. revert ops E.
  induction H; intros ops0 E; subst.
  - apply conn_refl.
  - apply conn_sym; eauto.
  - eapply conn_trans; eauto.
  - apply app_inj_tail in E. destruct E; discriminate.
  - apply app_inj_tail in E. destruct E; discriminate.
  - apply app_inj_tail in E. destruct E as [-> _]. auto.
Qed.

Lemma conn_union_inv ops a b x y (R : nat -> nat -> Prop) :
  (forall u, R u u) -> (forall u v, R u v -> R v u) -> (forall u v w, R u v -> R v w -> R u w) ->
  R a b -> (forall u v, conn ops u v -> R u v) ->
  conn (ops ++ [OUnion a b]) x y -> R x y.
Proof.
  intros Rr Rs Rt Rab Rc H. remember (ops ++ [OUnion a b]) as l eqn:E. revert E.
  induction H; intros E; subst; eauto.
  - apply app_inj_tail in E. destruct E as [_ E]. injection E as -> ->. auto.
  - apply app_inj_tail in E. destruct E as [-> _]. auto.
  - apply app_inj_tail in E. destruct E; discriminate.
Qed.

Lemma run_app : forall ops1 p ops2, run p (ops1 ++ ops2) = bind (run p ops1) (fun p' => run p' ops2).
Proof.
  induction ops1 as [|o ops1 IH]; intros p ops2; simpl; auto.
  destruct (step p o); simpl; auto.
Qed.

(** Main theorem, sequential union-find: for EVERY operation sequence the run succeeds (no panic,
    the stated fuel suffices), and in the resulting state two ids have the same root iff they are
    connected by the unions performed (since the last reset). *)
Theorem run_same_iff_connected : forall ops,
  exists p, run [] ops = Ok p /\ Inv p /\ forall x y, eqv p x y <-> conn ops x y.
Proof.
  intros ops. induction ops as [|o ops IH] using rev_ind.
  - exists []. split; [reflexivity|]. split; [intro i; unfold par; destruct i; simpl; lia|].
    intros x y. split.
    + intros (r & H1 & H2).
      assert (forall z r', root_of [] z r' -> r' = z).
      { intros z r' H. inversion H; subst; auto. unfold par in H0. destruct z; simpl in H0; congruence. }
      rewrite <- (H x r H1), <- (H y r H2). apply conn_refl.
    + intros H. remember [] as l. induction H; subst; try (destruct ops; discriminate).
      * exists a. split; constructor; unfold par; destruct a; reflexivity.
      * apply eqv_sym; auto.
      * eapply eqv_trans; eauto.
  - destruct IH as (p & Hrun & HI & Hconn).
    rewrite run_app, Hrun. cbn [bind run].
    destruct o as [a b|a|].
    + cbn [step fuel_for].
      destruct (union_ok p a b _ HI (Nat.le_refl _)) as (p' & ra & rb & _ & _ & Hu & _).
      rewrite Hu. cbn [bind].
      destruct (union_eqv p a b _ _ _ HI (Nat.le_refl _) Hu) as (HI' & Heq).
      exists p'. split; auto. split; auto.
      intros x y. rewrite Heq. split.
      * intros [H|[[H1 H2]|[H1 H2]]].
        -- apply conn_union. apply Hconn; auto.
        -- eapply conn_trans; [apply conn_union, Hconn; eauto|].
           eapply conn_trans; [apply conn_here|]. apply conn_union, Hconn; auto.
        -- eapply conn_trans; [apply conn_union, Hconn; eauto|].
           eapply conn_trans; [apply conn_sym, conn_here|]. apply conn_union, Hconn; auto.
      * apply (conn_union_inv ops a b x y
          (fun x y => eqv p x y \/ (eqv p x a /\ eqv p b y) \/ (eqv p x b /\ eqv p a y))).
        -- intros u. left. apply eqv_refl; auto.
        -- intros u v [H|[[H1 H2]|[H1 H2]]]; [left; apply eqv_sym; auto| |];
             [right; right|right; left]; split; apply eqv_sym; auto.
        -- pose proof (eqv_trans p) as T. pose proof (eqv_sym p) as S.
           intros u v w [H|[[H1 H2]|[H1 H2]]] [H'|[[H1' H2']|[H1' H2']]];
             solve [left; eauto | right; left; split; eauto | right; right; split; eauto].
        -- right. left. split; apply eqv_refl; auto.
        -- intros u v H. left. apply Hconn. auto.
    + cbn [step fuel_for].
      destruct (find_ok p a _ HI (Nat.le_refl _)) as (p' & r & Hf & _ & HI' & _ & Hpres).
      rewrite Hf. cbn [bind]. exists p'. split; auto. split; auto.
      intros x y. rewrite conn_find_inv, <- Hconn.
      unfold eqv. split; intros (r0 & H1 & H2); exists r0; split; apply Hpres; auto.
    + cbn [step bind]. exists (reset p). split; auto. split; [apply reset_inv|].
      intros x y. split.
      * intros (r & H1 & H2). apply reset_root in H1, H2. subst. apply conn_refl.
      * intros H. apply conn_reset_eq in H. subst. exists y. split; apply reset_root; auto.
Qed.

(** the representative of a class is its least member *)
Theorem rep_is_min p x r : Inv p -> root_of p x r ->
  eqv p x r /\ forall y, eqv p x y -> r <= y.
Proof.
  intros HI H. split.
  - exists r. split; auto. eapply root_idem; eauto.
  - intros y (r' & H1 & H2). rewrite (root_unique _ _ _ _ H H1). eapply root_le; eauto.
Qed.

(** the observing run used by the correspondence check is the same state machine *)
Lemma step_obs_step p o : bind (step_obs p o) (fun '(p', _) => Ok p') = step p o.
Proof.
  destruct o as [a b|a|]; cbn [step_obs step]; auto.
  - destruct (union _ p a b) as [[p' [x y]]| |]; reflexivity.
  - destruct (find _ p a) as [[p' r]| |]; reflexivity.
Qed.

Lemma run_obs_run : forall ops p, bind (run_obs p ops) (fun '(p', _) => Ok p') = run p ops.
Proof.
  induction ops as [|o ops IH]; intros p; cbn [run_obs run bind]; auto.
  rewrite <- step_obs_step.
  destruct (step_obs p o) as [[p' obs]| |]; cbn [bind]; auto.
  rewrite <- IH. destruct (run_obs p' ops) as [[p'' obs']| |]; reflexivity.
Qed.
