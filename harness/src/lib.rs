//! Shared library of the correspondence / property-predicate harness binaries (src/bin/h_*.rs).
//! Each binary: `h_<sub> --out <dir> [--seed N] [--tier quick|thorough] [--replay file] [extra..]`
//! writes `<dir>/impl_report.json` (+ optional `cases_*.v` shards for kernel evaluation).
pub mod util;

pub struct Opts {
    pub out: std::path::PathBuf,
    pub seed: u64,
    pub thorough: bool,
    pub replay: Option<String>,
    pub extra: Vec<String>,
}

pub fn parse_opts() -> Opts {
    let args: Vec<String> = std::env::args().collect();
    let mut o = Opts { out: "out".into(), seed: 1, thorough: false, replay: None, extra: vec![] };
    let mut i = 1;
    while i < args.len() {
        match args[i].as_str() {
            "--out" => {
                o.out = args[i + 1].clone().into();
                i += 2;
            }
            "--seed" => {
                o.seed = args[i + 1].parse().expect("seed");
                i += 2;
            }
            "--tier" => {
                o.thorough = args[i + 1] == "thorough";
                i += 2;
            }
            "--replay" => {
                o.replay = Some(args[i + 1].clone());
                i += 2;
            }
            other => {
                o.extra.push(other.to_string());
                i += 1;
            }
        }
    }
    std::fs::create_dir_all(&o.out).unwrap();
    o
}
pub mod egg;
pub mod egg_gen;
