(** Kernel-evaluated correspondence cases written by harness/src/bin/h_index.rs: the models are
    run on the inputs the real functions were run on (through hook H6) and compared with what
    the implementation returned. Definitions only. *)
From Coq Require Import List NArith Bool.
Import ListNotations.
Require Import Verif.Base.Res Verif.Base.Cases Verif.Index.Prelude Verif.gen.PureFns
  Verif.Index.RadixModel Verif.Index.SearchModel Verif.Index.MergeModel.
Local Open Scope N_scope.

Inductive icase : Type :=
(** [radix_sort_slice_by_value(data, scratch)] with [scratch = [fill; len data + extra]] *)
| CRadix (data : list vr) (extra : N) (fill : vr) (impl : list vr)
(** [radix_passes_for(max)] *)
| CPasses (max impl : N)
(** [scan_for_offset(start, target)] on one sorted slice: (start, target, result) *)
| CScan (s : list N) (queries : list (N * N * UResult))
(** [binary_search_from(start, target)] on one sorted slice *)
| CBsf (s : list N) (queries : list (N * N * N))
(** [merge2_into(a, b, &mut out)] with [out = prefix] *)
| CMerge (a b prefix impl : list vr).

Definition vr_list_eqb : list vr -> list vr -> bool := list_eqb vr_eqb.

Definition check_case (c : icase) : bool :=
  match c with
  | CRadix data extra fill impl =>
      match radix_sort data (repeat fill (length data + N.to_nat extra)) with
      | Ok out => vr_list_eqb out impl
      | _ => false
      end
  | CPasses max impl => radix_passes_for max =? impl
  | CScan s qs => forallb (fun q => match q with (start, t, r) => check_scan s start t r end) qs
  | CBsf s qs => forallb (fun q => match q with (start, t, r) => check_bsf s start t r end) qs
  | CMerge a b prefix impl => vr_list_eqb (merge2_into a b prefix) impl
  end.
