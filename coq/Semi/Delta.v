(** C03: the semi-naive delta decomposition, over the timestamp constraints that
    [Query::add_rules_from_cached] REALLY emits (gen/SourceFacts.v, regenerated from
    egglog-bridge/src/rule.rs on every run).

    A match of a rule body with atoms A_0 .. A_{n-1} is a tuple of rows, one per atom; each row
    carries the timestamp [ts] at which it was last written. For a rule last run at [mid], the
    engine runs n variants of the body; variant [i] constrains atom i with [semi_focus] (new rows),
    atoms j < i with [semi_earlier] (old rows) and leaves atoms j > i unconstrained. *)
From Coq Require Import List Arith PeanoNat Bool Lia.
Import ListNotations.
Require Import Verif.gen.SourceFacts.

Definition sat (c : tscmp) (ts mid : nat) : bool :=
  match c with
  | CGe => mid <=? ts
  | CGt => mid <? ts
  | CLt => ts <? mid
  | CLe => ts <=? mid
  | CEq => ts =? mid
  | COther => true
  end.

Definition is_new (mid ts : nat) : bool := sat semi_focus ts mid.
Definition is_old (mid ts : nat) : bool := sat semi_earlier ts mid.

(** variant [i] accepts the tuple of timestamps [m] *)
Definition variant (mid : nat) (i : nat) (m : list nat) : bool :=
  semi_earlier_is_prefix
  && forallb (is_old mid) (firstn i m)
  && match nth_error m i with Some ts => is_new mid ts | None => false end.

(** what naive evaluation would re-derive uselessly: every row of the match is old *)
Definition all_old (mid : nat) (m : list nat) : bool := forallb (fun ts => negb (is_new mid ts)) m.

(** the two constraints partition the rows: "old" is exactly "not new" *)
Lemma old_is_not_new mid ts : is_old mid ts = negb (is_new mid ts).
Proof.
  unfold is_old, is_new, semi_focus, semi_earlier, sat.
  destruct (Nat.leb_spec mid ts), (Nat.ltb_spec ts mid); simpl; auto; lia.
Qed.

Lemma prefix_fact : semi_earlier_is_prefix = true.
Proof. reflexivity. Qed.

(** index of the first new row *)
Fixpoint first_new (mid : nat) (m : list nat) : option nat :=
  match m with
  | [] => None
  | ts :: tl => if is_new mid ts then Some 0 else option_map S (first_new mid tl)
  end.

Lemma first_new_none mid m : first_new mid m = None <-> all_old mid m = true.
Proof.
  induction m as [|ts m IH]; simpl; [tauto|].
  destruct (is_new mid ts); simpl.
  - split; discriminate.
  - rewrite <- IH. destruct (first_new mid m); simpl; split; congruence.
Qed.

Lemma variant_iff_first_new mid : forall m i, variant mid i m = true <-> first_new mid m = Some i.
Proof.
  unfold variant. rewrite prefix_fact. simpl.
  induction m as [|ts m IH]; intros i.
  - destruct i; simpl; split; discriminate.
  - destruct i as [|i]; simpl.
    + destruct (is_new mid ts); split; auto; try discriminate.
      destruct (first_new mid m); discriminate.
    + rewrite old_is_not_new. destruct (is_new mid ts) eqn:E; simpl.
      * split; discriminate.
      * rewrite IH. destruct (first_new mid m); simpl; split; congruence.
Qed.

(** Delta decomposition: a match is found by the semi-naive variants iff it is not all-old, and
    then by EXACTLY ONE variant (the union over focus atoms is disjoint): nothing naive evaluation
    would newly derive is lost, nothing is fired twice. *)
Theorem delta_decomp mid m :
  (all_old mid m = false <-> exists i, variant mid i m = true)
  /\ (forall i j, variant mid i m = true -> variant mid j m = true -> i = j)
  /\ (forall i, variant mid i m = true -> i < length m).
Proof.
  split; [|split].
  - split.
    + intros H. destruct (first_new mid m) as [i|] eqn:E.
      * exists i. apply variant_iff_first_new. exact E.
      * apply first_new_none in E. congruence.
    + intros [i Hi]. apply variant_iff_first_new in Hi.
      destruct (all_old mid m) eqn:E; auto. apply first_new_none in E. congruence.
  - intros i j Hi Hj. apply variant_iff_first_new in Hi, Hj. congruence.
  - intros i Hi. unfold variant in Hi. apply andb_true_iff in Hi. destruct Hi as [_ Hi].
    destruct (nth_error m i) eqn:E; [|discriminate]. apply nth_error_Some. congruence.
Qed.

(** a rule that has never run ([mid = 0]) sees everything through variant 0 alone: every row is
    new, so the first row is the first new row — "run for the first time long after its inputs
    were written" loses nothing *)
Theorem first_run_sees_all m : m <> [] -> variant 0 0 m = true /\ all_old 0 m = false.
Proof.
  intros H. destruct m as [|ts m]; [congruence|].
  assert (N : forall t, is_new 0 t = true) by (intro t; reflexivity).
  split.
  - apply variant_iff_first_new. cbn [first_new]. rewrite N. reflexivity.
  - cbn [all_old forallb]. rewrite N. reflexivity.
Qed.

(** the single-focus variant used by rebuild rules constrains its focus atom the same way *)
Theorem sole_focus_same : semi_sole_focus = semi_focus.
Proof. reflexivity. Qed.
