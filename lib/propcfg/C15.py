"""C15 configuration for bin/check."""

CFG = {
        "tier_a": [],
        "model_targets": ["Syntax/Ast.vo"],
        "proof_targets": ["Props/C15.vo"],
        "harness": [{"bin": "h_syntax", "prefix": "cases_syntax", "timeout": 3000}],
        "trusted": [
            "hand-written Gallina model coq/Syntax/{Sexp,Ast}.v of the lexer/reader (src/ast/parse.rs:1111-1302), of Display for Literal/Expr/Fact/Action/Rule/Schedule/Command and of Parser::parse_* — tied to the Rust code in both directions by harness h_syntax (model print = Rust Display text, model parse = Rust parse result, on every case)",
            "f64 oracle hypotheses of the float theorems (f64::to_string of a finite value is a non-empty string over [0-9.-]; the printed literal parses back to the same bits; only texts with a digit parse as finite f64): tested on the real functions for all 2047 exponents x 3 mantissas, special values and 2*10^5 (quick) / 2*10^6 (thorough) random patterns, and on every token the generator produces",
        ],
        "theorem_backed": "string escaping round trip for arbitrary characters; i64 print/parse over the full range; every literal; every well-formed s-expression under the canonical printer AND under any whitespace layout (c15_layout_roundtrip: covers the text of every Display impl once its layout is well formed); expr / fact / action (incl. panic with any message) print->parse identity on the exact Display text; schedules re-parse to rewrap(s) with flat(rewrap s)=flat s; atoms produced by the lexer are well formed (non-vacuity)",
        "link_only": "the command level (all 27 Command variants with every option, rule/rewrite/datatype/function/constructor/sort internals, print-function modes): printers and parser are modelled and compared with the Rust ones on every case, and the round trip is evaluated as a predicate on the implementation, but no Coq theorem is proved about parse_command; extracted-term printing (TermDag::to_string / evaluation) is not covered here (C07); resolve_program output re-run on a fresh engine: tests/*.egg only; parser macros / user-defined commands; Unicode: char::is_whitespace table compared up to U+3100 and asserted empty above",
        "assumptions": [
            "text is a sequence of Unicode scalar values (Rust str::chars); spans are ignored",
            "f64 formatting/parsing enter through the oracle hypotheses above",
            "usize/u64 option values are unbounded N in the model (the lexer already bounds them by i64)",
        ],
    }
