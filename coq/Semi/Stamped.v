(** C03: a TIMESTAMPED executable model of rule running on top of the shared Egg rule interpreter
    ([Egg/Rules.v]). Executable definitions only.

    Every row carries the timestamp at which it was last written ([stamps], parallel to the
    tables). After every command the stamps are recomputed against the previous database
    ([restamp]): a row that is still there, identical, keeps its stamp; a row that the rebuild
    re-keyed (an old row that was stale under the new union-find canonicalises to its key) gets
    the current clock iff the regenerated fact [restamp_on_rebuild] says so (table/rebuild.rs
    [insert_row!]); a row whose key was there with another value or flag gets the clock iff
    [restamp_on_merge_change] says so (egglog-bridge MergeFn::to_callback); a fresh row gets the
    clock. The clock advances after every command as the regenerated [inc_ts_*] facts say.

    [iter_naive] runs the commands of ALL matches of the selected rules; [iter_semi] runs only the
    commands of the matches that are not matches of the database filtered to the rows that are OLD
    for the rule (regenerated constraint [semi_earlier] via [Delta.is_old], regenerated frontier
    [semi_frontier_src]: the rule's own [last_run]) -- by [Delta.delta_decomp] exactly the matches
    fired by one of the variants [add_rules_from_cached] emits. Both then execute the ground
    commands with the shared [xrun] (inserts, merges, unions, rebuild). *)
From Coq Require Import List Arith ZArith Bool PeanoNat.
Import ListNotations.
Require Import Verif.Base.Res Verif.Base.Cases Verif.gen.UFSeq Verif.gen.SourceFacts Verif.gen.SemiFacts.
Require Import Verif.Semi.Delta Verif.Egg.Model Verif.Egg.Rules.

(** the stamping discipline, as read from the source *)
Record flags := mkFlags { fl_rebuild : bool; fl_merge : bool }.
Definition src_flags : flags :=
  mkFlags (restamp_on_rebuild && rebuild_ts_is_clock && refresh_restamps)
          (restamp_on_merge_change && merge_ts_from_new).

Definition row_eqb (a b : row) : bool :=
  vals_eqb (rargs a) (rargs b) && val_eqb (rret a) (rret b) && Bool.eqb (rsub a) (rsub b).

Definition stamps := list (list nat).
Definition get_st (st : stamps) (f : nat) : list nat := nth f st [].

(** stamp of the (first) identical row of the previous table *)
Definition stamp_of (t : table) (ts : list nat) (r : row) : option nat :=
  option_map snd (List.find (fun rx => row_eqb (fst rx) r) (combine t ts)).

(** stamp of a previous row that was stale under the union-find [p] and is re-keyed to [r]'s key *)
Definition stale_src (p : list nat) (t : table) (ts : list nat) (r : row) : option nat :=
  option_map snd (List.find (fun rx => negb (row_eqb (canon_row p (fst rx)) (fst rx))
                                  && vals_eqb (map (canon p) (rargs (fst rx))) (rargs r))
                       (combine t ts)).

(** stamp of the previous row with the same key *)
Definition key_src (t : table) (ts : list nat) (r : row) : option nat :=
  option_map snd (List.find (fun rx => vals_eqb (rargs (fst rx)) (rargs r)) (combine t ts)).

Definition new_stamp (fl : flags) (now : nat) (p : list nat) (t : table) (ts : list nat) (r : row) : nat :=
  match stamp_of t ts r with
  | Some x => x
  | None =>
      match stale_src p t ts r with
      | Some x => if fl_rebuild fl then now else x
      | None => match key_src t ts r with
                | Some x => if fl_merge fl then now else x
                | None => now
                end
      end
  end.

Definition restamp (fl : flags) (now : nat) (p : list nat) (old : list table) (ost : stamps)
                   (new : list table) : stamps :=
  map (fun f => map (new_stamp fl now p (get_tab old f) (get_st ost f)) (get_tab new f))
      (seq 0 (length new)).

(** the rows whose stamp satisfies [pred] *)
Definition filter_st (pred : nat -> bool) (t : table) (ts : list nat) : table :=
  map fst (filter (fun rx => pred (snd rx)) (combine t ts)).

(** the database a rule last run at [mid] has already seen: rows satisfying the constraint the
    engine puts on the atoms before the focus ([semi_earlier], regenerated) *)
Definition old_state (mid : nat) (s : state) (st : stamps) : state :=
  mkSt (uf s)
       (map (fun f => filter_st (is_old mid) (get_tab (tabs s) f) (get_st st f))
            (seq 0 (length (tabs s))))
       (wit s).

Definition bind_eqb (a b : nat * val) : bool := Nat.eqb (fst a) (fst b) && val_eqb (snd a) (snd b).
Definition env_mem (e : env) (l : list env) : bool := existsb (list_eqb bind_eqb e) l.

(** the ground commands of one match *)
Definition env_cmds (s : state) (r : rule) (e : env) : list xcmd :=
  flat_map (fun a => match ground_action s e a with
                     | Some c => [c]
                     | None => [XPanic]
                     end) (rhead r).

(** all commands of the rule, tagged [true] when semi-naive evaluation fires them. [mid = 0]: the
    engine emits the single unconstrained variant (rule.rs `continue 'outer`; the empty-body
    shortcut), everything fires *)
Definition tagged_cmds (s : state) (st : stamps) (mid : nat) (r : rule) : list (bool * xcmd) :=
  let olds := if Nat.eqb mid 0 then [] else match_body (old_state mid s st) (rbody r) [[]] in
  flat_map (fun e => map (pair (negb (env_mem e olds))) (env_cmds s r e))
           (match_body s (rbody r) [[]]).

Record sstate := mkSS {
  ss : state;            (* the database *)
  sst : stamps;          (* per-row timestamps *)
  sclock : nat;          (* next_ts *)
  slast : nat -> nat     (* per-rule last_run_at *)
}.

(** the frontier handed to the rule's variants (regenerated: the rule's own stamp) *)
Definition frontier (last : nat -> nat) (sel : list nat) (k : nat) : nat :=
  match semi_frontier_src with
  | FOwnLastRun => last k
  | FNotOwn => last (List.last sel k)
  end.

Definition sel_tagged (rules : list rule) (X : sstate) (sel : list nat) : list (bool * xcmd) :=
  flat_map (fun k => match nth_error rules k with
                     | Some r => tagged_cmds (ss X) (sst X) (frontier (slast X) sel k) r
                     | None => []
                     end) sel.

(** `info.last_run_at = next_ts` for every rule of the batch *)
Definition advance (nrules : nat) (last : nat -> nat) (sel : list nat) (now : nat) : nat -> nat :=
  if semi_frontier_advances_own && last_run_set_to_run_ts && run_ts_is_clock
  then fun k => if existsb (Nat.eqb k) sel && (k <? nrules) then now else last k
  else last.

(** after the ground commands: re-stamp against the previous database, advance clock and stamps *)
Definition finish (fl : flags) (nrules : nat) (X : sstate) (res : xres) (sel : list nat) (bump : bool)
  : sstate * option nat :=
  let '(s', e) := res in
  let now := sclock X in
  (mkSS s' (restamp fl now (uf s') (tabs (ss X)) (sst X) (tabs s'))
        (if bump then S now else now) (advance nrules (slast X) sel now), e).

(** the clock advances on both paths of run_rules_inner *)
Definition bump_iter (s s' : state) : bool :=
  if list_eqb Nat.eqb (uf s) (uf s') then inc_ts_no_rebuild_path else inc_ts_rebuild_path.

Definition iter_with (semi : bool) (fl : flags) (sg : list mergefn) (rules : list rule) (X : sstate)
                     (sel : list nat) : sstate * option nat :=
  let tcs := sel_tagged rules X sel in
  let cs := if semi then map snd (filter fst tcs) else map snd tcs in
  let res := xrun sg (ss X) cs in
  finish fl (length rules) X res sel (bump_iter (ss X) (fst res)).

Definition iter_semi := iter_with true.
Definition iter_naive := iter_with false.

(** programs: top-level actions, rule declarations, ONE iteration of a ruleset (a set of rule
    indices) -- `(run n)` of a ruleset is n of these, so every iteration boundary is observed *)
Inductive scmd :=
| SAct (a : action)
| SRule (r : rule)
| SIter (sel : list nat).

Definition spstate := (sstate * list rule)%type.

Definition sexec (semi : bool) (fl : flags) (sg : list mergefn) (ps : spstate) (k : scmd)
  : spstate * option nat :=
  let '(X, rules) := ps in
  match k with
  | SAct a => match ground_action (ss X) [] a with
              | Some c => let '(X', e) := finish fl (length rules) X (xexec sg (ss X) c) [] inc_ts_flush in
                          ((X', rules), e)
              | None => ((X, rules), Some 3)
              end
  | SRule r => ((X, rules ++ [r]), None)
  | SIter sel => let '(X', e) := iter_with semi fl sg rules X sel in ((X', rules), e)
  end.

(** the databases after every command; stops at the first execution error *)
Fixpoint srun (semi : bool) (fl : flags) (sg : list mergefn) (ps : spstate) (ks : list scmd)
  : list state :=
  match ks with
  | [] => []
  | k :: tl => match sexec semi fl sg ps k with
               | (ps', None) => ss (fst ps') :: srun semi fl sg ps' tl
               | (_, Some _) => []
               end
  end.

Definition sinit (n : nat) : spstate := (mkSS (init n) [] 0 (fun _ => 0), []).

Definition run_semi (sg : list mergefn) (ks : list scmd) : list state :=
  srun true src_flags sg (sinit (length sg)) ks.
Definition run_naive (sg : list mergefn) (ks : list scmd) : list state :=
  srun false src_flags sg (sinit (length sg)) ks.

(** sizes / subsumed counts / values, for examples *)
Definition sdump (l : list state) : list (list (list (list val * val * bool))) :=
  map (fun s => map (map (fun r => (rargs r, rret r, rsub r))) (tabs s)) l.
