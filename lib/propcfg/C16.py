"""C16 configuration for bin/check."""

CFG = {
        "tier_a": ["UFSeq"],
        "model_targets": ["Table/Model.vo"],
        "proof_targets": ["Props/C16.vo"],
        "harness": [{"bin": "h_table", "prefix": "cases_table"},
                    # parallel_insert / parallel_delete / parallel_rehash: same op sequences inside a 4-thread
                    # pool with the table-op cut-off 0, compared with the plain-map oracle only
                    {"bin": "h_table", "name": "h_table_pool", "extra": ["--pool", "4"],
                     "env": {"EGGLOG_PARALLEL_TABLE_OP_CUTOFF": "0", "EGGLOG_PARALLEL_DB_LEVEL_OP_CUTOFF": "0",
                             "EGGLOG_PARALLEL_INDEX_CONSTRUCTION_CUTOFF": "0"}}],
        "trusted": [
            "hand-written Gallina model coq/Table/Model.v of SortedWritesTable (serial paths, one shard) and DisplacedTable; tied to the code by the h_table correspondence (same op sequences, physical row ids / physical length / generation compared)",
            "translator /verif/translator for the union-find inside the DisplacedTable model (gen/UFSeq.v)",
        ],
        "theorem_backed": "SortedWritesTable model: for every op sequence (stage_insert/stage_remove/merge/clear/reads) and every merge function that keeps the key and the incoming sort value, the physical state (append-only rows with stale marks, hash of row ids, offsets, pending queues, rehash above the stale threshold) refines the plain map spec; get_row = map lookup; scans return each live row exactly once and nothing else; fast_subset on the sort column is exact for all five comparison kinds (offsets invariant); rehash preserves the abstraction and bumps the generation; with non-decreasing staged sort values no op sequence panics (the sort-order assertion is the only panic). DisplacedTable model (repaired clear, finding F8): for every op sequence incl. clear, get_row and (constrained) scans never panic and answer as the map displaced id -> (id, canonical id, ts), each id once",
        "link_only": "index-backed reads (Index/ColumnIndex refresh after merges, rehash and clear; merge_all's touched-set reset) are exercised by one-atom RuleSet queries with all constraint kinds and compared with the plain-map oracle by the harness only (no Gallina model of hash_index); refine / refine_ref / scan_project (chunked) / get_row_column / estimate_size likewise compared with the oracle only; DisplacedTable::fast_subset (timestamp_bounds) is modelled and cross-checked but has no exactness theorem. parallel_insert / parallel_delete / parallel_rehash (multi-shard paths, 4-thread pool, cut-offs 0) are exercised against the plain-map oracle only, for merge functions that are associative in every column (the parallel path pre-merges a batch, which legitimately changes which sort value a payload-preserving merge keeps). NOT covered at all: apply_rebuild / refresh_rows_for_values (value-level rebuilds), clone, two-atom joins, SubsetTracker",
        "assumptions": [
            "values are unbounded nat; Value::stale() (u32::MAX) never occurs as data",
            "one shard (no thread pool installed): pending buffers are applied in staging order",
            "rows have the table's arity (RowBuffer asserts it); column reads out of range are modelled as 0",
            "rehash's per-row in-place remap of hash entries is modelled as one simultaneous renaming",
        ],
    }
