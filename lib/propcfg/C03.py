"""C03 configuration for bin/check."""

CFG = {'assumptions': ['monotone fragment (generator emits inserts, lattice sets, unions, rules, runs only)'],
 'corr_is_violation': True,
 'harness': [{'bin': 'h_egg', 'extra': ['--prop', 'C03'], 'name': 'h_egg', 'prefix': 'cases_egg'}],
 'link_only': 'that every path changing what a row means re-stamps it (rebuild re-insert, value-changing '
              'merge, container refresh): decided by running the semi-naive engine, the naive engine '
              '(seminaive=false) and the naive model in lockstep and comparing observations after EVERY '
              'command',
 'model_targets': ['Egg/Rules.vo'],
 'proof_targets': ['Props/C03.vo'],
 'theorem_backed': 'history theorem: with the frontier run_rules_impl uses now (regenerated: the rule\'s own last_run_at, advanced to next_ts) every match fires exactly once over any history of batches / rulesets; delta decomposition: a match is fired by the semi-naive variants iff it is not all-old, '
                   'and then by exactly one variant; old = not new for the emitted constraints; a never-run '
                   "rule sees everything; rebuild rules' sole focus uses the same constraint",
 'tier_a': ['UFSeq', 'MergeArms', 'BridgeFns', 'Facts.semi_constraints', 'Facts.semi_frontier'],
 'trusted': ['translator /verif/translator: gen/SourceFacts.v records the timestamp constraints '
             'add_rules_from_cached emits (focus GeConst, earlier atoms LtConst over the prefix 0..focus); '
             'the delta-decomposition theorem is stated over them',
             'naive Gallina model coq/Egg/Rules.v tied to the engine by the correspondence check']}
