"""C16 configuration for bin/check."""

CFG = {
        "tier_a": ["UFSeq", "PureFns.scan_for_offset", "PureFns.binary_search_from", "PureFns.radix_passes_for"],
        "props_files": ["C16", "C16idx"],
        "model_targets": ["Table/Model.vo", "Index/Cases.vo"],
        "proof_targets": ["Props/C16.vo", "Props/C16idx.vo"],
        "harness": [{"bin": "h_table", "prefix": "cases_table"},
                    # parallel_insert / parallel_delete / parallel_rehash: same op sequences inside a 4-thread
                    # pool with the table-op cut-off 0, compared with the plain-map oracle only
                    {"bin": "h_table", "name": "h_table_pool", "extra": ["--pool", "4"],
                     "env": {"EGGLOG_PARALLEL_TABLE_OP_CUTOFF": "0", "EGGLOG_PARALLEL_DB_LEVEL_OP_CUTOFF": "0",
                             "EGGLOG_PARALLEL_INDEX_CONSTRUCTION_CUTOFF": "0"}},
                    # index construction / subset search algorithms through hook H6 (radix sort, gallop and
                    # binary search of SortedOffsetSlice, merge2_into): kernel-evaluated cases + predicates
                    {"bin": "h_index", "prefix": "cases_index"}],
        "trusted": [
            "hand-written Gallina model coq/Table/Model.v of SortedWritesTable (serial paths, one shard) and DisplacedTable; tied to the code by the h_table correspondence (same op sequences, physical row ids / physical length / generation compared)",
            "translator /verif/translator for the union-find inside the DisplacedTable model (gen/UFSeq.v)",
            "translator module purefn.rs (integer / slice routines over N, fail-closed): gen/PureFns.v holds radix_passes_for, SortedOffsetSlice::scan_for_offset and ::binary_search_from as written now; Section variable std_binary_search constrained only by bs_contract ([T]::binary_search documented contract, inhabited by two executable instances); hand models Index/RadixModel.v (array level) and Index/MergeModel.v tied by h_index through hook H6",
        ],
        "theorem_backed": "index algorithms (Props/C16idx.v): scan_for_offset / binary_search_from (regenerated) return, for every sorted slice, start and target, the first index >= start holding the target or the insertion point, no panic, within 2*len+2 iterations, independent of the library binary search's tie-break; radix-sorted index blocks are sorted permutations (pass count regenerated). SortedWritesTable model: for every op sequence (stage_insert/stage_remove/merge/clear/reads) and every merge function that keeps the key and the incoming sort value, the physical state (append-only rows with stale marks, hash of row ids, offsets, pending queues, rehash above the stale threshold) refines the plain map spec; get_row = map lookup; scans return each live row exactly once and nothing else; fast_subset on the sort column is exact for all five comparison kinds (offsets invariant); rehash preserves the abstraction and bumps the generation; with non-decreasing staged sort values no op sequence panics (the sort-order assertion is the only panic). DisplacedTable model (repaired clear, finding F8): for every op sequence incl. clear, get_row and (constrained) scans never panic and answer as the map displaced id -> (id, canonical id, ts), each id once",
        "link_only": "index-backed reads (Index/ColumnIndex refresh after merges, rehash and clear; merge_all's touched-set reset) are exercised by one-atom RuleSet queries with all constraint kinds and compared with the plain-map oracle by the harness only (hash_index: only its radix sort / merge2 / pass count are modelled, see Props/C02idx.v; merge_sorted_blocks_dedup, build_subsets_from_sorted and the intersection loops are not); refine / refine_ref / scan_project (chunked) / get_row_column / estimate_size likewise compared with the oracle only; DisplacedTable::fast_subset (timestamp_bounds) is modelled and cross-checked but has no exactness theorem. parallel_insert / parallel_delete / parallel_rehash (multi-shard paths, 4-thread pool, cut-offs 0) are exercised against the plain-map oracle only, for merge functions that are associative in every column (the parallel path pre-merges a batch, which legitimately changes which sort value a payload-preserving merge keeps). NOT covered at all: apply_rebuild / refresh_rows_for_values (value-level rebuilds), clone, two-atom joins, SubsetTracker",
        "assumptions": [
            "values are unbounded nat; Value::stale() (u32::MAX) never occurs as data",
            "one shard (no thread pool installed): pending buffers are applied in staging order",
            "rows have the table's arity (RowBuffer asserts it); column reads out of range are modelled as 0",
            "rehash's per-row in-place remap of hash entries is modelled as one simultaneous renaming",
        ],
    }
