(** Proofs about the model of [EGraph::serialize] (Egg/Serialize.v): with the default
    configuration the function nodes of the serialised graph are exactly the rows of the dump,
    every node sits in the canonical class of its row's output, every child is a node of the graph
    whose e-class is the canonical class of the argument; on a state satisfying the C04 invariant
    the class ids are the stored ids themselves and two nodes share a class iff plain lookups of
    their keys return the same value. *)
From Coq Require Import List Arith ZArith Bool PeanoNat Lia.
Import ListNotations.
Require Import Verif.Base.Res Verif.gen.UFSeq Verif.UF.Seq Verif.Egg.Model Verif.Egg.CCDefs
  Verif.Egg.Rules Verif.Egg.RulesProofs Verif.Egg.Serialize.

(* ------------------------------------------------------------------ *)
(** * insertion-ordered maps *)
Section AssocFacts.
  Context {K V : Type} (dec : forall a b : K, {a = b} + {a <> b}).

  Lemma aget_aput_same (l : list (K * V)) k v : aget dec (aput dec l k v) k = Some v.
  Proof.
    induction l as [|[k0 v0] tl IH]; simpl.
    - destruct (dec k k); congruence.
    - destruct (dec k0 k) as [e|ne]; simpl.
      + destruct (dec k0 k); congruence.
      + destruct (dec k0 k); [contradiction|exact IH].
  Qed.

  Lemma aget_aput_other (l : list (K * V)) k k' v : k <> k' ->
    aget dec (aput dec l k v) k' = aget dec l k'.
  Proof.
    intros Hne. induction l as [|[k0 v0] tl IH]; simpl.
    - destruct (dec k k'); congruence.
    - destruct (dec k0 k) as [e|ne]; simpl.
      + destruct (dec k0 k'); [congruence|reflexivity].
      + destruct (dec k0 k'); [reflexivity|exact IH].
  Qed.
End AssocFacts.

Lemma NoDup_map_inj {A B} (g : A -> B) l a b :
  NoDup (map g l) -> In a l -> In b l -> g a = g b -> a = b.
Proof.
  induction l as [|x tl IH]; simpl; intros ND Ha Hb E; [contradiction|].
  inversion ND as [|? ? Hnin ND']; subst.
  destruct Ha as [->|Ha], Hb as [->|Hb]; auto.
  - exfalso. apply Hnin. rewrite E. apply in_map. exact Hb.
  - exfalso. apply Hnin. rewrite <- E. apply in_map. exact Ha.
Qed.

Lemma NoDup_app_intro {A} (l1 l2 : list A) :
  NoDup l1 -> NoDup l2 -> (forall x, In x l1 -> In x l2 -> False) -> NoDup (l1 ++ l2).
Proof.
  induction l1 as [|a tl IH]; simpl; intros N1 N2 D; [exact N2|].
  inversion N1; subst. constructor.
  - rewrite in_app_iff. intros [H|H]; [contradiction|]. eapply D; [left; reflexivity|exact H].
  - apply IH; auto. intros x H1' H2'. eapply D; [right; exact H1'|exact H2'].
Qed.

Ltac splits := lazymatch goal with |- _ /\ _ => split; [|splits] | _ => idtac end.

Definition is_fun (n : nodeid) : bool := match n with NFun _ _ => true | _ => false end.

(* ------------------------------------------------------------------ *)
(** * the node loop, for an arbitrary list of calls with distinct keys *)
Section Generic.
  Variable p : list nat.
  Variable calls : list call.
  Hypothesis keys_nodup : NoDup (map call_key calls).

  Definition key_is (n : nodeid) (k : call) : bool :=
    if nodeid_eq_dec (call_key k) n then true else false.

  (** the e-class a node id stands for, read off the id (and the call list) *)
  Definition syn_class (n : nodeid) : option classid :=
    match n with
    | NFun f off => option_map c_cls (List.find (key_is (NFun f off)) calls)
    | NPrim c => Some c
    | NDummy c => Some c
    end.

  Lemma find_key k : In k calls -> List.find (key_is (call_key k)) calls = Some k.
  Proof.
    intros Hin. destruct (List.find (key_is (call_key k)) calls) as [k'|] eqn:E.
    - apply find_some in E. destruct E as [Hin' Hk]. unfold key_is in Hk.
      destruct (nodeid_eq_dec (call_key k') (call_key k)) as [e|]; [|discriminate].
      f_equal. eapply NoDup_map_inj; eauto.
    - eapply find_none in E; [|exact Hin]. unfold key_is in E.
      destruct (nodeid_eq_dec (call_key k) (call_key k)); congruence.
  Qed.

  Lemma syn_class_call k : In k calls -> syn_class (call_key k) = Some (c_cls k).
  Proof.
    intros Hin. pose proof (find_key k Hin) as E. unfold call_key in *. simpl. rewrite E. reflexivity.
  Qed.

  Lemma syn_class_fun f off c : syn_class (NFun f off) = Some c ->
    exists k, In k calls /\ call_key k = NFun f off /\ c_cls k = c.
  Proof.
    simpl. destruct (List.find (key_is (NFun f off)) calls) as [k|] eqn:E; simpl; [|discriminate].
    intros H. injection H as <-. apply find_some in E. destruct E as [Hin Hk]. unfold key_is in Hk.
    destruct (nodeid_eq_dec (call_key k) (NFun f off)); [|discriminate]. eauto.
  Qed.

  Notation nmap := (list (nodeid * node)).
  Definition present (nodes : nmap) (n : nodeid) : Prop := aget nodeid_eq_dec nodes n <> None.
  Definition good_child (nodes : nmap) (n : nodeid) (c : classid) : Prop :=
    syn_class n = Some c /\ (is_fun n = false -> present nodes n).
  Definition ids_ok (ids : idmap) (nodes : nmap) : Prop :=
    forall c l, aget classid_eq_dec ids c = Some l ->
      l <> [] /\ forall n, In n l -> good_child nodes n c.
  Definition nodes_ok (nodes : nmap) : Prop :=
    forall n nd, aget nodeid_eq_dec nodes n = Some nd -> syn_class n = Some (n_class nd).
  Definition mono (a b : nmap) : Prop := forall n, present a n -> present b n.
  Definition funs_same (a b : nmap) : Prop :=
    forall f off, aget nodeid_eq_dec b (NFun f off) = aget nodeid_eq_dec a (NFun f off).

  Lemma mono_refl a : mono a a. Proof. intros n H; exact H. Qed.
  Lemma mono_trans a b c : mono a b -> mono b c -> mono a c.
  Proof. intros H1 H2 n H. apply H2, H1, H. Qed.
  Lemma funs_same_refl a : funs_same a a. Proof. intros f off; reflexivity. Qed.
  Lemma funs_same_trans a b c : funs_same a b -> funs_same b c -> funs_same a c.
  Proof. intros H1 H2 f off. rewrite H2. apply H1. Qed.

  Lemma good_child_mono a b n c : mono a b -> good_child a n c -> good_child b n c.
  Proof. intros Hm [H1 H2]. split; [exact H1|]. intros Hf. apply Hm, H2, Hf. Qed.

  Lemma ids_ok_mono ids a b : mono a b -> ids_ok ids a -> ids_ok ids b.
  Proof.
    intros Hm H c l E. destruct (H c l E) as [Hne Hall]. split; [exact Hne|].
    intros n Hin. eapply good_child_mono; eauto.
  Qed.

  Lemma mono_aput nodes k nd : mono nodes (aput nodeid_eq_dec nodes k nd).
  Proof.
    intros n H. unfold present in *. destruct (nodeid_eq_dec k n) as [->|ne].
    - rewrite aget_aput_same. discriminate.
    - rewrite aget_aput_other by exact ne. exact H.
  Qed.

  (** adding a primitive / dummy node of class [c] under its own id *)
  Lemma add_leaf_ok nodes k nd c :
    is_fun k = false -> syn_class k = Some c -> n_class nd = c -> nodes_ok nodes ->
    let nodes' := aput nodeid_eq_dec nodes k nd in
    nodes_ok nodes' /\ mono nodes nodes' /\ funs_same nodes nodes' /\ good_child nodes' k c.
  Proof.
    intros Hf Hs Hc Hok nodes'. splits.
    - intros n nd' E. unfold nodes' in E. destruct (nodeid_eq_dec k n) as [->|ne].
      + rewrite aget_aput_same in E. injection E as <-. rewrite Hc. exact Hs.
      + rewrite aget_aput_other in E by exact ne. apply Hok. exact E.
    - apply mono_aput.
    - intros f off. unfold nodes'. apply aget_aput_other. intros ->. discriminate.
    - split; [exact Hs|]. intros _. unfold present, nodes'. rewrite aget_aput_same. discriminate.
  Qed.

  Lemma in_rotl {A} (l : list A) x : In x (rotl l) -> In x l.
  Proof. destruct l as [|a tl]; simpl; [tauto|]. rewrite in_app_iff. simpl. tauto. Qed.

  Lemma rotl_nonempty {A} (l : list A) : l <> [] -> rotl l <> [].
  Proof. destruct l as [|a tl]; [congruence|]. intros _. simpl. destruct tl; discriminate. Qed.

  Lemma ser_value_ok st c st' n :
    ser_value st c = (st', n) -> ids_ok (s_ids st) (s_nodes st) -> nodes_ok (s_nodes st) ->
    ids_ok (s_ids st') (s_nodes st') /\ nodes_ok (s_nodes st') /\ good_child (s_nodes st') n c /\
    mono (s_nodes st) (s_nodes st') /\ funs_same (s_nodes st) (s_nodes st').
  Proof.
    unfold ser_value. destruct c as [i|z|].
    - destruct (aget classid_eq_dec (s_ids st) (CEq i)) as [l|] eqn:El; intros E Hids Hnodes.
      + injection E as <- <-. simpl. destruct (Hids _ _ El) as [Hne Hall].
        splits; try exact Hnodes; try apply mono_refl; try apply funs_same_refl.
        * intros c' l' E'. destruct (classid_eq_dec (CEq i) c') as [<-|ne].
          -- rewrite aget_aput_same in E'. injection E' as <-. split; [apply rotl_nonempty; exact Hne|].
             intros n Hin. apply Hall. apply in_rotl. exact Hin.
          -- rewrite aget_aput_other in E' by exact ne. apply Hids. exact E'.
        * apply Hall. apply in_rotl. pose proof (rotl_nonempty l Hne) as H.
          destruct (rotl l); [congruence|]. left. reflexivity.
      + injection E as <- <-. simpl.
        destruct (add_leaf_ok (s_nodes st) (NDummy (CEq i)) (mkNode OpDummy (CEq i) [] false) (CEq i)
                    eq_refl eq_refl eq_refl Hnodes) as (H1 & H2 & H3 & H4).
        splits; try assumption.
        intros c' l' E'. destruct (classid_eq_dec (CEq i) c') as [<-|ne].
        * rewrite aget_aput_same in E'. injection E' as <-. split; [discriminate|].
          intros n [<-|[]]. exact H4.
        * rewrite aget_aput_other in E' by exact ne.
          eapply (ids_ok_mono _ _ _ H2 Hids). exact E'.
    - intros E Hids Hnodes. injection E as <- <-. simpl.
      destruct (add_leaf_ok (s_nodes st) (NPrim (CInt z)) (mkNode (OpInt z) (CInt z) [] false) (CInt z)
                  eq_refl eq_refl eq_refl Hnodes) as (H1 & H2 & H3 & H4).
      splits; try assumption. eapply ids_ok_mono; eauto.
    - intros E Hids Hnodes. injection E as <- <-. simpl.
      destruct (add_leaf_ok (s_nodes st) (NPrim CUnit) (mkNode OpUnit CUnit [] false) CUnit
                  eq_refl eq_refl eq_refl Hnodes) as (H1 & H2 & H3 & H4).
      splits; try assumption. eapply ids_ok_mono; eauto.
  Qed.

  Lemma ser_values_ok : forall cs st st' ns,
    ser_values st cs = (st', ns) -> ids_ok (s_ids st) (s_nodes st) -> nodes_ok (s_nodes st) ->
    ids_ok (s_ids st') (s_nodes st') /\ nodes_ok (s_nodes st') /\
    Forall2 (good_child (s_nodes st')) ns cs /\
    mono (s_nodes st) (s_nodes st') /\ funs_same (s_nodes st) (s_nodes st').
  Proof.
    induction cs as [|c tl IH]; intros st st' ns E Hids Hnodes; simpl in E.
    - injection E as <- <-. splits; auto using mono_refl, funs_same_refl, Forall2_nil.
    - destruct (ser_value st c) as [st1 n] eqn:E1.
      destruct (ser_values st1 tl) as [st2 ns'] eqn:E2. injection E as <- <-.
      destruct (ser_value_ok _ _ _ _ E1 Hids Hnodes) as (A1 & A2 & A3 & A4 & A5).
      destruct (IH _ _ _ E2 A1 A2) as (B1 & B2 & B3 & B4 & B5).
      splits; auto.
      + constructor; [eapply good_child_mono; eauto|exact B3].
      + eapply mono_trans; eauto.
      + eapply funs_same_trans; eauto.
  Qed.

  Lemma Forall2_impl' {A B} (P Q : A -> B -> Prop) l1 l2 :
    (forall a b, P a b -> Q a b) -> Forall2 P l1 l2 -> Forall2 Q l1 l2.
  Proof. intros H F. induction F; constructor; auto. Qed.

  Definition call_node (nodes : nmap) (k : call) : Prop :=
    exists ch, aget nodeid_eq_dec nodes (call_key k)
               = Some (mkNode (OpFun (c_f k)) (c_cls k) ch (c_sub k)) /\
               Forall2 (good_child nodes) ch (map (class_of p) (c_args k)).

  Lemma ser_call_ok st k :
    In k calls -> ids_ok (s_ids st) (s_nodes st) -> nodes_ok (s_nodes st) ->
    let st' := ser_call p st k in
    ids_ok (s_ids st') (s_nodes st') /\ nodes_ok (s_nodes st') /\ mono (s_nodes st) (s_nodes st') /\
    call_node (s_nodes st') k /\
    (forall f off, NFun f off <> call_key k ->
       aget nodeid_eq_dec (s_nodes st') (NFun f off) = aget nodeid_eq_dec (s_nodes st) (NFun f off)).
  Proof.
    intros Hin Hids Hnodes. unfold ser_call.
    destruct (ser_value st (c_cls k)) as [st1 n0] eqn:E1.
    destruct (ser_values st1 (map (class_of p) (c_args k))) as [st2 ch] eqn:E2. simpl.
    destruct (ser_value_ok _ _ _ _ E1 Hids Hnodes) as (A1 & A2 & _ & A4 & A5).
    destruct (ser_values_ok _ _ _ _ E2 A1 A2) as (B1 & B2 & B3 & B4 & B5).
    pose proof (mono_aput (s_nodes st2) (call_key k) (mkNode (OpFun (c_f k)) (c_cls k) ch (c_sub k))) as M.
    splits.
    - eapply ids_ok_mono; eauto.
    - intros n nd E. destruct (nodeid_eq_dec (call_key k) n) as [<-|ne].
      + rewrite aget_aput_same in E. injection E as <-. simpl. apply syn_class_call. exact Hin.
      + rewrite aget_aput_other in E by exact ne. apply B2. exact E.
    - eapply mono_trans; [exact A4|]. eapply mono_trans; [exact B4|exact M].
    - exists ch. split; [apply aget_aput_same|].
      eapply Forall2_impl'; [|exact B3]. intros a b H. eapply good_child_mono; eauto.
    - intros f off Hne. rewrite aget_aput_other by congruence. rewrite B5. apply A5.
  Qed.

  Lemma call_node_mono a b k :
    mono a b -> aget nodeid_eq_dec b (call_key k) = aget nodeid_eq_dec a (call_key k) ->
    call_node a k -> call_node b k.
  Proof.
    intros Hm E (ch & H1 & H2). exists ch. split; [rewrite E; exact H1|].
    eapply Forall2_impl'; [|exact H2]. intros x y H. eapply good_child_mono; eauto.
  Qed.

  Lemma ser_calls_ok : forall todo st,
    (forall k, In k todo -> In k calls) -> NoDup (map call_key todo) ->
    ids_ok (s_ids st) (s_nodes st) -> nodes_ok (s_nodes st) ->
    let st' := ser_calls p todo st in
    ids_ok (s_ids st') (s_nodes st') /\ nodes_ok (s_nodes st') /\ mono (s_nodes st) (s_nodes st') /\
    (forall k, In k todo -> call_node (s_nodes st') k) /\
    (forall f off, ~ In (NFun f off) (map call_key todo) ->
       aget nodeid_eq_dec (s_nodes st') (NFun f off) = aget nodeid_eq_dec (s_nodes st) (NFun f off)).
  Proof.
    induction todo as [|k tl IH]; intros st Hsub ND Hids Hnodes; simpl.
    - splits; auto using mono_refl; try (intros k []).
    - inversion ND as [|? ? Hnin ND']; subst.
      destruct (ser_call_ok st k (Hsub k (or_introl eq_refl)) Hids Hnodes) as (A1 & A2 & A3 & A4 & A5).
      destruct (IH (ser_call p st k) (fun k' H => Hsub k' (or_intror H)) ND' A1 A2)
        as (B1 & B2 & B3 & B4 & B5).
      splits; auto.
      + eapply mono_trans; eauto.
      + intros k' [<-|Hin]; [|apply B4; exact Hin].
        eapply call_node_mono; [exact B3| |exact A4].
        unfold call_key in *. apply B5. exact Hnin.
      + intros f off Hn. rewrite B5 by (intros H; apply Hn; right; exact H).
        apply A5. intros H. apply Hn. left. symmetry. exact H.
  Qed.

  (** the initial node-id map: only keys of calls, filed under their class *)
  Definition ids_init_ok (m : idmap) : Prop :=
    forall c l, aget classid_eq_dec m c = Some l ->
      l <> [] /\ forall n, In n l -> syn_class n = Some c /\ is_fun n = true.

  Lemma ids_push_ok m c n :
    ids_init_ok m -> syn_class n = Some c -> is_fun n = true -> ids_init_ok (ids_push m c n).
  Proof.
    intros Hm Hs Hf c' l' E. unfold ids_push in E.
    destruct (aget classid_eq_dec m c) as [l|] eqn:El.
    - destruct (classid_eq_dec c c') as [<-|ne].
      + rewrite aget_aput_same in E. injection E as <-. destruct (Hm _ _ El) as [_ Hall].
        split; [destruct l; discriminate|]. intros x Hin. apply in_app_iff in Hin.
        destruct Hin as [Hin|[<-|[]]]; auto.
      + rewrite aget_aput_other in E by exact ne. apply Hm. exact E.
    - destruct (classid_eq_dec c c') as [<-|ne].
      + rewrite aget_aput_same in E. injection E as <-. split; [discriminate|].
        intros x [<-|[]]. auto.
      + rewrite aget_aput_other in E by exact ne. apply Hm. exact E.
  Qed.

  Lemma init_ids_ok : forall cs m,
    (forall k, In k cs -> In k calls) -> ids_init_ok m -> ids_init_ok (init_ids cs m).
  Proof.
    induction cs as [|k tl IH]; intros m Hsub Hm; simpl; [exact Hm|].
    apply IH; [intros k' H; apply Hsub; right; exact H|].
    destruct (is_ceq (c_cls k)); [|exact Hm].
    apply ids_push_ok; [exact Hm| |reflexivity].
    apply syn_class_call. apply Hsub. left. reflexivity.
  Qed.

  (** the result of the whole loop *)
  Definition final : sst := ser_calls p calls (mkS [] (init_ids calls []) []).


  Lemma ids_init_nil : ids_init_ok [].
  Proof. intros c l E. simpl in E. discriminate. Qed.

  Lemma final_ok :
    nodes_ok (s_nodes final) /\
    (forall k, In k calls -> call_node (s_nodes final) k) /\
    (forall f off, ~ In (NFun f off) (map call_key calls) ->
       aget nodeid_eq_dec (s_nodes final) (NFun f off) = None).
  Proof.
    assert (Hids : ids_ok (init_ids calls []) []).
    { intros c l E.
      destruct (init_ids_ok calls [] (fun k H => H) ids_init_nil c l E) as [Hne Hall].
      split; [exact Hne|]. intros n Hin. destruct (Hall n Hin) as [H1 H2].
      split; [exact H1|]. intros Hf. congruence. }
    assert (Hnodes : nodes_ok []) by (intros n nd E; discriminate E).
    destruct (ser_calls_ok calls (mkS [] (init_ids calls []) []) (fun k H => H) keys_nodup Hids Hnodes)
      as (_ & B2 & _ & B4 & B5).
    unfold final. split; [exact B2|split; [exact B4|]].
    intros f off Hn. rewrite B5 by exact Hn. reflexivity.
  Qed.

  (** a good child is a node of the final graph, in the class it stands for *)
  Lemma good_child_found n c : good_child (s_nodes final) n c ->
    exists cn, aget nodeid_eq_dec (s_nodes final) n = Some cn /\ n_class cn = c.
  Proof.
    destruct final_ok as (Hok & Hcalls & _). intros [Hs Hp].
    destruct n as [f off|c'|c'].
    - destruct (syn_class_fun f off c Hs) as (k & Hin & Hk & Hc).
      destruct (Hcalls k Hin) as (ch & E & _). rewrite Hk in E.
      eexists. split; [exact E|]. exact Hc.
    - specialize (Hp eq_refl). unfold present in Hp.
      destruct (aget nodeid_eq_dec (s_nodes final) (NPrim c')) as [cn|] eqn:E; [|congruence].
      exists cn. split; [reflexivity|]. apply Hok in E. rewrite Hs in E. congruence.
    - specialize (Hp eq_refl). unfold present in Hp.
      destruct (aget nodeid_eq_dec (s_nodes final) (NDummy c')) as [cn|] eqn:E; [|congruence].
      exists cn. split; [reflexivity|]. apply Hok in E. rewrite Hs in E. congruence.
  Qed.
End Generic.

(* ------------------------------------------------------------------ *)
(** * the calls of the default configuration are the rows *)
Section Default.
  Variable p : list nat.
  Variable outs : list okind.

  Definition row_call (f off : nat) (r : row) : call :=
    mkCall f off (rargs r) (rsub r) (out_class p (nth f outs OEq) (rret r)).

  Fixpoint calls_from (f : nat) (ts : list table) : list call :=
    match ts with
    | [] => []
    | t :: tl => mk_calls p (nth f outs OEq) f 0 t ++ calls_from (S f) tl
    end.

  Lemma collect_default : forall ts f kept,
    collect p outs None None f kept ts = (calls_from f ts, [], []).
  Proof.
    induction ts as [|t tl IH]; intros f kept; simpl; [reflexivity|].
    rewrite IH. reflexivity.
  Qed.

  Lemma in_mapi_from {A B} (g : nat -> A -> B) : forall l i x,
    In x (mapi_from g i l) <-> exists n a, nth_error l n = Some a /\ x = g (i + n) a.
  Proof.
    induction l as [|a tl IH]; intros i x; simpl.
    - split; [tauto|]. intros (n & a & E & _). destruct n; discriminate.
    - rewrite IH. split.
      + intros [<-|(n & b & E & ->)].
        * exists 0, a. rewrite Nat.add_0_r. auto.
        * exists (S n), b. split; [exact E|]. f_equal. lia.
      + intros (n & b & E & ->). destruct n as [|n]; simpl in E.
        * left. injection E as <-. rewrite Nat.add_0_r. reflexivity.
        * right. exists n, b. split; [exact E|]. f_equal. lia.
  Qed.

  Lemma in_calls_from : forall ts f0 k,
    In k (calls_from f0 ts) <->
    exists j t off r, nth_error ts j = Some t /\ nth_error t off = Some r /\ k = row_call (f0 + j) off r.
  Proof.
    induction ts as [|t tl IH]; intros f0 k; simpl.
    - split; [tauto|]. intros (j & t & off & r & E & _). destruct j; discriminate.
    - rewrite in_app_iff, IH. unfold mk_calls. rewrite in_mapi_from. split.
      + intros [(n & r & E & ->)|(j & t' & off & r & E1 & E2 & ->)].
        * exists 0, t, n, r. rewrite Nat.add_0_r. simpl. auto.
        * exists (S j), t', off, r. simpl. repeat split; auto. f_equal. lia.
      + intros (j & t' & off & r & E1 & E2 & ->). destruct j as [|j]; simpl in E1.
        * left. injection E1 as <-. exists off, r. rewrite Nat.add_0_r. simpl. auto.
        * right. exists j, t', off, r. repeat split; auto. f_equal. lia.
  Qed.

  Lemma keys_mapi_ge f : forall t i o,
    In (NFun f o) (map call_key (mapi_from (row_call f) i t)) -> i <= o.
  Proof.
    induction t as [|r tl IH]; intros i o; simpl; [tauto|].
    intros [E|H]; [injection E as <-; lia|]. apply IH in H. lia.
  Qed.

  Lemma keys_mapi_nodup f : forall t i, NoDup (map call_key (mapi_from (row_call f) i t)).
  Proof.
    induction t as [|r tl IH]; intros i; simpl; constructor; [|apply IH].
    intros H. unfold call_key at 1 in H. simpl in H. apply keys_mapi_ge in H. lia.
  Qed.

  Lemma keys_calls_from_ge : forall ts f0 f o,
    In (NFun f o) (map call_key (calls_from f0 ts)) -> f0 <= f.
  Proof.
    intros ts f0 f o H. apply in_map_iff in H. destruct H as (k & Hk & Hin).
    apply in_calls_from in Hin. destruct Hin as (j & t & off & r & _ & _ & ->).
    unfold call_key in Hk. simpl in Hk. injection Hk as <- _. lia.
  Qed.

  Lemma keys_calls_from_nodup : forall ts f0, NoDup (map call_key (calls_from f0 ts)).
  Proof.
    induction ts as [|t tl IH]; intros f0; simpl; [constructor|].
    rewrite map_app. apply NoDup_app_intro; [apply keys_mapi_nodup|apply IH|].
    intros x H1 H2. apply in_map_iff in H1. destruct H1 as (k & <- & Hin).
    unfold mk_calls in Hin. apply in_mapi_from in Hin. destruct Hin as (n & r & _ & ->).
    unfold call_key in H2. simpl in H2. apply keys_calls_from_ge in H2. lia.
  Qed.

  Variable ts : list table.
  Let g := serialize_default outs p ts.

  Lemma g_nodes : o_nodes g = s_nodes (final p (calls_from 0 ts)).
  Proof.
    unfold g, serialize_default, serialize. rewrite collect_default. reflexivity.
  Qed.

  Definition child_ok (x : nodeid) (v : val) : Prop :=
    exists cn, find_node g x = Some cn /\ n_class cn = class_of p v.

  (** every row is a node: op, e-class of the canonicalised output, subsumed flag; every child is
      a node of the graph in the canonical class of the argument *)
  Theorem ser_rows_are_nodes f off r :
    nth_error (get_tab ts f) off = Some r ->
    exists ch, find_node g (NFun f off)
               = Some (mkNode (OpFun f) (out_class p (nth f outs OEq) (rret r)) ch (rsub r)) /\
               Forall2 child_ok ch (rargs r).
  Proof.
    intros E. pose proof (keys_calls_from_nodup ts 0) as ND.
    destruct (final_ok p (calls_from 0 ts) ND) as (_ & Hcalls & _).
    assert (Hin : In (row_call f off r) (calls_from 0 ts)).
    { apply in_calls_from. unfold get_tab in E.
      destruct (nth_error ts f) as [t|] eqn:Et.
      - exists f, t, off, r. repeat split; auto.
        rewrite (nth_error_nth _ _ _ Et) in E. exact E.
      - apply nth_error_None in Et. rewrite nth_overflow in E by exact Et. destruct off; discriminate. }
    destruct (Hcalls _ Hin) as (ch & E1 & E2). simpl in E1, E2.
    exists ch. unfold find_node. rewrite g_nodes. split; [exact E1|].
    clear E1. revert E2. generalize (rargs r). intros args E2.
    remember (map (class_of p) args) as cs eqn:Hcs. revert args Hcs.
    induction E2 as [|x c l l' Hg _ IH]; intros args Hcs.
    - destruct args; [constructor|discriminate].
    - destruct args as [|v vs]; [discriminate|]. simpl in Hcs. injection Hcs as -> ->.
      constructor; [|apply IH; reflexivity].
      destruct (good_child_found p _ ND _ _ Hg) as (cn & A & B).
      exists cn. unfold find_node. rewrite g_nodes. auto.
  Qed.

  (** every function node is a row *)
  Theorem ser_nodes_are_rows f off nd :
    find_node g (NFun f off) = Some nd -> exists r, nth_error (get_tab ts f) off = Some r.
  Proof.
    intros E. pose proof (keys_calls_from_nodup ts 0) as ND.
    destruct (final_ok p (calls_from 0 ts) ND) as (_ & _ & Hnone).
    unfold find_node in E. rewrite g_nodes in E.
    destruct (in_dec nodeid_eq_dec (NFun f off) (map call_key (calls_from 0 ts))) as [Hin|Hn].
    - apply in_map_iff in Hin. destruct Hin as (k & Hk & Hin).
      apply in_calls_from in Hin. destruct Hin as (j & t & o & r & E1 & E2 & ->).
      unfold call_key in Hk. simpl in Hk. injection Hk as <- <-.
      exists r. unfold get_tab. rewrite (nth_error_nth _ _ _ E1). exact E2.
    - rewrite (Hnone _ _ Hn) in E. discriminate.
  Qed.

  (** every node of the graph sits in the class its id names; primitive / dummy nodes carry it *)
  Theorem ser_leaf_class n nd : find_node g n = Some nd ->
    match n with NPrim c | NDummy c => n_class nd = c | NFun _ _ => True end.
  Proof.
    intros E. pose proof (keys_calls_from_nodup ts 0) as ND.
    destruct (final_ok p (calls_from 0 ts) ND) as (Hok & _ & _).
    unfold find_node in E. rewrite g_nodes in E. apply Hok in E.
    destruct n; simpl in E; [exact I| |]; congruence.
  Qed.
End Default.

(* ------------------------------------------------------------------ *)
(** * on a state satisfying the C04 invariant *)

Definition ser_agrees (outs : list okind) (s : state) : Prop :=
  let g := serialize_default outs (uf s) (tabs s) in
  (forall f off nd, find_node g (NFun f off) = Some nd ->
     exists r, nth_error (get_tab (tabs s) f) off = Some r) /\
  (forall f off r, nth_error (get_tab (tabs s) f) off = Some r ->
     exists ch, find_node g (NFun f off)
                = Some (mkNode (OpFun f) (out_class (uf s) (nth f outs OEq) (rret r)) ch (rsub r)) /\
                Forall2 (fun x v => exists cn, find_node g x = Some cn /\
                                               n_class cn = class_of (uf s) v) ch (rargs r)) /\
  (forall f r i, In r (get_tab (tabs s) f) -> (In (VId i) (rargs r) \/ rret r = VId i) ->
     class_of (uf s) (VId i) = CEq i) /\
  (forall f1 r1 f2 r2 i1 i2, In r1 (get_tab (tabs s) f1) -> In r2 (get_tab (tabs s) f2) ->
     rret r1 = VId i1 -> rret r2 = VId i2 ->
     (class_of (uf s) (rret r1) = class_of (uf s) (rret r2) <->
      option_map rret (tab_lookup (get_tab (tabs s) f1) (rargs r1))
      = option_map rret (tab_lookup (get_tab (tabs s) f2) (rargs r2)))).

Theorem ser_agrees_of_inv n outs s : c04_inv n s -> ser_agrees outs s.
Proof.
  intros (HI & _ & _ & Hcan & Hfun & _). unfold ser_agrees. splits.
  - intros f off nd E. eapply ser_nodes_are_rows. exact E.
  - intros f off r E. apply ser_rows_are_nodes. exact E.
  - intros f r i Hin Hi. simpl. destruct (Hcan f r i Hin Hi) as (_ & _ & E). rewrite E. reflexivity.
  - intros f1 r1 f2 r2 i1 i2 H H0 H1 H2. split; intros E.
    + rewrite (tab_lookup_func _ _ (Hfun f1) H), (tab_lookup_func _ _ (Hfun f2) H0). simpl.
      destruct (Hcan f1 r1 i1 H (or_intror H1)) as (_ & _ & E1).
      destruct (Hcan f2 r2 i2 H0 (or_intror H2)) as (_ & _ & E2).
      rewrite H1, H2 in *. simpl in E.
      rewrite E1, E2 in E. injection E as ->. reflexivity.
    + rewrite (tab_lookup_func _ _ (Hfun f1) H), (tab_lookup_func _ _ (Hfun f2) H0) in E.
      simpl in E. injection E as E. rewrite E. reflexivity.
Qed.

(** every state the rule interpreter visits — error points included *)
Theorem serialize_agrees_visited n sg ks s outs : visited sg n ks s -> ser_agrees outs s.
Proof. intros H. eapply ser_agrees_of_inv. eapply x_inv_visited. exact H. Qed.

(* ------------------------------------------------------------------ *)
(** * non-vacuity: a state with a shared class, a subsumed row and a class without nodes *)
Module SEx.
  Definition ts : list table :=
    [ [mkRow [] (VId 0) false; mkRow [] (VId 0) false] ;   (* never functional: only for the run below *)
      [mkRow [VId 0; VInt 5] (VId 1) true; mkRow [VId 3; VInt 5] (VId 1) false] ;
      [mkRow [VId 1] (VInt 7) false] ;
      [mkRow [VId 1] (VInt 0) false] ].
  Definition outs := [OEq; OEq; OInt; OUnit].
  Definition g := serialize_default outs [0; 1; 1; 3] ts.

  (** two nodes share class 0; the subsumed row keeps its flag; id 2 is canonicalised to class 1
      nowhere (it is not stored), id 3 has no node: a dummy node stands for its class; the i64
      function's node sits in the class of its value; rotation: the two children pointing at class
      1 pick different nodes *)
  Lemma ex_nodes :
    map fst (o_nodes g)
    = [NFun 0 0; NFun 0 1; NPrim (CInt 5); NFun 1 0; NDummy (CEq 3); NFun 1 1; NPrim (CInt 7);
       NFun 2 0; NPrim CUnit; NFun 3 0] /\
    find_node g (NFun 1 0) = Some (mkNode (OpFun 1) (CEq 1) [NFun 0 1; NPrim (CInt 5)] true) /\
    find_node g (NFun 1 1) = Some (mkNode (OpFun 1) (CEq 1) [NDummy (CEq 3); NPrim (CInt 5)] false) /\
    find_node g (NFun 2 0) = Some (mkNode (OpFun 2) (CInt 7) [NFun 1 1] false) /\
    find_node g (NFun 3 0) = Some (mkNode (OpFun 3) CUnit [NFun 1 0] false) /\
    o_cdata g = [CEq 0; CEq 1; CInt 5; CEq 3; CInt 7; CUnit].
  Proof. vm_compute. repeat split; reflexivity. Qed.

  (** max_functions = 2, max_calls_per_function = 1 *)
  Lemma ex_limited :
    let g' := serialize (Some 2) (Some 1) outs [0; 1; 1; 3] ts in
    map fst (o_nodes g') = [NFun 0 0; NPrim (CInt 5); NFun 1 0] /\ o_trunc g' = [0; 1] /\ o_disc g' = [2; 3].
  Proof. vm_compute. repeat split; reflexivity. Qed.
End SEx.
