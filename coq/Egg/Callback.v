(** C05 / C13: facts about the definitions REGENERATED from egglog-bridge/src/lib.rs into
    gen/SchemaFns.v: the column arithmetic of [SchemaMath], [write_table_row], the arms of
    [ResolvedMergeFn::run] and the closure of [MergeFn::to_callback]. *)
From Coq Require Import List Arith PeanoNat NArith Bool Lia.
Import ListNotations.
Require Import Verif.Base.Res Verif.Egg.SchemaPrelude Verif.gen.SchemaFns.
Local Open Scope N_scope.

(* ------------------------------------------------------------------ column arithmetic *)

(** a function has at least its return column *)
Definition sm_wf (sm : SchemaMath) : Prop := 1 <= sm_func_cols sm.

(** layout [key_0 .. key_{n-1}, ret, ts, subsume?] for ALL arities and both flag values: the key
    columns are exactly [0, num_keys); ret, ts (and subsume when enabled) are pairwise distinct,
    not key columns, inside the row width, and together with the keys they fill the row; the
    subsume column of a table without subsumption is never computed (the source asserts) *)
Lemma schema_layout sm : sm_wf sm ->
  SchemaMath_num_keys sm + 1 = sm_func_cols sm
  /\ SchemaMath_num_keys sm <= SchemaMath_ret_val_col sm
  /\ SchemaMath_ret_val_col sm < SchemaMath_ts_col sm
  /\ SchemaMath_ts_col sm < SchemaMath_table_columns sm
  /\ (if sm_subsume sm
      then exists c, SchemaMath_subsume_col sm = Ok c
                     /\ SchemaMath_ts_col sm < c /\ c < SchemaMath_table_columns sm
                     /\ SchemaMath_table_columns sm = SchemaMath_num_keys sm + 3
      else SchemaMath_subsume_col sm = Panic
           /\ SchemaMath_table_columns sm = SchemaMath_num_keys sm + 2).
Proof.
  unfold sm_wf. destruct sm as [sub fc]; cbn. intros H.
  unfold SchemaMath_num_keys, SchemaMath_ret_val_col, SchemaMath_ts_col, SchemaMath_table_columns,
    SchemaMath_subsume_col; cbn.
  repeat split; try lia.
  destruct sub; cbn.
  - exists (fc + 1). repeat split; lia.
  - split; [reflexivity | lia].
Qed.

(* ------------------------------------------------------------------ ResolvedMergeFn::run *)

Section Run.
  Variable env : menv.

  Lemma run_const v st c n ts : ResolvedMergeFn_run env (RMF_Const v) st c n ts = Ok (v, st).
  Proof. reflexivity. Qed.
  Lemma run_old st c n ts : ResolvedMergeFn_run env RMF_Old st c n ts = Ok (c, st).
  Proof. reflexivity. Qed.
  Lemma run_new st c n ts : ResolvedMergeFn_run env RMF_New st c n ts = Ok (n, st).
  Proof. reflexivity. Qed.

  (** :no-merge: the value is always the OLD one; the panic function is called exactly when the two
      values differ (it is an external function that records the error and returns None) *)
  Lemma run_asserteq p st c n ts : ext_call env p [] = None ->
    ResolvedMergeFn_run env (RMF_AssertEq p) st c n ts
    = Ok (c, if c =? n then st else st ++ [ECall p []]).
  Proof.
    intros Hp. cbn. destruct (c =? n); cbn; [reflexivity|].
    unfold State_call_external_func. cbn. rewrite Hp. reflexivity.
  Qed.

  (** constructors: the smaller id wins and the union (cur, new, ts) is staged into the uf table *)
  Lemma run_unionid uf st c n ts :
    ResolvedMergeFn_run env (RMF_UnionId uf) st c n ts
    = Ok (if c =? n then c else N.min c n, if c =? n then st else st ++ [EStage uf [c; n; ts]]).
  Proof. cbn. destruct (c =? n); reflexivity. Qed.

  (** a primitive merge `(p old new)`: the external function receives [old; new] IN THIS ORDER *)
  Lemma run_prim_old_new p pn st c n ts r : ext_call env p [c; n] = Some r ->
    ResolvedMergeFn_run env (RMF_Primitive p [RMF_Old; RMF_New] pn) st c n ts
    = Ok (r, st ++ [ECall p [c; n]]).
  Proof. intros H. cbn. unfold State_call_external_func. cbn. rewrite H. reflexivity. Qed.

  Lemma run_prim_new_old p pn st c n ts r : ext_call env p [n; c] = Some r ->
    ResolvedMergeFn_run env (RMF_Primitive p [RMF_New; RMF_Old] pn) st c n ts
    = Ok (r, st ++ [ECall p [n; c]]).
  Proof. intros H. cbn. unfold State_call_external_func. cbn. rewrite H. reflexivity. Qed.

  (** a failing primitive keeps the old value and calls the panic function *)
  Lemma run_prim_fails p pn st c n ts : ext_call env p [c; n] = None -> ext_call env pn [] = None ->
    ResolvedMergeFn_run env (RMF_Primitive p [RMF_Old; RMF_New] pn) st c n ts
    = Ok (c, st ++ [ECall p [c; n]] ++ [ECall pn []]).
  Proof.
    intros H Hp. cbn. unfold State_call_external_func. cbn. rewrite H. cbn. rewrite Hp.
    rewrite <- app_assoc. reflexivity.
  Qed.

  (** a nested function merge `(f old new)`: equal values short-cut (no lookup at all); otherwise
      the function is looked up on [old; new] in this order *)
  Lemma run_function_old_new f pn st c n ts :
    ResolvedMergeFn_run env (RMF_Function f [RMF_Old; RMF_New] pn) st c n ts
    = if c =? n then Ok (c, st)
      else match tab_lookup_or_insert env f [c; n] with
           | Some r => Ok (r, st ++ [ELookup f [c; n]])
           | None => match ext_call env pn [] with
                     | None => Ok (c, (st ++ [ELookup f [c; n]]) ++ [ECall pn []])
                     | Some _ => Panic
                     end
           end.
  Proof.
    cbn. destruct (c =? n); [reflexivity|]. unfold TableAction_lookup_or_insert. cbn.
    destruct (tab_lookup_or_insert env f [c; n]); cbn; [reflexivity|].
    unfold State_call_external_func. cbn. destruct (ext_call env pn []); reflexivity.
  Qed.

  (** nesting: `(p (q old new) new)` evaluates the inner call first, on [old; new] *)
  Lemma run_prim_nested p q pn qn st c n ts r1 r2 :
    ext_call env q [c; n] = Some r1 -> ext_call env p [r1; n] = Some r2 ->
    ResolvedMergeFn_run env (RMF_Primitive p [RMF_Primitive q [RMF_Old; RMF_New] qn; RMF_New] pn) st c n ts
    = Ok (r2, (st ++ [ECall q [c; n]]) ++ [ECall p [r1; n]]).
  Proof.
    intros H1 H2. cbn. unfold State_call_external_func. cbn. rewrite H1. cbn. rewrite H2. reflexivity.
  Qed.
End Run.

(* ------------------------------------------------------------------ write_table_row *)

Lemma wtr_full sm row t s v : sm_wf sm -> sm_subsume sm = true ->
  length row = N.to_nat (SchemaMath_table_columns sm) ->
  SchemaMath_write_table_row sm row t (Some s) (Some v)
  = Ok (set_nth (set_nth (set_nth row (N.to_nat (SchemaMath_ts_col sm)) t)
                  (N.to_nat (SchemaMath_ret_val_col sm)) v) (N.to_nat (sm_func_cols sm + 1)) s).
Proof.
  intros W S L. pose proof (schema_layout sm W) as (_ & _ & H2 & H3 & H4). rewrite S in H4.
  destruct H4 as (c & Hc & H5 & H6 & _).
  unfold SchemaMath_write_table_row. rewrite resize_with_same by exact L.
  cbn. rewrite rset_ok by lia. cbn. rewrite rset_ok by (rewrite length_set_nth; lia). cbn.
  rewrite Hc. cbn.
  assert (c = sm_func_cols sm + 1) as ->.
  { unfold SchemaMath_subsume_col in Hc. rewrite S in Hc. injection Hc as <-. reflexivity. }
  rewrite rset_ok by (rewrite !length_set_nth; lia). reflexivity.
Qed.

Lemma wtr_nosub sm row t v : sm_wf sm -> sm_subsume sm = false ->
  length row = N.to_nat (SchemaMath_table_columns sm) ->
  SchemaMath_write_table_row sm row t None (Some v)
  = Ok (set_nth (set_nth row (N.to_nat (SchemaMath_ts_col sm)) t)
                  (N.to_nat (SchemaMath_ret_val_col sm)) v).
Proof.
  intros W S L. pose proof (schema_layout sm W) as (_ & _ & H2 & H3 & _).
  unfold SchemaMath_write_table_row. rewrite resize_with_same by exact L.
  cbn. rewrite rset_ok by lia. cbn. rewrite rset_ok by (rewrite length_set_nth; lia). cbn.
  rewrite S. reflexivity.
Qed.

(* ------------------------------------------------------------------ MergeFn::to_callback *)

Section CallbackSpec.
  Variable sm : SchemaMath.
  Variable run : list effect -> N -> N -> N -> Res (N * list effect).
  Hypothesis W : sm_wf sm.
  Variables cur new : list N.
  Hypothesis Lc : length cur = N.to_nat (SchemaMath_table_columns sm).
  Hypothesis Ln : length new = N.to_nat (SchemaMath_table_columns sm).

  Definition rv := N.to_nat (SchemaMath_ret_val_col sm).
  Definition tsc := N.to_nat (SchemaMath_ts_col sm).
  Definition sc := N.to_nat (sm_func_cols sm + 1).

  (** tables with a subsume column. The resolved merge function is run on (cur's value, new's
      value, NEW's timestamp); "changed" is reported iff the merged value differs from the CURRENT
      value or the combined flag differs from the CURRENT flag; only then a row is produced: the
      incoming row with the merged value, the incoming timestamp and the combined flag. Otherwise
      nothing is written and the table keeps the current row, OLD timestamp included. *)
  Lemma callback_sub st v st' : sm_subsume sm = true ->
    run st (nth rv cur 0) (nth rv new 0) (nth tsc new 0) = Ok (v, st') ->
    MergeFn_to_callback sm run st cur new [] =
      let flag := combine_subsumedN (nth sc cur 0) (nth sc new 0) in
      let changed := negb (nth rv cur 0 =? v) || negb (nth sc cur 0 =? flag) in
      Ok (changed, st',
          if changed then set_nth (set_nth (set_nth new tsc (nth tsc new 0)) rv v) sc flag else []).
  Proof.
    intros S Hrun. pose proof (schema_layout sm W) as (_ & _ & H2 & H3 & H4). rewrite S in H4.
    destruct H4 as (c & Hc & H5 & H6 & _).
    assert (c = sm_func_cols sm + 1) as ->.
    { unfold SchemaMath_subsume_col in Hc. rewrite S in Hc. injection Hc as <-. reflexivity. }
    unfold MergeFn_to_callback.
    rewrite (rget_ok new _ 0) by lia. cbn [bind].
    rewrite (rget_ok cur _ 0) by lia. cbn [bind].
    rewrite (rget_ok new _ 0) by lia. cbn [bind].
    fold rv tsc. rewrite Hrun. cbn [bind]. rewrite S, Hc. cbn [bind].
    rewrite (rget_ok cur _ 0) by lia. cbn [bind].
    rewrite (rget_ok new _ 0) by lia. cbn [bind].
    fold sc. cbn [orb]. cbv zeta.
    destruct (negb (nth rv cur 0 =? v) || negb (nth sc cur 0 =? combine_subsumedN (nth sc cur 0) (nth sc new 0))).
    - cbn [app]. rewrite wtr_full by assumption. reflexivity.
    - reflexivity.
  Qed.

  (** tables without a subsume column *)
  Lemma callback_nosub st v st' : sm_subsume sm = false ->
    run st (nth rv cur 0) (nth rv new 0) (nth tsc new 0) = Ok (v, st') ->
    MergeFn_to_callback sm run st cur new [] =
      let changed := negb (nth rv cur 0 =? v) in
      Ok (changed, st', if changed then set_nth (set_nth new tsc (nth tsc new 0)) rv v else []).
  Proof.
    intros S Hrun. pose proof (schema_layout sm W) as (_ & _ & H2 & H3 & _).
    unfold MergeFn_to_callback.
    rewrite (rget_ok new _ 0) by lia. cbn [bind].
    rewrite (rget_ok cur _ 0) by lia. cbn [bind].
    rewrite (rget_ok new _ 0) by lia. cbn [bind].
    fold rv tsc. rewrite Hrun. cbn [bind]. rewrite S. cbn [bind]. cbn [orb]. cbv zeta.
    destruct (negb (nth rv cur 0 =? v)).
    - cbn [app]. rewrite wtr_nosub by assumption. reflexivity.
    - reflexivity.
  Qed.
End CallbackSpec.

(* ------------------------------------------------------------------ consequences for C13 *)

Definition flagN (b : bool) : N := if b then SUBSUMED else NOT_SUBSUMED.

(** the regenerated flag combination is OR on the two flag values *)
Lemma combine_subsumedN_or a b : combine_subsumedN (flagN a) (flagN b) = flagN (orb a b).
Proof. destruct a, b; reflexivity. Qed.

(** whatever the merge function does to the value: after the callback the row that the table holds
    (the produced row if "changed", the current row otherwise) carries the COMBINED flag, so a
    subsumed current row stays subsumed and a subsumed incoming row subsumes the stored row *)
Lemma callback_flag_sticky sm run cur new st v st' :
  sm_wf sm -> sm_subsume sm = true ->
  length cur = N.to_nat (SchemaMath_table_columns sm) ->
  length new = N.to_nat (SchemaMath_table_columns sm) ->
  run st (nth (rv sm) cur 0) (nth (rv sm) new 0) (nth (tsc sm) new 0) = Ok (v, st') ->
  exists changed out, MergeFn_to_callback sm run st cur new [] = Ok (changed, st', out)
    /\ nth (sc sm) (if changed then out else cur) 0
       = combine_subsumedN (nth (sc sm) cur 0) (nth (sc sm) new 0).
Proof.
  intros W S Lc Ln Hrun. rewrite (callback_sub sm run W cur new Lc Ln st v st' S Hrun). cbv zeta.
  eexists. eexists. split; [reflexivity|].
  pose proof (schema_layout sm W) as (_ & _ & H2 & H3 & H4). rewrite S in H4.
  destruct H4 as (c & Hc & H5 & H6 & _).
  assert (c = sm_func_cols sm + 1) as ->.
  { unfold SchemaMath_subsume_col in Hc. rewrite S in Hc. injection Hc as <-. reflexivity. }
  destruct (negb (nth (rv sm) cur 0 =? v)) eqn:E1; cbn [orb].
  - rewrite nth_set_nth by (rewrite !length_set_nth; unfold sc; lia). rewrite Nat.eqb_refl. reflexivity.
  - destruct (nth (sc sm) cur 0 =? combine_subsumedN (nth (sc sm) cur 0) (nth (sc sm) new 0)) eqn:E2; cbn [negb].
    + apply N.eqb_eq in E2. exact E2.
    + rewrite nth_set_nth by (rewrite !length_set_nth; unfold sc; lia). rewrite Nat.eqb_refl. reflexivity.
Qed.

(** ... and the value column holds the merged value, the key columns are the incoming row's *)
Lemma callback_value sm run cur new st v st' :
  sm_wf sm ->
  length cur = N.to_nat (SchemaMath_table_columns sm) ->
  length new = N.to_nat (SchemaMath_table_columns sm) ->
  run st (nth (rv sm) cur 0) (nth (rv sm) new 0) (nth (tsc sm) new 0) = Ok (v, st') ->
  exists changed out, MergeFn_to_callback sm run st cur new [] = Ok (changed, st', out)
    /\ nth (rv sm) (if changed then out else cur) 0 = v
    /\ (changed = true -> firstn (N.to_nat (SchemaMath_num_keys sm)) out
                          = firstn (N.to_nat (SchemaMath_num_keys sm)) new
                          /\ nth (tsc sm) out 0 = nth (tsc sm) new 0)
    /\ (changed = false -> out = []).
Proof.
  intros W Lc Ln Hrun.
  pose proof (schema_layout sm W) as (H0 & H1 & H2 & H3 & H4).
  assert (Hfirst : forall (l : list N) i x k, (k <= i)%nat -> firstn k (set_nth l i x) = firstn k l).
  { induction l as [|a l IH]; intros [|i] x [|k] Hk; cbn; try reflexivity; try lia.
    f_equal. apply IH. lia. }
  destruct (sm_subsume sm) eqn:S.
  - destruct H4 as (c & Hc & H5 & H6 & _).
    assert (c = sm_func_cols sm + 1) as ->.
    { unfold SchemaMath_subsume_col in Hc. rewrite S in Hc. injection Hc as <-. reflexivity. }
    rewrite (callback_sub sm run W cur new Lc Ln st v st' S Hrun). cbv zeta.
    eexists. eexists. split; [reflexivity|].
    destruct (negb (nth (rv sm) cur 0 =? v) || _) eqn:E.
    + split; [|split; [|discriminate]].
      * rewrite nth_set_nth by (rewrite !length_set_nth; unfold sc; lia).
        replace (rv sm =? sc sm)%nat with false by (symmetry; apply Nat.eqb_neq; unfold rv, sc; lia).
        rewrite nth_set_nth by (rewrite !length_set_nth; unfold rv; lia). rewrite Nat.eqb_refl. reflexivity.
      * intros _. split.
        -- rewrite !Hfirst by (unfold sc, rv, tsc; lia). reflexivity.
        -- rewrite nth_set_nth by (rewrite !length_set_nth; unfold sc; lia).
           replace (tsc sm =? sc sm)%nat with false by (symmetry; apply Nat.eqb_neq; unfold tsc, sc; lia).
           rewrite nth_set_nth by (rewrite !length_set_nth; unfold rv; lia).
           replace (tsc sm =? rv sm)%nat with false by (symmetry; apply Nat.eqb_neq; unfold tsc, rv; lia).
           rewrite nth_set_nth by (unfold tsc; lia). rewrite Nat.eqb_refl. reflexivity.
    + apply orb_false_iff in E. destruct E as [E _]. apply negb_false_iff, N.eqb_eq in E.
      split; [exact E|]. split; [discriminate|reflexivity].
  - rewrite (callback_nosub sm run W cur new Lc Ln st v st' S Hrun). cbv zeta.
    eexists. eexists. split; [reflexivity|].
    destruct (negb (nth (rv sm) cur 0 =? v)) eqn:E.
    + split; [|split; [|discriminate]].
      * rewrite nth_set_nth by (rewrite !length_set_nth; unfold rv; lia). rewrite Nat.eqb_refl. reflexivity.
      * intros _. split.
        -- rewrite !Hfirst by (unfold rv, tsc; lia). reflexivity.
        -- rewrite nth_set_nth by (rewrite !length_set_nth; unfold rv; lia).
           replace (tsc sm =? rv sm)%nat with false by (symmetry; apply Nat.eqb_neq; unfold tsc, rv; lia).
           rewrite nth_set_nth by (unfold tsc; lia). rewrite Nat.eqb_refl. reflexivity.
    + apply negb_false_iff, N.eqb_eq in E. split; [exact E|]. split; [discriminate|reflexivity].
Qed.

(* ------------------------------------------------------------------ non-vacuity *)

(** a NON-commutative primitive (truncated subtraction, external function 7): the callback of a
    table f : (k) -> v with subsumption, current row (k=5, v=10, ts=3, not subsumed), incoming row
    (k=5, v=4, ts=8, subsumed): value 10 - 4 = 6 (old first), incoming timestamp, flag 1 *)
Definition ex_env : menv :=
  mkMenv (fun f args => match args with [a; b] => if f =? 7 then Some (a - b) else None | _ => None end)
         (fun _ _ => None).

Example callback_example :
  MergeFn_to_callback (mkSchemaMath true 2) (ResolvedMergeFn_run ex_env (RMF_Primitive 7 [RMF_Old; RMF_New] 9))
     [] [5; 10; 3; 0] [5; 4; 8; 1] []
  = Ok (true, [ECall 7 [10; 4]], [5; 6; 8; 1])
  /\ MergeFn_to_callback (mkSchemaMath true 2) (ResolvedMergeFn_run ex_env RMF_Old)
     [] [5; 10; 3; 1] [5; 4; 8; 0] []
  = Ok (false, [], []).
Proof. split; vm_compute; reflexivity. Qed.
