(** C02 — A rule run fires for exactly the set of matches of its body. (pinned statements) *)
From Coq Require Import List Arith PeanoNat.
Import ListNotations.
Require Import Verif.Query.Spec Verif.Query.Stages Verif.Query.PlanOk Verif.Query.SpecProofs Verif.Query.Sound.

Example c02_example_triangle :
  let q := mkQuery [mkAtom 0 [AVar 0; AVar 1] []; mkAtom 1 [AVar 1; AVar 2] []; mkAtom 2 [AVar 2; AVar 0] []] [0;1;2] in
  let p := mkPlan [0;1;2] [] [Intersect 0 [mkScan 0 0 []; mkScan 2 1 []]; Intersect 1 [mkScan 0 1 []; mkScan 1 0 []]; Intersect 2 [mkScan 1 1 []; mkScan 2 0 []]] in
  plan_ok q p = true.
Proof. vm_compute. reflexivity. Qed.
