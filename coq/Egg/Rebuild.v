(** C01/C04: the rebuild loop. Relational evaluation modulo the union-find ([R]), its transfer
    across a union and across a rebuild pass, preservation of [WFmid], termination of the loop
    within [rebuild_fuel], and canonical/functional tables at the fixpoint. *)
From Coq Require Import List Arith Lia PeanoNat Bool ZArith.
Import ListNotations.
Require Import Verif.Base.Res Verif.gen.UFSeq Verif.gen.MergeArms Verif.UF.Seq
  Verif.Egg.Model Verif.Egg.CmdOk Verif.Egg.RepFacts Verif.Egg.CCDefs.

(* ------------------------------------------------------------------ *)
(** * canon *)

Lemma canon_vroot p v : Inv p -> vroot p v -> canon p v = v.
Proof. intros HI. destruct v as [i|z]; cbn [vroot canon]; auto. intros H. rewrite rep_fix; auto. Qed.

Lemma map_canon_vroot p vs : Inv p -> Forall (vroot p) vs -> map (canon p) vs = vs.
Proof.
  intros HI H. rewrite <- (map_id vs) at 2. apply map_ext_Forall.
  eapply Forall_impl; [|exact H]. intros v Hv. apply canon_vroot; auto.
Qed.

Lemma canon_coarse p p' v : coarse p p' -> canon p' (canon p v) = canon p' v.
Proof. intros H. destruct v as [i|z]; cbn [canon]; [rewrite H|]; reflexivity. Qed.

Lemma map_canon_coarse p p' vs : coarse p p' -> map (canon p') (map (canon p) vs) = map (canon p') vs.
Proof. intros H. rewrite map_map. apply map_ext. intro v. apply canon_coarse. exact H. Qed.

Lemma canon_vlt p n v : Inv p -> vlt n v -> vlt n (canon p v).
Proof.
  intros HI. destruct v as [i|z]; cbn [canon vlt]; auto. pose proof (rep_le p i HI). lia.
Qed.

Lemma canon_is_vroot p v : Inv p -> vroot p (canon p v).
Proof. intros HI. destruct v as [i|z]; cbn [canon vroot]; auto. apply rep_par; auto. Qed.

Lemma canon_is_id p v : is_id v -> is_id (canon p v).
Proof. destruct v; cbn; auto. Qed.

(* ------------------------------------------------------------------ *)
(** * relational evaluation modulo the union-find *)

Inductive R (p : list nat) (ts : list table) : term -> val -> Prop :=
| R_int z : R p ts (TI z) (VInt z)
| R_app f l r : In r (get_tab ts f) -> Forall2 (R p ts) l (map (canon p) (rargs r)) ->
    R p ts (T f l) (canon p (rret r)).

Lemma eval_R n U s : WFs n U s -> forall t v, eval s t = Some v -> R (uf s) (tabs s) t v.
Proof.
  intros HW t. pose proof (wm_inv _ _ (wf_mid _ _ _ HW)) as HI.
  induction t as [z|f l IH] using term_ind'; intros v Hev.
  - rewrite eval_TI in Hev. injection Hev as <-. constructor.
  - rewrite eval_T in Hev. destruct (evals s l) as [vs|] eqn:El; [|discriminate].
    destruct (tab_lookup (get_tab (tabs s) f) vs) as [r|] eqn:Elk; [|discriminate].
    injection Hev as <-. apply tab_lookup_some in Elk. destruct Elk as [Hin Hargs].
    destruct (wf_canon _ _ _ HW f r Hin) as [Hca Hcr].
    rewrite <- (canon_vroot (uf s) (rret r) HI Hcr). apply R_app; [exact Hin|].
    rewrite (map_canon_vroot _ _ HI Hca), Hargs. apply evals_Forall2 in El.
    eapply Forall_Forall2_impl; [exact IH|exact El|]. intros x w Hx Hw. apply Hx. exact Hw.
Qed.

Lemma R_eval s : Inv (uf s) ->
  (forall f r, In r (get_tab (tabs s) f) -> row_canon (uf s) r) ->
  (forall f, NoDup (map rargs (get_tab (tabs s) f))) ->
  forall t v, R (uf s) (tabs s) t v -> eval s t = Some v.
Proof.
  intros HI Hc Hn t. induction t as [z|f l IH] using term_ind'; intros v HR.
  - inversion HR; subst. reflexivity.
  - inversion HR as [|f' l' r Hin Hl]; subst.
    destruct (Hc f r Hin) as [Hca Hcr].
    rewrite (canon_vroot _ _ HI Hcr). rewrite (map_canon_vroot _ _ HI Hca) in Hl.
    rewrite eval_T.
    assert (El : evals s l = Some (rargs r)).
    { apply evals_Forall2. eapply Forall_Forall2_impl; [exact IH|exact Hl|].
      intros x w Hx Hw. apply Hx. exact Hw. }
    rewrite El. rewrite (tab_lookup_func _ r (Hn f) Hin). reflexivity.
Qed.

(** transfer of [R] to a coarser union-find and tables that keep every row up to the new
    equivalence *)
Lemma R_transfer p p' ts ts' : coarse p p' ->
  (forall f r, In r (get_tab ts f) -> exists r', In r' (get_tab ts' f) /\
      map (canon p') (rargs r') = map (canon p') (rargs r) /\
      canon p' (rret r') = canon p' (rret r)) ->
  forall t v, R p ts t v -> R p' ts' t (canon p' v).
Proof.
  intros Hco Hrow t. induction t as [z|f l IH] using term_ind'; intros v HR.
  - inversion HR; subst. cbn [canon]. constructor.
  - inversion HR as [|f' l' r Hin Hl]; subst.
    destruct (Hrow f r Hin) as (r' & Hin' & Ha & Hr).
    rewrite (canon_coarse p p' _ Hco), <- Hr. apply R_app; [exact Hin'|].
    rewrite Ha, <- (map_canon_coarse p p' _ Hco). apply Forall2_map_r.
    eapply Forall_Forall2_impl; [exact IH|exact Hl|]. intros x w Hx Hw. apply Hx. exact Hw.
Qed.

(* ------------------------------------------------------------------ *)
(** * tab_insert on a constructor table *)

Lemma merge_unionid_min a b : merge_unionid a b = Nat.min a b.
Proof.
  unfold merge_unionid. destruct (Nat.eqb_spec a b) as [->|N]; cbn [negb]; [|reflexivity].
  symmetry. apply Nat.min_id.
Qed.

Definition ret_id (r : row) : Prop := is_id (rret r).

Lemma tab_insert_spec : forall t r t' us e,
  tab_insert MUnionId t r = (t', us, e) ->
  Forall ret_id t -> ret_id r ->
  (~ In (rargs r) (map rargs t) /\ t' = t ++ [r] /\ us = [])
  \/ (exists t1 r0 t2 a b, t = t1 ++ r0 :: t2 /\ rargs r0 = rargs r /\
        rret r0 = VId a /\ rret r = VId b /\
        t' = t1 ++ mkRow (rargs r0) (VId (Nat.min a b)) (combine_sub (rsub r0) (rsub r)) :: t2 /\
        us = (if Nat.eqb a b then [] else [(a, b)])).
Proof.
  induction t as [|r0 tl IH]; intros r t' us e H Hids Hid; cbn [tab_insert] in H.
  - injection H as <- <- <-. left. split; [intros []|]. split; reflexivity.
  - inversion Hids as [|x l Hid0 Hidtl]; subst.
    destruct (vals_eqb (rargs r0) (rargs r)) eqn:Ek.
    + apply vals_eqb_eq in Ek. right. unfold ret_id in Hid0, Hid.
      destruct (rret r0) as [a|] eqn:Ea; [|contradiction].
      destruct (rret r) as [b|] eqn:Eb; [|contradiction].
      cbn [merge_vals] in H. exists [], r0, tl, a, b. cbn [app].
      destruct (Nat.eqb_spec a b) as [->|N].
      * injection H as <- <- <-. rewrite Nat.min_id. repeat split; auto.
      * injection H as <- <- <-. rewrite merge_unionid_min. repeat split; auto.
    + destruct (tab_insert MUnionId tl r) as [[tl' us'] e'] eqn:Etl. injection H as <- <- <-.
      destruct (IH r tl' us' e' Etl Hidtl Hid)
        as [(Hn & -> & ->)|(t1 & x & t2 & a & b & -> & Hk & Hra & Hrb & -> & ->)].
      * left. split; [|split; reflexivity]. cbn [map]. intros [E|Hin]; [|auto].
        rewrite E, vals_eqb_refl in Ek. discriminate.
      * right. exists (r0 :: t1), x, t2, a, b. cbn [app]. repeat split; auto.
Qed.

Definition merge_closed (P : row -> Prop) : Prop :=
  forall r0 r a b sb, P r0 -> P r -> rargs r0 = rargs r -> rret r0 = VId a -> rret r = VId b ->
    P (mkRow (rargs r0) (VId (Nat.min a b)) sb).

Lemma tab_insert_P (P : row -> Prop) t r t' us e :
  merge_closed P -> (forall x, P x -> ret_id x) ->
  tab_insert MUnionId t r = (t', us, e) -> Forall P t -> P r -> Forall P t'.
Proof.
  intros Hmc Hid H Ht Hr.
  assert (Ht' : Forall ret_id t) by (eapply Forall_impl; [|exact Ht]; exact Hid).
  assert (Hr' : ret_id r) by (apply Hid; exact Hr).
  destruct (tab_insert_spec t r t' us e H Ht' Hr') as
    [(_ & -> & _)|(t1 & r0 & t2 & a & b & -> & Hk & Hra & Hrb & -> & _)].
  - apply Forall_app. split; [exact Ht|]. constructor; [exact Hr|constructor].
  - apply Forall_app in Ht. destruct Ht as [Ht1 Ht2]. inversion Ht2 as [|x l Hr0 Ht2']; subst.
    apply Forall_app. split; [exact Ht1|]. constructor; [|exact Ht2'].
    apply (Hmc r0 r a b); auto.
Qed.

Lemma tab_insert_us (P : row -> Prop) (Q : nat * nat -> Prop) t r t' us e :
  (forall x, P x -> ret_id x) ->
  (forall r0 r a b, P r0 -> P r -> rargs r0 = rargs r -> rret r0 = VId a -> rret r = VId b ->
     a <> b -> Q (a, b)) ->
  tab_insert MUnionId t r = (t', us, e) -> Forall P t -> P r -> Forall Q us.
Proof.
  intros Hid HQ H Ht Hr.
  assert (Ht' : Forall ret_id t) by (eapply Forall_impl; [|exact Ht]; exact Hid).
  assert (Hr' : ret_id r) by (apply Hid; exact Hr).
  destruct (tab_insert_spec t r t' us e H Ht' Hr') as
    [(_ & _ & ->)|(t1 & r0 & t2 & a & b & -> & Hk & Hra & Hrb & _ & ->)].
  - constructor.
  - destruct (Nat.eqb_spec a b) as [|N]; constructor; [|constructor].
    apply Forall_app in Ht. destruct Ht as [_ Ht2]. inversion Ht2 as [|x l Hr0 _]; subst.
    apply (HQ r0 r a b); auto.
Qed.

Lemma tab_insert_nodup t r t' us e :
  tab_insert MUnionId t r = (t', us, e) -> Forall ret_id t -> ret_id r ->
  NoDup (map rargs t) -> NoDup (map rargs t').
Proof.
  intros H Ht Hr Hn.
  destruct (tab_insert_spec t r t' us e H Ht Hr) as
    [(Hnin & -> & _)|(t1 & r0 & t2 & a & b & -> & Hk & Hra & Hrb & -> & _)].
  - rewrite map_app. cbn [map]. apply NoDup_snoc; auto.
  - rewrite map_app in *. cbn [map rargs] in *. exact Hn.
Qed.

Lemma rep_min_l p a b : (a = b \/ rep p a = rep p b) -> rep p (Nat.min a b) = rep p a.
Proof.
  intros [->|E]; [rewrite Nat.min_id; reflexivity|].
  destruct (Nat.min_spec a b) as [[_ ->]|[_ ->]]; auto.
Qed.

Definition pair_merged (p : list nat) (ab : nat * nat) : Prop := rep p (fst ab) = rep p (snd ab).

Lemma tab_insert_corr p' t r t' us e :
  tab_insert MUnionId t r = (t', us, e) -> Forall ret_id t -> ret_id r ->
  Forall (pair_merged p') us ->
  (forall r0, In r0 t -> exists r0', In r0' t' /\ rargs r0' = rargs r0 /\
      canon p' (rret r0') = canon p' (rret r0)) /\
  (exists r', In r' t' /\ rargs r' = rargs r /\ canon p' (rret r') = canon p' (rret r)).
Proof.
  intros H Ht Hr Hm.
  destruct (tab_insert_spec t r t' us e H Ht Hr) as
    [(Hnin & -> & _)|(t1 & r0 & t2 & a & b & -> & Hk & Hra & Hrb & -> & ->)].
  - split.
    + intros r0 Hin. exists r0. split; [apply in_or_app; auto|auto].
    + exists r. split; [apply in_or_app; right; left; reflexivity|auto].
  - assert (Hab : a = b \/ rep p' a = rep p' b).
    { destruct (Nat.eqb_spec a b) as [|N]; [left; auto|right].
      inversion Hm as [|x l Hx _]; subst. exact Hx. }
    pose proof (rep_min_l p' a b Hab) as Hml.
    assert (Hmr : rep p' (Nat.min a b) = rep p' b) by (destruct Hab as [->|E]; congruence).
    set (m := mkRow (rargs r0) (VId (Nat.min a b)) (combine_sub (rsub r0) (rsub r))).
    split.
    + intros x Hin. apply in_app_or in Hin. destruct Hin as [Hin|[<-|Hin]].
      * exists x. split; [apply in_or_app; auto|auto].
      * exists m. split; [apply in_or_app; right; left; reflexivity|].
        unfold m. cbn [rargs rret]. split; [reflexivity|]. rewrite Hra. cbn [canon]. rewrite Hml. reflexivity.
      * exists x. split; [apply in_or_app; right; right; exact Hin|auto].
    + exists m. split; [apply in_or_app; right; left; reflexivity|].
      unfold m. cbn [rargs rret]. split; [exact Hk|]. rewrite Hrb. cbn [canon]. rewrite Hmr. reflexivity.
Qed.

(* ------------------------------------------------------------------ *)
(** * rebuild_rows *)

Section Rows.
Variable p : list nat.
Variable P : row -> Prop.
Hypothesis Hmc : merge_closed P.
Hypothesis Hid : forall x, P x -> ret_id x.

Lemma rebuild_rows_P : forall rows acc acc' us e,
  rebuild_rows p MUnionId rows acc = (acc', us, e) ->
  Forall P acc -> Forall (fun r => P (canon_row p r)) rows -> Forall P acc'.
Proof.
  induction rows as [|r tl IH]; intros acc acc' us e H Hacc Hrows; cbn [rebuild_rows] in H.
  - injection H as <- <- <-. exact Hacc.
  - inversion Hrows as [|x l Hr Htl]; subst.
    destruct (tab_insert MUnionId acc (canon_row p r)) as [[acc1 us1] e1] eqn:E1.
    destruct (rebuild_rows p MUnionId tl acc1) as [[acc2 us2] e2] eqn:E2.
    injection H as <- <- <-.
    eapply IH; [exact E2| |exact Htl]. eapply tab_insert_P; eauto.
Qed.

Lemma rebuild_rows_us (Q : nat * nat -> Prop) :
  (forall r0 r a b, P r0 -> P r -> rargs r0 = rargs r -> rret r0 = VId a -> rret r = VId b ->
     a <> b -> Q (a, b)) ->
  forall rows acc acc' us e,
  rebuild_rows p MUnionId rows acc = (acc', us, e) ->
  Forall P acc -> Forall (fun r => P (canon_row p r)) rows -> Forall Q us.
Proof.
  intros HQ. induction rows as [|r tl IH]; intros acc acc' us e H Hacc Hrows; cbn [rebuild_rows] in H.
  - injection H as <- <- <-. constructor.
  - inversion Hrows as [|x l Hr Htl]; subst.
    destruct (tab_insert MUnionId acc (canon_row p r)) as [[acc1 us1] e1] eqn:E1.
    destruct (rebuild_rows p MUnionId tl acc1) as [[acc2 us2] e2] eqn:E2.
    injection H as <- <- <-. apply Forall_app. split.
    + eapply tab_insert_us; eauto.
    + eapply IH; [exact E2| |exact Htl]. eapply tab_insert_P; eauto.
Qed.

Lemma rebuild_rows_nodup : forall rows acc acc' us e,
  rebuild_rows p MUnionId rows acc = (acc', us, e) ->
  Forall P acc -> Forall (fun r => P (canon_row p r)) rows ->
  NoDup (map rargs acc) -> NoDup (map rargs acc').
Proof.
  induction rows as [|r tl IH]; intros acc acc' us e H Hacc Hrows Hn; cbn [rebuild_rows] in H.
  - injection H as <- <- <-. exact Hn.
  - inversion Hrows as [|x l Hr Htl]; subst.
    destruct (tab_insert MUnionId acc (canon_row p r)) as [[acc1 us1] e1] eqn:E1.
    destruct (rebuild_rows p MUnionId tl acc1) as [[acc2 us2] e2] eqn:E2.
    injection H as <- <- <-.
    eapply IH; [exact E2| |exact Htl|].
    + eapply tab_insert_P; eauto.
    + eapply tab_insert_nodup; [exact E1| | |exact Hn].
      * eapply Forall_impl; [|exact Hacc]. exact Hid.
      * apply Hid. exact Hr.
Qed.

Lemma rebuild_rows_corr p' : forall rows acc acc' us e,
  rebuild_rows p MUnionId rows acc = (acc', us, e) ->
  Forall P acc -> Forall (fun r => P (canon_row p r)) rows ->
  Forall (pair_merged p') us ->
  (forall r0, In r0 acc -> exists r0', In r0' acc' /\ rargs r0' = rargs r0 /\
      canon p' (rret r0') = canon p' (rret r0)) /\
  (forall r, In r rows -> exists r', In r' acc' /\ rargs r' = rargs (canon_row p r) /\
      canon p' (rret r') = canon p' (rret (canon_row p r))).
Proof.
  induction rows as [|r tl IH]; intros acc acc' us e H Hacc Hrows Hm; cbn [rebuild_rows] in H.
  - injection H as <- <- <-. split.
    + intros r0 Hin. exists r0. auto.
    + intros r [].
  - inversion Hrows as [|x l Hr Htl]; subst.
    destruct (tab_insert MUnionId acc (canon_row p r)) as [[acc1 us1] e1] eqn:E1.
    destruct (rebuild_rows p MUnionId tl acc1) as [[acc2 us2] e2] eqn:E2.
    injection H as <- <- <-. apply Forall_app in Hm. destruct Hm as [Hm1 Hm2].
    assert (Hacc1 : Forall P acc1) by (eapply tab_insert_P; eauto).
    destruct (tab_insert_corr p' acc (canon_row p r) acc1 us1 e1 E1) as [Hc1 Hc2]; auto.
    { eapply Forall_impl; [|exact Hacc]. exact Hid. }
    destruct (IH acc1 acc2 us2 e2 E2 Hacc1 Htl Hm2) as [Hd1 Hd2].
    split.
    + intros r0 Hin. destruct (Hc1 r0 Hin) as (r1 & Hin1 & Ha1 & Hr1).
      destruct (Hd1 r1 Hin1) as (r2 & Hin2 & Ha2 & Hr2).
      exists r2. split; [exact Hin2|]. split; congruence.
    + intros x [<-|Hin].
      * destruct Hc2 as (r1 & Hin1 & Ha1 & Hr1).
        destruct (Hd1 r1 Hin1) as (r2 & Hin2 & Ha2 & Hr2).
        exists r2. split; [exact Hin2|]. split; congruence.
      * apply Hd2. exact Hin.
Qed.
End Rows.

(* ------------------------------------------------------------------ *)
(** * rebuild_tabs *)

Lemma rebuild_tabs_sg p : forall ts sg, Forall (fun m => m = MUnionId) sg ->
  rebuild_tabs p sg ts = rebuild_tabs p [] ts.
Proof.
  induction ts as [|t tl IH]; intros sg Hsg; [destruct sg; reflexivity|].
  destruct sg as [|m sg']; [reflexivity|]. inversion Hsg as [|x l -> Hsg']; subst.
  cbn [rebuild_tabs]. rewrite (IH sg' Hsg'). reflexivity.
Qed.

Lemma get_tab_nil f : get_tab [] f = [].
Proof. unfold get_tab. destruct f; reflexivity. Qed.

Lemma rebuild_tabs_spec p : forall ts ts' us e, rebuild_tabs p [] ts = (ts', us, e) ->
  length ts' = length ts /\
  (forall f, exists us_f e_f,
      rebuild_rows p MUnionId (get_tab ts f) [] = (get_tab ts' f, us_f, e_f) /\ incl us_f us) /\
  (forall ab, In ab us -> exists f us_f e_f,
      rebuild_rows p MUnionId (get_tab ts f) [] = (get_tab ts' f, us_f, e_f) /\ In ab us_f).
Proof.
  induction ts as [|t tl IH]; intros ts' us e H; cbn [rebuild_tabs] in H.
  - injection H as <- <- <-. split; [reflexivity|]. split.
    + intros f. exists [], false. rewrite get_tab_nil. split; [reflexivity|apply incl_refl].
    + intros ab [].
  - destruct (rebuild_rows p MUnionId t []) as [[t1 us1] e1] eqn:E1.
    destruct (rebuild_tabs p [] tl) as [[tl1 us2] e2] eqn:E2.
    injection H as <- <- <-. destruct (IH tl1 us2 e2 eq_refl) as (Hlen & Hf & Hu).
    split; [cbn [length]; congruence|]. split.
    + intros [|f].
      * exists us1, e1. unfold get_tab. cbn [nth]. split; [exact E1|apply incl_appl, incl_refl].
      * destruct (Hf f) as (us_f & e_f & Hr & Hi). exists us_f, e_f. unfold get_tab in *. cbn [nth].
        split; [exact Hr|apply incl_appr; exact Hi].
    + intros ab Hin. apply in_app_or in Hin. destruct Hin as [Hin|Hin].
      * exists 0, us1, e1. unfold get_tab. cbn [nth]. split; [exact E1|exact Hin].
      * destruct (Hu ab Hin) as (f & us_f & e_f & Hr & Hi). exists (S f), us_f, e_f.
        unfold get_tab in *. cbn [nth]. split; [exact Hr|exact Hi].
Qed.

(* ------------------------------------------------------------------ *)
(** * one pass *)

Definition good (U : list (term * term)) (w : list term) (p : list nat) (f : nat) (r : row) : Prop :=
  row_lt (length p) r /\ row_canon p r /\ row_sound U w f r.

Lemma good_ret_id U w p f r : good U w p f r -> ret_id r.
Proof. intros [(_ & _ & H) _]. exact H. Qed.

Lemma good_merge_closed U w p f : merge_closed (good U w p f).
Proof.
  intros r0 r a b sb [(Hl0 & Hr0 & _) [(Hc0 & Hcr0) Hs0]] [(Hl & Hr & _) [(Hc & Hcr) Hs]] Hk Ha Hb.
  rewrite Ha in *. rewrite Hb in *. cbn [vlt vroot] in *.
  unfold good, row_lt, row_canon, row_sound. cbn [rargs rret vlt vroot is_id].
  split; [|split].
  - split; [exact Hl0|]. split; [|exact I]. destruct (Nat.min_spec a b) as [[_ ->]|[_ ->]]; auto.
  - split; [exact Hc0|]. destruct (Nat.min_spec a b) as [[_ ->]|[_ ->]]; auto.
  - unfold row_sound in Hs0, Hs. rewrite Ha in Hs0. rewrite Hb, <- Hk in Hs.
    destruct (Nat.min_spec a b) as [[_ ->]|[_ ->]]; auto.
Qed.

Lemma witv_canon_sound U w p v : Inv p -> length w = length p -> uf_sound U w p ->
  vlt (length p) v -> CC U (witv w (canon p v)) (witv w v).
Proof.
  intros HI Hw Hu. destruct v as [i|z]; cbn [vlt canon witv]; [|intros _; apply cc_refl].
  intros Hi. apply cc_sym. apply Hu. exact Hi.
Qed.

Lemma good_canon_row U s f r : WFmid U s -> In r (get_tab (tabs s) f) ->
  good U (wit s) (uf s) f (canon_row (uf s) r).
Proof.
  intros HM Hin. pose proof (wm_inv _ _ HM) as HI.
  destruct (wm_lt _ _ HM f r Hin) as (Ha & Hr & Hid).
  unfold good, row_lt, row_canon, row_sound, canon_row. cbn [rargs rret].
  split; [|split].
  - split; [|split].
    + apply Forall_map. eapply Forall_impl; [|exact Ha]. intros v. apply canon_vlt. exact HI.
    + apply canon_vlt; auto.
    + apply canon_is_id. exact Hid.
  - split.
    + apply Forall_map. apply Forall_forall. intros v _. apply canon_is_vroot. exact HI.
    + apply canon_is_vroot. exact HI.
  - eapply cc_trans; [|eapply cc_trans; [apply (wm_rsound _ _ HM f r Hin)|]].
    + apply cc_cong. rewrite !map_map. clear - Ha HM HI.
      induction Ha as [|v vs Hv Hvs IH]; cbn [map]; constructor; [|exact IH].
      apply witv_canon_sound; auto. apply (wm_wit _ _ HM). apply (wm_usound _ _ HM).
    + apply cc_sym. apply witv_canon_sound; auto. apply (wm_wit _ _ HM). apply (wm_usound _ _ HM).
Qed.

(** what a staged union looks like: two distinct roots in range whose witnesses are congruent *)
Definition staged_ok (U : list (term * term)) (w : list term) (p : list nat) (ab : nat * nat) : Prop :=
  fst ab <> snd ab /\ pair_lt (length p) ab /\ par p (fst ab) = fst ab /\ par p (snd ab) = snd ab
  /\ CC U (nth (fst ab) w (TI 0)) (nth (snd ab) w (TI 0)).

Lemma good_staged U w p f r0 r a b :
  good U w p f r0 -> good U w p f r -> rargs r0 = rargs r -> rret r0 = VId a -> rret r = VId b ->
  a <> b -> staged_ok U w p (a, b).
Proof.
  intros [(Hl0 & Hr0 & _) [(Hc0 & Hcr0) Hs0]] [(Hl & Hr & _) [(Hc & Hcr) Hs]] Hk Ha Hb N.
  unfold row_sound in Hs0, Hs. rewrite Ha in *. rewrite Hb in *. rewrite <- Hk in Hs.
  cbn [vlt vroot witv] in *. unfold staged_ok, pair_lt. cbn [fst snd].
  repeat split; auto. eapply cc_trans; [apply cc_sym; exact Hs0|exact Hs].
Qed.

Lemma rebuild_pass_spec sg U s : Forall (fun m => m = MUnionId) sg -> WFmid U s ->
  exists s' more e, rebuild_pass sg s = Ok (s', more, e) /\
    WFmid U s' /\ length (tabs s') = length (tabs s) /\
    coarse (uf s) (uf s') /\
    (forall f, NoDup (map rargs (get_tab (tabs s') f))) /\
    (forall t v, R (uf s) (tabs s) t v -> R (uf s') (tabs s') t (canon (uf s') v)) /\
    (more = true -> nroots (uf s') < nroots (uf s)) /\
    (more = false -> forall f r, In r (get_tab (tabs s') f) -> row_canon (uf s') r).
Proof.
  intros Hsg HM. pose proof (wm_inv _ _ HM) as HI.
  unfold rebuild_pass. rewrite (rebuild_tabs_sg _ _ _ Hsg).
  destruct (rebuild_tabs (uf s) [] (tabs s)) as [[ts' us] e] eqn:Et.
  destruct (rebuild_tabs_spec _ _ _ _ _ Et) as (Hlen & Hf & Hu).
  set (p := uf s) in *. set (w := wit s) in *.
  assert (Hrows : forall f, Forall (fun r => good U w p f (canon_row p r)) (get_tab (tabs s) f)).
  { intros f. apply Forall_forall. intros r Hin. apply good_canon_row; auto. }
  assert (Hgood : forall f r, In r (get_tab ts' f) -> good U w p f r).
  { intros f. destruct (Hf f) as (us_f & e_f & Hr & _). apply Forall_forall.
    eapply (rebuild_rows_P p (good U w p f)); [apply good_merge_closed|apply good_ret_id|exact Hr| |apply Hrows].
    constructor. }
  assert (Hst : Forall (staged_ok U w p) us).
  { apply Forall_forall. intros ab Hin. destruct (Hu ab Hin) as (f & us_f & e_f & Hr & Hin').
    assert (HF : Forall (staged_ok U w p) us_f).
    { eapply (rebuild_rows_us p (good U w p f));
        [apply good_merge_closed|apply good_ret_id|apply good_staged|exact Hr| |apply Hrows].
      constructor. }
    rewrite Forall_forall in HF. apply HF. exact Hin'. }
  assert (Hplt : Forall (pair_lt (length p)) us).
  { eapply Forall_impl; [|exact Hst]. intros ab H. apply H. }
  destruct (uf_unions_spec us p HI Hplt) as (p' & Hus & HI' & Hl' & Hco & Hmg & Hn & Hns).
  rewrite Hus. cbn [bind].
  eexists. eexists. eexists. split; [reflexivity|]. cbn [uf tabs wit].
  split; [|split; [exact Hlen|split; [exact Hco|split; [|split; [|split]]]]].
  - (* WFmid *)
    constructor; cbn [uf tabs wit].
    + exact HI'.
    + rewrite Hl'. apply (wm_wit _ _ HM).
    + intros f r Hin. rewrite Hl'. apply (Hgood f r Hin).
    + intros f r Hin. apply (Hgood f r Hin).
    + intros i Hi. rewrite Hl' in Hi. revert i Hi.
      apply (uf_unions_sound (fun a b => CC U (nth a w (TI 0)) (nth b w (TI 0)))) with (us := us) (p := p); auto.
      * intros x y. apply cc_sym.
      * intros x y z. apply cc_trans.
      * eapply Forall_impl; [|exact Hst]. intros ab H. apply H.
      * apply (wm_usound _ _ HM).
  - (* functional *)
    intros f. destruct (Hf f) as (us_f & e_f & Hr & _).
    eapply (rebuild_rows_nodup p (good U w p f));
      [apply good_merge_closed|apply good_ret_id|exact Hr| |apply Hrows|]; constructor.
  - (* R transfer *)
    apply R_transfer; [exact Hco|]. intros f r Hin.
    destruct (Hf f) as (us_f & e_f & Hr & Hincl).
    assert (Hmf : Forall (pair_merged p') us_f).
    { apply Forall_forall. intros ab Hab. rewrite Forall_forall in Hmg. apply Hmg. apply Hincl. exact Hab. }
    destruct (rebuild_rows_corr p (good U w p f) (good_merge_closed U w p f) (good_ret_id U w p f)
                p' _ _ _ _ _ Hr (Forall_nil _) (Hrows f) Hmf) as [_ Hc].
    destruct (Hc r Hin) as (r' & Hin' & Ha & Hrr). exists r'. split; [exact Hin'|].
    unfold canon_row in Ha, Hrr. cbn [rargs rret] in Ha, Hrr. split.
    + rewrite Ha. apply map_canon_coarse. exact Hco.
    + rewrite Hrr. apply canon_coarse. exact Hco.
  - (* strict decrease *)
    intros Hmore. destruct us as [|[a b] tl]; [discriminate|].
    inversion Hst as [|x l (Hne & _ & Hpa & Hpb & _) _]; subst. cbn [fst snd] in *.
    apply (Hns a b tl eq_refl). rewrite !rep_fix; auto.
  - (* canonical at the fixpoint *)
    intros Hmore. destruct us as [|ab tl]; [|discriminate].
    cbn [uf_unions] in Hus. injection Hus as <-.
    intros f r Hin. apply (Hgood f r Hin).
Qed.

(* ------------------------------------------------------------------ *)
(** * the loop *)

Lemma rebuild_spec sg U n : Forall (fun m => m = MUnionId) sg ->
  forall fuel s, WFmid U s -> length (tabs s) = n -> nroots (uf s) < fuel ->
  exists s' e, rebuild fuel sg s = Ok (s', e) /\
    WFmid U s' /\ length (tabs s') = n /\
    coarse (uf s) (uf s') /\
    (forall f r, In r (get_tab (tabs s') f) -> row_canon (uf s') r) /\
    (forall f, NoDup (map rargs (get_tab (tabs s') f))) /\
    (forall t v, R (uf s) (tabs s) t v -> R (uf s') (tabs s') t (canon (uf s') v)).
Proof.
  intros Hsg. induction fuel as [|fuel IH]; intros s HM Hn Hfuel; [lia|].
  cbn [rebuild].
  destruct (rebuild_pass_spec sg U s Hsg HM)
    as (s1 & more & e & Hp & HM1 & Hlen1 & Hco1 & Hnd1 & HR1 & Hdec & Hcan).
  rewrite Hp. cbn [bind]. destruct more.
  - specialize (Hdec eq_refl).
    destruct (IH s1 HM1) as (s2 & e2 & Hr & HM2 & Hlen2 & Hco2 & Hcan2 & Hnd2 & HR2); [congruence|lia|].
    rewrite Hr. cbn [bind]. exists s2, (e || e2). split; [reflexivity|].
    split; [exact HM2|]. split; [exact Hlen2|]. split; [eapply coarse_trans; eauto|].
    split; [exact Hcan2|]. split; [exact Hnd2|].
    intros t v H. apply HR1 in H. apply HR2 in H. rewrite canon_coarse in H; auto.
  - exists s1, e. split; [reflexivity|]. split; [exact HM1|]. split; [congruence|].
    split; [exact Hco1|]. split; [apply Hcan; reflexivity|]. split; [exact Hnd1|exact HR1].
Qed.
