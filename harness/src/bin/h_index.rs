//! C16 / C02 (index part): the private index-construction and subset-search algorithms of
//! core-relations, run through hook H6 (`egglog_core_relations::verif_hooks`):
//!   radix_passes_for, radix_sort_slice_by_value, merge2_into        (hash_index/mod.rs)
//!   SortedOffsetSlice::scan_for_offset, ::binary_search_from        (offsets/mod.rs)
//!
//! For every generated input the real function is run; (1) the plain predicates of the proved
//! theorems (sorted by (value, row id) + permutation; enough radix passes; first index >= start
//! holding the target / insertion point; strictly sorted de-duplicated merge with the union of the
//! elements) are evaluated on the implementation's answer, so that a violation comes with an
//! implementation input; (2) the case is written as a Coq term (`cases_index_NNN.v`) in which the
//! kernel runs the models of coq/Index (the searches and the pass count being REGENERATED from the
//! source) on the same input and compares (`Verif.Index.Cases.check_case`).
//!
//! Deterministic given --seed; `--replay <file>` takes one case in the JSON form used for
//! `violations[].input` (or an evidence replay file wrapping it); corpus/idx/*.json run first.
use std::collections::{BTreeMap, BTreeSet, HashSet};
use std::panic::{catch_unwind, AssertUnwindSafe};

use egglog_core_relations::verif_hooks as hk;
use serde_json::{json, Value as J};
use verif_harness::util::*;
use verif_harness::Opts;

type Pair = (u32, u32);

#[derive(Clone, Debug, PartialEq, Eq, Hash)]
enum Case {
    Radix { pairs: Vec<Pair>, extra: usize, fill: Pair, tag: String },
    Passes { max: u32 },
    Scan { slice: Vec<u32>, queries: Vec<(usize, u32)>, tag: String },
    Bsf { slice: Vec<u32>, queries: Vec<(usize, u32)>, tag: String },
    Merge { a: Vec<Pair>, b: Vec<Pair>, prefix: Vec<Pair> },
}

fn pairs_json(p: &[Pair]) -> J {
    J::Array(p.iter().map(|&(v, r)| json!([v, r])).collect())
}
fn pairs_from(v: &J) -> Vec<Pair> {
    v.as_array()
        .expect("pairs")
        .iter()
        .map(|e| (e[0].as_u64().unwrap() as u32, e[1].as_u64().unwrap() as u32))
        .collect()
}
fn queries_json(q: &[(usize, u32)]) -> J {
    J::Array(q.iter().map(|&(s, t)| json!([s, t])).collect())
}
fn queries_from(v: &J) -> Vec<(usize, u32)> {
    v.as_array()
        .expect("queries")
        .iter()
        .map(|e| (e[0].as_u64().unwrap() as usize, e[1].as_u64().unwrap() as u32))
        .collect()
}

impl Case {
    fn json(&self) -> J {
        match self {
            Case::Radix { pairs, extra, fill, tag } => {
                json!({"kind": "radix", "tag": tag, "pairs": pairs_json(pairs), "extra": extra, "fill": [fill.0, fill.1]})
            }
            Case::Passes { max } => json!({"kind": "passes", "max": max}),
            Case::Scan { slice, queries, tag } => json!({"kind": "scan", "tag": tag, "slice": slice, "queries": queries_json(queries)}),
            Case::Bsf { slice, queries, tag } => json!({"kind": "bsf", "tag": tag, "slice": slice, "queries": queries_json(queries)}),
            Case::Merge { a, b, prefix } => json!({"kind": "merge", "a": pairs_json(a), "b": pairs_json(b), "prefix": pairs_json(prefix)}),
        }
    }
    fn from_json(v: &J) -> Case {
        let tag = v["tag"].as_str().unwrap_or("replay").to_string();
        let slice = |v: &J| -> Vec<u32> { v["slice"].as_array().expect("slice").iter().map(|x| x.as_u64().unwrap() as u32).collect() };
        match v["kind"].as_str().expect("kind") {
            "radix" => Case::Radix {
                pairs: pairs_from(&v["pairs"]),
                extra: v["extra"].as_u64().unwrap_or(0) as usize,
                fill: (v["fill"][0].as_u64().unwrap_or(0) as u32, v["fill"][1].as_u64().unwrap_or(0) as u32),
                tag,
            },
            "passes" => Case::Passes { max: v["max"].as_u64().unwrap() as u32 },
            "scan" => Case::Scan { slice: slice(v), queries: queries_from(&v["queries"]), tag },
            "bsf" => Case::Bsf { slice: slice(v), queries: queries_from(&v["queries"]), tag },
            "merge" => Case::Merge { a: pairs_from(&v["a"]), b: pairs_from(&v["b"]), prefix: pairs_from(&v["prefix"]) },
            k => panic!("unknown case kind {k}"),
        }
    }
    fn kind(&self) -> &'static str {
        match self {
            Case::Radix { .. } => "radix",
            Case::Passes { .. } => "passes",
            Case::Scan { .. } => "scan",
            Case::Bsf { .. } => "bsf",
            Case::Merge { .. } => "merge",
        }
    }
}

fn coq_pair(p: &Pair) -> String {
    format!("({}, {})", p.0, p.1)
}
fn coq_pairs(p: &[Pair]) -> String {
    coq_list(p, coq_pair)
}

struct Viol {
    key: &'static str,
    what: String,
    input: J,
}

#[derive(Default)]
struct Stats {
    kind_hist: BTreeMap<String, usize>,
    radix_size_hist: BTreeMap<String, usize>,
    radix_tag_hist: BTreeMap<String, usize>,
    radix_max_hist: BTreeMap<String, usize>,
    radix_branch_hist: BTreeMap<String, usize>,
    search_result_hist: BTreeMap<String, usize>,
    search_len_hist: BTreeMap<String, usize>,
    merge_hist: BTreeMap<String, usize>,
    queries: usize,
    panics: usize,
}

fn bump(h: &mut BTreeMap<String, usize>, k: impl Into<String>, n: usize) {
    *h.entry(k.into()).or_insert(0) += n;
}

fn lex_sorted(p: &[Pair]) -> bool {
    p.windows(2).all(|w| w[0] <= w[1])
}
fn strictly_sorted(p: &[Pair]) -> bool {
    p.windows(2).all(|w| w[0] < w[1])
}

fn max_label(m: u32) -> String {
    for (v, l) in [
        (255u32, "255"),
        (256, "256"),
        (65535, "65535"),
        (65536, "65536"),
        ((1 << 24) - 1, "2^24-1"),
        (1 << 24, "2^24"),
        ((1 << 24) + 1, "2^24+1"),
        (1 << 31, "2^31"),
        (u32::MAX - 1, "u32::MAX-1"),
        (u32::MAX, "u32::MAX"),
    ] {
        if m == v {
            return l.to_string();
        }
    }
    format!("other<2^{}", 32 - m.leading_zeros())
}

/// the specification of scan_for_offset on a sorted slice (linear scan)
fn scan_oracle(s: &[u32], start: usize, t: u32) -> Result<usize, usize> {
    match (start..s.len()).find(|&j| s[j] >= t) {
        Some(j) if s[j] == t => Ok(j),
        Some(j) => Err(j),
        None => Err(s.len()),
    }
}

/// how many galloping probes return Less before the search narrows (0 = decided at `start`)
fn gallop_depth(s: &[u32], start: usize, t: u32) -> usize {
    if start >= s.len() || s[start] >= t {
        return 0;
    }
    let (mut lo, mut step, mut d) = (start, 1usize, 1usize);
    loop {
        let probe = lo + step;
        if probe >= s.len() || s[probe] >= t {
            return d;
        }
        lo = probe;
        step *= 2;
        d += 1;
    }
}

/// run one case on the implementation: (Coq term if the run completed, violations, non-trivial?)
fn run_case(c: &Case, st: &mut Stats) -> (Option<String>, Vec<Viol>, bool) {
    let mut viol = Vec::new();
    bump(&mut st.kind_hist, c.kind(), 1);
    match c {
        Case::Radix { pairs, extra, fill, tag } => {
            let n = pairs.len();
            bump(&mut st.radix_size_hist, format!("{:05}", if n < 100 { n } else { n / 100 * 100 }), 1);
            bump(&mut st.radix_tag_hist, tag.clone(), 1);
            let maxv = pairs.iter().map(|p| p.0).max().unwrap_or(0);
            bump(&mut st.radix_max_hist, max_label(maxv), 1);
            let vals_sorted = pairs.windows(2).all(|w| w[0].0 <= w[1].0);
            let branch = if n < 64 {
                "n<64 comparison sort".to_string()
            } else if vals_sorted {
                "already sorted: early exit".to_string()
            } else {
                format!("radix passes (expected {})", if maxv < 256 { 1 } else if maxv < 65536 { 2 } else if maxv < (1 << 24) { 3 } else { 4 })
            };
            bump(&mut st.radix_branch_hist, branch, 1);
            assert!(pairs.windows(2).all(|w| w[0].1 <= w[1].1), "generator: row ids must ascend");
            let res = catch_unwind(AssertUnwindSafe(|| hk::radix_sort(pairs, *extra, *fill)));
            let out = match res {
                Ok(o) => o,
                Err(_) => {
                    st.panics += 1;
                    viol.push(Viol { key: "idx-radix-panic", what: "radix_sort_slice_by_value panicked".into(), input: c.json() });
                    return (None, viol, false);
                }
            };
            if !lex_sorted(&out) {
                let at = out.windows(2).position(|w| w[0] > w[1]).unwrap();
                viol.push(Viol {
                    key: "idx-radix-not-sorted",
                    what: format!(
                        "radix_sort_slice_by_value: output not sorted by (value,rowid): out[{}]={:?} > out[{}]={:?} (n={}, max={})",
                        at, out[at], at + 1, out[at + 1], n, maxv
                    ),
                    input: c.json(),
                });
            }
            let (mut a, mut b) = (pairs.clone(), out.clone());
            a.sort_unstable();
            b.sort_unstable();
            if a != b {
                viol.push(Viol { key: "idx-radix-not-permutation", what: format!("radix_sort_slice_by_value: output is not a permutation of the input (n={n})"), input: c.json() });
            }
            let term = format!("CRadix {} {} {} {}", coq_pairs(pairs), extra, coq_pair(fill), coq_pairs(&out));
            (Some(term), viol, n >= 64 && !vals_sorted)
        }
        Case::Passes { max } => {
            let p = hk::radix_passes(*max);
            let covered = p <= 4 && (p >= 4 || (*max as u64) < (1u64 << (8 * p)));
            if !covered {
                viol.push(Viol {
                    key: "idx-passes-too-few",
                    what: format!("radix_passes_for({max}) = {p}: {p} byte passes do not cover the value {max}"),
                    input: c.json(),
                });
            }
            (Some(format!("CPasses {max} {p}")), viol, false)
        }
        Case::Scan { slice, queries, .. } => {
            bump(&mut st.search_len_hist, format!("scan len {:05}", if slice.len() < 40 { slice.len() } else { slice.len() / 50 * 50 }), 1);
            let res = catch_unwind(AssertUnwindSafe(|| hk::scan_for_offset(slice, queries)));
            let out = match res {
                Ok(o) => o,
                Err(_) => {
                    st.panics += 1;
                    // find the panicking query
                    let bad = queries.iter().find(|q| catch_unwind(AssertUnwindSafe(|| hk::scan_for_offset(slice, &[**q]))).is_err());
                    let input = Case::Scan { slice: slice.clone(), queries: bad.map(|q| vec![*q]).unwrap_or_else(|| queries.clone()), tag: "panic".into() }.json();
                    viol.push(Viol { key: "idx-scan-panic", what: "scan_for_offset panicked".into(), input });
                    return (None, viol, false);
                }
            };
            let (mut deep_ok, mut deep_err) = (false, false);
            let mut qs = Vec::new();
            for (&(start, t), r) in queries.iter().zip(out.iter()) {
                st.queries += 1;
                let exp = scan_oracle(slice, start, t);
                let d = gallop_depth(slice, start, t);
                bump(&mut st.search_result_hist, format!("scan {} gallop-depth {}", if exp.is_ok() { "Ok" } else { "Err" }, if d >= 4 { "4+".to_string() } else { d.to_string() }), 1);
                if d >= 2 {
                    if exp.is_ok() {
                        deep_ok = true
                    } else {
                        deep_err = true
                    }
                }
                if *r != exp && viol.len() < 3 {
                    viol.push(Viol {
                        key: "idx-scan-wrong",
                        what: format!(
                            "scan_for_offset(start={start}, target={t}) = {r:?} on a sorted slice of {} offsets; first index >= start holding the target / first greater element is {exp:?}",
                            slice.len()
                        ),
                        input: Case::Scan { slice: slice.clone(), queries: vec![(start, t)], tag: "violation".into() }.json(),
                    });
                }
                qs.push(format!("({start}, {t}, {})", match r { Ok(i) => format!("ROk {i}"), Err(i) => format!("RErr {i}") }));
            }
            let term = format!("CScan {} [{}]", coq_list(slice, |x| x.to_string()), qs.join("; "));
            (Some(term), viol, deep_ok && deep_err)
        }
        Case::Bsf { slice, queries, .. } => {
            bump(&mut st.search_len_hist, format!("bsf  len {:05}", if slice.len() < 40 { slice.len() } else { slice.len() / 50 * 50 }), 1);
            let res = catch_unwind(AssertUnwindSafe(|| hk::binary_search_from(slice, queries)));
            let out = match res {
                Ok(o) => o,
                Err(_) => {
                    st.panics += 1;
                    let bad = queries.iter().find(|q| catch_unwind(AssertUnwindSafe(|| hk::binary_search_from(slice, &[**q]))).is_err());
                    let input = Case::Bsf { slice: slice.clone(), queries: bad.map(|q| vec![*q]).unwrap_or_else(|| queries.clone()), tag: "panic".into() }.json();
                    viol.push(Viol { key: "idx-bsf-panic", what: "binary_search_from panicked".into(), input });
                    return (None, viol, false);
                }
            };
            let mut nontrivial = false;
            let mut qs = Vec::new();
            for (&(start, t), &r) in queries.iter().zip(out.iter()) {
                st.queries += 1;
                // the documented use: everything before `start` is below the target (always so for
                // binary_search_by_id, start = 0); then the result is THE lower bound
                let guarded = slice[..start].iter().all(|&x| x < t);
                let lb = slice.iter().position(|&x| x >= t).unwrap_or(slice.len());
                let present = slice[start..].contains(&t);
                bump(
                    &mut st.search_result_hist,
                    format!("bsf  {} {}", if present { "present" } else { "absent" }, if guarded { "guarded(lower bound)" } else { "unguarded(model only)" }),
                    1,
                );
                if guarded {
                    if present && start > 0 {
                        nontrivial = true;
                    }
                    if r != lb && viol.len() < 3 {
                        viol.push(Viol {
                            key: "idx-bsf-wrong",
                            what: format!(
                                "binary_search_from(start={start}, target={t}) = {r} on a sorted slice of {} offsets whose elements before start are all below the target; the first index with an element >= target is {lb}",
                                slice.len()
                            ),
                            input: Case::Bsf { slice: slice.clone(), queries: vec![(start, t)], tag: "violation".into() }.json(),
                        });
                    }
                }
                qs.push(format!("({start}, {t}, {r})"));
            }
            let term = format!("CBsf {} [{}]", coq_list(slice, |x| x.to_string()), qs.join("; "));
            (Some(term), viol, nontrivial)
        }
        Case::Merge { a, b, prefix } => {
            assert!(lex_sorted(a) && lex_sorted(b), "generator: merge inputs must be sorted");
            let res = catch_unwind(AssertUnwindSafe(|| hk::merge2(a, b, prefix)));
            let out = match res {
                Ok(o) => o,
                Err(_) => {
                    st.panics += 1;
                    viol.push(Viol { key: "idx-merge-panic", what: "merge2_into panicked".into(), input: c.json() });
                    return (None, viol, false);
                }
            };
            let shared = a.iter().filter(|x| b.contains(x)).count();
            bump(&mut st.merge_hist, format!("shared pairs {}", if shared >= 3 { "3+".to_string() } else { shared.to_string() }), 1);
            let touches = !prefix.is_empty() && (a.first().into_iter().chain(b.first()).min() == prefix.last());
            bump(&mut st.merge_hist, if prefix.is_empty() { "empty out" } else if touches { "out ends with the first merged pair" } else { "non-empty out" }, 1);
            if out.len() < prefix.len() || out[..prefix.len()] != prefix[..] {
                viol.push(Viol { key: "idx-merge-prefix", what: "merge2_into changed the previous contents of out".into(), input: c.json() });
            } else {
                let tail = &out[prefix.len()..];
                if !strictly_sorted(tail) {
                    viol.push(Viol { key: "idx-merge-not-strictly-sorted", what: format!("merge2_into: appended run is not strictly (value,rowid)-sorted (duplicate or disorder): {tail:?}"), input: c.json() });
                }
                let want: BTreeSet<Pair> = a.iter().chain(b.iter()).copied().collect();
                let got: BTreeSet<Pair> = tail.iter().copied().collect();
                if want != got {
                    viol.push(Viol { key: "idx-merge-elements", what: "merge2_into: appended run does not hold exactly the pairs of the two inputs".into(), input: c.json() });
                }
            }
            let term = format!("CMerge {} {} {} {}", coq_pairs(a), coq_pairs(b), coq_pairs(prefix), coq_pairs(&out));
            (Some(term), viol, !a.is_empty() && !b.is_empty() && shared > 0)
        }
    }
}

// ---- generators ----------------------------------------------------------------------------------

const MAXIMA: [u32; 10] = [255, 256, 65535, 65536, (1 << 24) - 1, 1 << 24, (1 << 24) + 1, 1 << 31, u32::MAX - 1, u32::MAX];
const SHAPES: [&str; 8] = ["random", "sorted", "descending", "dups", "bytes", "maxfirst", "maxlast", "highbytes"];

fn rowids(r: &mut Rng, n: usize, weak: bool) -> Vec<u32> {
    let mut v = Vec::with_capacity(n);
    let mut cur = r.below(50) as u32;
    for _ in 0..n {
        v.push(cur);
        let gap = if weak { r.below(3) } else { 1 + r.below(4) } as u32;
        cur += gap;
    }
    v
}

fn below_incl(r: &mut Rng, max: u32) -> u32 {
    (r.next() % (max as u64 + 1)) as u32
}

fn gen_values(r: &mut Rng, n: usize, max: u32, shape: &str) -> Vec<u32> {
    if n == 0 {
        return vec![];
    }
    let mut v: Vec<u32> = match shape {
        "random" => (0..n).map(|_| below_incl(r, max)).collect(),
        "sorted" => {
            let mut v: Vec<u32> = (0..n).map(|_| below_incl(r, max)).collect();
            v.sort_unstable();
            v
        }
        "descending" => {
            let mut v: Vec<u32> = (0..n).map(|_| below_incl(r, max)).collect();
            v.sort_unstable_by(|a, b| b.cmp(a));
            for _ in 0..(n / 10) {
                let (i, j) = (r.below(n), r.below(n));
                v.swap(i, j);
            }
            v
        }
        "dups" => {
            let pool: Vec<u32> = (0..1 + r.below(5)).map(|_| below_incl(r, max)).collect();
            (0..n).map(|_| *r.pick(&pool)).collect()
        }
        // values differing in one byte position only
        "bytes" => {
            let b = r.below(4) as u32;
            (0..n).map(|_| (((r.below(256) as u64) << (8 * b)).min(max as u64)) as u32).collect()
        }
        // the largest value first / last, everything else small
        "maxfirst" | "maxlast" => (0..n).map(|i| 1000u32.min(max).saturating_sub((i % 997) as u32)).collect(),
        // values close to the maximum (all high bytes populated)
        _ => (0..n).map(|_| max - below_incl(r, max.min(70000))).collect(),
    };
    // the largest value of the block is exactly `max`
    let at = match shape {
        "maxfirst" => 0,
        "maxlast" => n - 1,
        "sorted" => n - 1,
        "descending" => 0,
        _ => r.below(n),
    };
    v[at] = max;
    v
}

fn gen_radix(r: &mut Rng, n: usize, max: u32, shape: &str) -> Case {
    let vals = gen_values(r, n, max, shape);
    let weak = r.chance(1, 8);
    let rows = rowids(r, n, weak);
    let extra = *r.pick(&[0usize, 0, 0, 5]);
    let fill = *r.pick(&[(0u32, 0u32), (u32::MAX, u32::MAX), (12345, 678)]);
    Case::Radix { pairs: vals.into_iter().zip(rows).collect(), extra, fill, tag: format!("{shape}") }
}

fn gen_slice(r: &mut Rng, n: usize, kind: &str) -> Vec<u32> {
    let mut v = Vec::with_capacity(n);
    let mut cur: u32 = match kind {
        "dense" => r.below(5) as u32,
        _ => r.below(40) as u32,
    };
    let mut i = 0;
    while i < n {
        match kind {
            "dense" => {
                v.push(cur);
                cur += 1;
                i += 1;
            }
            "gapped" => {
                v.push(cur);
                cur += 1 + r.below(6) as u32;
                i += 1;
            }
            // long runs of equal offsets (the walk back to the first of a run)
            "runs" => {
                let run = 1 + r.below(4);
                for _ in 0..run.min(n - i) {
                    v.push(cur);
                    i += 1;
                }
                cur += 1 + r.below(3) as u32;
            }
            // a few small offsets, a wide gap, then large ones (gallop window wider than the gap)
            _ => {
                v.push(cur);
                cur += if i == n / 3 { 1_000_000 + r.below(1000) as u32 } else if r.chance(1, 4) { 50 + r.below(200) as u32 } else { 1 + r.below(3) as u32 };
                i += 1;
            }
        }
    }
    v
}

fn gen_queries(r: &mut Rng, s: &[u32], exhaustive_below: usize, sample: usize) -> Vec<(usize, u32)> {
    let mut targets: BTreeSet<u32> = BTreeSet::new();
    for &x in s {
        targets.insert(x);
        targets.insert(x.saturating_sub(1));
        targets.insert(x.saturating_add(1));
    }
    targets.insert(0);
    targets.insert(u32::MAX);
    let targets: Vec<u32> = targets.into_iter().collect();
    let mut q = Vec::new();
    if s.len() <= exhaustive_below {
        for start in 0..=s.len() {
            for &t in &targets {
                q.push((start, t));
            }
        }
    } else {
        let mut starts: Vec<usize> = vec![0, 1, 2, s.len() / 2, s.len() - 1, s.len()];
        for _ in 0..12 {
            starts.push(r.below(s.len() + 1));
        }
        for &start in &starts {
            for _ in 0..sample {
                // bias: targets at or after start (otherwise the answer is decided at `start`)
                let t = if r.chance(3, 4) && start < s.len() {
                    let j = start + r.below(s.len() - start);
                    let d = r.below(3) as u32;
                    (s[j] + d).saturating_sub(1)
                } else {
                    *r.pick(&targets)
                };
                q.push((start, t));
            }
        }
    }
    q
}

fn gen_sorted_pairs(r: &mut Rng, n: usize, vmax: u32, rmax: u32, dups: bool) -> Vec<Pair> {
    let mut v: Vec<Pair> = (0..n).map(|_| (below_incl(r, vmax), below_incl(r, rmax))).collect();
    v.sort_unstable();
    if !dups {
        v.dedup();
    }
    v
}

fn gen_merge(r: &mut Rng) -> Case {
    let (vmax, rmax) = *r.pick(&[(3u32, 3u32), (5, 8), (2, 30), (1 << 24, 4), (u32::MAX, u32::MAX)]);
    let na = *r.pick(&[0usize, 1, 2, 5, 12, 40]);
    let nb = *r.pick(&[0usize, 1, 3, 7, 20, 40]);
    let dups = r.chance(1, 4);
    let a = gen_sorted_pairs(r, na, vmax, rmax, dups);
    let mut b = gen_sorted_pairs(r, nb, vmax, rmax, dups);
    if r.chance(1, 3) && !a.is_empty() {
        // force shared pairs (a value present in several columns of one row)
        for _ in 0..1 + r.below(3) {
            b.push(*r.pick(&a));
        }
        b.sort_unstable();
        if !dups {
            b.dedup();
        }
    }
    let first = a.first().into_iter().chain(b.first()).min().copied();
    let prefix = match r.below(4) {
        0 => vec![],
        // `out` ends with exactly the first pair this call will emit: the dedup must NOT reach back
        1 => first.map(|p| vec![(0, 0), p]).unwrap_or_default(),
        2 => first.map(|p| vec![p]).unwrap_or_default(),
        _ => gen_sorted_pairs(r, 3, vmax, rmax, false),
    };
    Case::Merge { a, b, prefix }
}

fn main() {
    let o = verif_harness::parse_opts();
    std::process::exit(run(&o));
}

pub fn run(o: &Opts) -> i32 {
    let header = "From Coq Require Import List NArith.\nImport ListNotations.\nRequire Import Verif.Base.Cases Verif.Index.Prelude Verif.Index.Cases.\nLocal Open Scope N_scope.\n";
    let mut w = CaseWriter::new(&o.out, "cases_index", header, "check_case", 110);
    let mut st = Stats::default();
    let mut violations: Vec<Viol> = Vec::new();
    let mut distinct: HashSet<Case> = HashSet::new();
    let mut nontrivial = 0usize;
    let mut nontrivial_by_kind: BTreeMap<String, usize> = BTreeMap::new();
    let mut samples: Vec<String> = Vec::new();

    let mut emit = |c: Case, w: &mut CaseWriter, st: &mut Stats, own_shard: bool| {
        let (term, viol, nt) = run_case(&c, st);
        if distinct.insert(c.clone()) && nt {
            nontrivial += 1;
            bump(&mut nontrivial_by_kind, c.kind(), 1);
        }
        violations.extend(viol);
        if let Some(t) = term {
            let small = t.len() < 400;
            if small && samples.len() < 6 && (nt || matches!(c, Case::Passes { .. })) && !samples.iter().any(|s: &String| s.contains(c.kind())) {
                samples.push(format!("{{\"case\":{},\"coq\":{}}}", c.json(), json_str(&t)));
            }
            if own_shard {
                w.flush();
            }
            w.push(format!("({t})"));
            if own_shard {
                w.flush();
            }
        }
    };

    if let Some(path) = &o.replay {
        let txt = std::fs::read_to_string(path).expect("replay file");
        let v: J = serde_json::from_str(&txt).expect("json");
        // either a case, or an evidence replay file wrapping violation.input
        let v = if v.get("kind").and_then(|k| k.as_str()).map(|k| ["radix", "passes", "scan", "bsf", "merge"].contains(&k)).unwrap_or(false) {
            v
        } else {
            v["violation"]["input"].clone()
        };
        emit(Case::from_json(&v), &mut w, &mut st, false);
    } else {
        // ---- corpus first ---------------------------------------------------------------------
        let corpus = std::path::Path::new(env!("CARGO_MANIFEST_DIR")).join("../corpus/idx");
        if let Ok(rd) = std::fs::read_dir(&corpus) {
            let mut files: Vec<_> = rd.flatten().map(|e| e.path()).filter(|p| p.extension().map(|x| x == "json").unwrap_or(false)).collect();
            files.sort();
            for f in files {
                let v: J = serde_json::from_str(&std::fs::read_to_string(&f).unwrap()).expect("corpus json");
                emit(Case::from_json(&v), &mut w, &mut st, false);
            }
        }
        let mut idx: u64 = 0;
        let mut next_rng = |seed: u64| -> Rng {
            idx += 1;
            Rng::for_case(seed, idx)
        };
        // ---- radix_passes_for: every boundary and its neighbours, plus random values ------------
        let mut ms: BTreeSet<u32> = BTreeSet::new();
        for m in MAXIMA {
            for d in [-2i64, -1, 0, 1, 2] {
                let x = m as i64 + d;
                if (0..=u32::MAX as i64).contains(&x) {
                    ms.insert(x as u32);
                }
            }
        }
        ms.insert(0);
        ms.insert(1);
        for _ in 0..(if o.thorough { 400 } else { 40 }) {
            let mut r = next_rng(o.seed);
            let bits = 1 + r.below(32);
            ms.insert((r.next() & ((1u64 << bits) - 1)) as u32);
        }
        for m in ms {
            emit(Case::Passes { max: m }, &mut w, &mut st, false);
        }
        // ---- radix sort: boundary maxima x sizes around the 64 cut-off x shapes ------------------
        let sizes: &[usize] = if o.thorough { &[0, 1, 2, 10, 63, 64, 65, 100, 300, 1000] } else { &[0, 1, 2, 10, 63, 64, 65, 100, 300] };
        for &max in &MAXIMA {
            for &n in sizes {
                for (si, shape) in SHAPES.iter().enumerate() {
                    let mut r = next_rng(o.seed);
                    // quick tier: the largest size only for every other shape (alternating with the maximum)
                    if !o.thorough && n >= 300 && (si + max as usize) % 2 == 0 {
                        continue;
                    }
                    emit(gen_radix(&mut r, n, max, shape), &mut w, &mut st, n >= 1000);
                }
            }
        }
        // big blocks (own shard each)
        let bigs: &[(usize, u32, &str)] = if o.thorough {
            &[(5000, 1 << 24, "random"), (5000, u32::MAX - 1, "descending"), (5000, 65536, "random"), (5000, 255, "dups"), (5000, (1 << 24) - 1, "highbytes"), (5000, 1 << 31, "bytes"), (20000, 1 << 24, "maxfirst")]
        } else {
            &[(5000, 1 << 24, "maxfirst"), (5000, u32::MAX - 1, "descending")]
        };
        for &(n, max, shape) in bigs {
            let mut r = next_rng(o.seed);
            emit(gen_radix(&mut r, n, max, shape), &mut w, &mut st, true);
        }
        // random blocks
        for _ in 0..(if o.thorough { 1500 } else { 70 }) {
            let mut r = next_rng(o.seed);
            let n = if r.chance(1, 3) { r.below(64) } else { 64 + r.below(if o.thorough { 340 } else { 160 }) };
            let bits = 1 + r.below(32);
            let max = ((r.next() & ((1u64 << bits) - 1)) as u32).max(1);
            let shape = *r.pick(&SHAPES);
            emit(gen_radix(&mut r, n, max, shape), &mut w, &mut st, false);
        }
        // ---- searches: slices of every kind and size, all starts, present / absent / duplicate targets
        let lens: &[usize] = &[0, 1, 2, 3, 4, 5, 7, 8, 9, 16, 17, 33, 64, 100, 257];
        for kind in ["dense", "gapped", "runs", "clusters"] {
            for &n in lens {
                for rep in 0..(if o.thorough { 3 } else { 1 }) {
                    let mut r = next_rng(o.seed);
                    let s = gen_slice(&mut r, n, kind);
                    let q = gen_queries(&mut r, &s, if o.thorough { 33 } else { 9 }, if o.thorough { 30 } else { 12 });
                    let tag = format!("{kind}#{rep}");
                    emit(Case::Scan { slice: s.clone(), queries: q.clone(), tag: tag.clone() }, &mut w, &mut st, false);
                    emit(Case::Bsf { slice: s, queries: q, tag }, &mut w, &mut st, false);
                }
            }
        }
        let big_kinds: &[&str] = if o.thorough { &["gapped", "runs", "clusters"] } else { &["runs", "clusters"] };
        for kind in big_kinds {
            let mut r = next_rng(o.seed);
            let s = gen_slice(&mut r, 5000, kind);
            let q = gen_queries(&mut r, &s, 0, if o.thorough { 40 } else { 6 });
            emit(Case::Scan { slice: s.clone(), queries: q.clone(), tag: format!("{kind}-big") }, &mut w, &mut st, true);
            emit(Case::Bsf { slice: s, queries: q, tag: format!("{kind}-big") }, &mut w, &mut st, true);
        }
        // ---- merges ----------------------------------------------------------------------------------
        for _ in 0..(if o.thorough { 3000 } else { 300 }) {
            let mut r = next_rng(o.seed);
            emit(gen_merge(&mut r), &mut w, &mut st, false);
        }
    }
    w.flush();
    let hist = |h: &BTreeMap<String, usize>| serde_json::to_string(h).unwrap();
    let report = format!(
        "{{\"sub\":\"index\",\"cases\":{},\"shards\":{},\"distinct_nontrivial\":{},\"nontrivial_by_kind\":{},\"search_queries\":{},\"impl_panics\":{},\"rule\":{},\"kind_hist\":{},\"radix_size_hist\":{},\"radix_shape_hist\":{},\"radix_max_hist\":{},\"radix_branch_hist\":{},\"search_len_hist\":{},\"search_result_hist\":{},\"merge_hist\":{},\"samples\":[{}],\"violations\":[{}]}}\n",
        w.total,
        w.shards,
        nontrivial,
        hist(&nontrivial_by_kind),
        st.queries,
        st.panics,
        json_str("corpus/idx seeds, then structured + seeded random inputs run through hook H6. radix sort: block maximum exactly at 255/256/65535/65536/2^24-1/2^24/2^24+1/2^31/u32::MAX-1/u32::MAX x sizes 0,1,2,10,63,64,65,100,300 (+5000) x shapes random/sorted/descending/few-distinct/one-byte/max-first/max-last/high-bytes, row ids ascending (1 in 8 weakly), scratch longer than needed and pre-filled with garbage in some, plus random blocks; non-trivial iff n >= 64 and the values are not already ascending (the radix passes run). radix_passes_for: every boundary +-2 and random values. searches: dense/gapped/duplicate-run/clustered sorted slices of 0..257 (+5000) offsets, ALL starts x (every element, element+-1, 0, u32::MAX) up to 9 offsets (33 at the thorough tier), sampled beyond; a scan case is non-trivial iff some query galloped >= 2 probes and ended Ok and another ended Err; a binary_search_from case iff some query with start > 0 found its target with everything before start below it. merges: sorted runs over small and huge universes, shared pairs forced, duplicates inside a run in 1 of 4, out empty / ending with the first merged pair / arbitrary; non-trivial iff both runs non-empty and sharing a pair. distinct by the whole input"),
        hist(&st.kind_hist),
        hist(&st.radix_size_hist),
        hist(&st.radix_tag_hist),
        hist(&st.radix_max_hist),
        hist(&st.radix_branch_hist),
        hist(&st.search_len_hist),
        hist(&st.search_result_hist),
        hist(&st.merge_hist),
        samples.join(","),
        violations
            .iter()
            .take(20)
            .map(|v| format!("{{\"key\":{},\"what\":{},\"input\":{}}}", json_str(v.key), json_str(&v.what), v.input))
            .collect::<Vec<_>>()
            .join(",")
    );
    std::fs::write(o.out.join("impl_report.json"), report).unwrap();
    0
}
