(** C19 / nested scopes on one pool: definitions only.

    The one-scope system (ScopeModel.v) says nothing about WHO runs a queued job. This system
    models the whole pool: N threads of which the first W (W >= 1) are the pool's background
    workers, ONE shared job queue, any number of scopes opened at any nesting depth, and the
    waiting rule of [wait_for_scope_completion]: a thread that is not a background worker blocks
    on the done channel; a background worker that waits for a nested scope keeps popping jobs from
    the shared queue and runs them on top of its own stack ("helping").
    The per-scope counters are abstracted to [out sc] = expected - completed (their exactness is
    Scope.v's theorem); [done sc] = the completion message has been sent.
    A thread is a stack of frames (top first): [FTask sc] a spawned task of scope sc is running,
    [FRoot sc] the root callback of scope sc is running, [FWait sc] inside [scope()] waiting for sc.
    A body (FTask/FRoot on top) may open a nested scope, spawn into its own scope, or finish.
    Abstractions, named: spawning into an ENCLOSING scope from a nested body is not in this model (it
    is in ScopeModel.v); expect_one/enqueue are merged (a thread between the two is running, hence
    enabled); inline help depth is unbounded (the implementation switches to a BackupWorker thread
    after 64 levels, which consumes the queue in the waiter's place); bodies never block on
    anything but nested scopes. *)
From Coq Require Import List Arith Bool Lia.
Import ListNotations.
Require Import Verif.Base.Res.

Inductive frame := FTask (sc : nat) | FRoot (sc : nat) | FWait (sc : nat).

Definition fid (f : frame) : nat := match f with FTask a | FRoot a | FWait a => a end.
Definition is_body (a : nat) (f : frame) : bool :=
  match f with FTask b | FRoot b => Nat.eqb a b | FWait _ => false end.
Definition is_scope (f : frame) : bool := match f with FTask _ => false | _ => true end.
(** may this stack's owner execute user code (open a scope) right now? *)
Definition can_run (stk : list frame) : bool :=
  match stk with FWait _ :: _ => false | _ => true end.

Record st := mk {
  queue : list nat;                 (* the shared channel: each job tagged with its scope *)
  stacks : list (list frame);       (* one stack per thread *)
  out : nat -> nat;                 (* expected - completed of each scope *)
  done : nat -> bool;               (* completion signalled *)
  next : nat                        (* next fresh scope id *)
}.

Definition updf {A} (f : nat -> A) (i : nat) (v : A) : nat -> A :=
  fun x => if Nat.eqb x i then v else f x.

Section Pool.
Variable W : nat.          (* background workers are threads 0 .. W-1 *)

Inductive step : st -> st -> Prop :=
| NOpen s t stk : t < length (stacks s) -> nth t (stacks s) [] = stk -> can_run stk = true ->
    step s (mk (queue s) (set_nth (stacks s) t (FRoot (next s) :: stk))
               (updf (out s) (next s) 1) (updf (done s) (next s) false) (S (next s)))
| NSpawn s t b rest a : nth t (stacks s) [] = b :: rest -> is_body a b = true ->
    step s (mk (a :: queue s) (stacks s) (updf (out s) a (S (out s a))) (done s) (next s))
| NFinishTask s t a rest : nth t (stacks s) [] = FTask a :: rest ->
    step s (mk (queue s) (set_nth (stacks s) t rest)
               (updf (out s) a (out s a - 1)) (updf (done s) a (Nat.eqb (out s a) 1)) (next s))
| NFinishRoot s t a rest : nth t (stacks s) [] = FRoot a :: rest ->
    step s (mk (queue s)
               (set_nth (stacks s) t (if Nat.eqb (out s a) 1 then rest else FWait a :: rest))
               (updf (out s) a (out s a - 1)) (updf (done s) a (Nat.eqb (out s a) 1)) (next s))
| NWake s t a rest : nth t (stacks s) [] = FWait a :: rest -> done s a = true ->
    step s (mk (queue s) (set_nth (stacks s) t rest) (out s) (done s) (next s))
| NStart s t a q1 q2 : t < W -> t < length (stacks s) -> nth t (stacks s) [] = [] ->
    queue s = q1 ++ a :: q2 ->
    step s (mk (q1 ++ q2) (set_nth (stacks s) t [FTask a]) (out s) (done s) (next s))
| NHelp s t n rest a q1 q2 : t < W -> nth t (stacks s) [] = FWait n :: rest ->
    queue s = q1 ++ a :: q2 ->
    step s (mk (q1 ++ q2) (set_nth (stacks s) t (FTask a :: FWait n :: rest))
               (out s) (done s) (next s)).

Definition init (N : nat) : st := mk [] (repeat [] N) (fun _ => 0) (fun _ => false) 0.

Inductive reachable (N : nat) : st -> Prop :=
| reach_init : reachable N (init N)
| reach_step s s' : reachable N s -> step s s' -> reachable N s'.
End Pool.
