(** C10 — executable definitions over the schedule interpreter (no proofs here, so the model still
    runs when a proof breaks).

    [run_schedule], [run_rules], [RunReport_default/union/singleton] and [collect_rule_ids] come
    from SchedFns (regenerated from src/lib.rs and egglog-reports/src/lib.rs by the translator on
    every run).  [run_schedule step holds fuel s sched] is parametric in
      step  : St -> R -> St * RunReport I      ([EGraph::step_rules], one iteration of a ruleset)
      holds : St -> F -> bool                  ([check_facts(..).is_ok()], the [:until] test)
    so everything proved about it holds for every program and every engine.  [fuel] bounds the
    number of iterations of each [Saturate] loop (the only unbounded loop). *)
From Coq Require Import List Arith PeanoNat Bool.
Import ListNotations.
Require Import Verif.Base.Res Verif.Base.Cases Verif.Sched.Syntax Verif.gen.SchedFns.

Section Algebra.
Context {St R F I : Type}.
Variable step : St -> R -> St * RunReport I.
Variable holds : St -> F -> bool.

Definition exec (fuel : nat) (s : St) (sched : schedule R F) : Res (St * RunReport I) :=
  run_schedule step holds fuel s sched.

(** the three loops of [run_schedule] as stand-alone functions of the loop body *)
Section Loops.
Variable body : St -> Res (St * RunReport I).
Fixpoint repeat_loop (n : nat) (s : St) (acc : RunReport I) : Res (St * RunReport I) :=
  match n with
  | O => Ok (s, acc)
  | S n => bind (body s) (fun '(s', rec) =>
           if can_stop rec then Ok (s', RunReport_union acc rec)
           else repeat_loop n s' (RunReport_union acc rec))
  end.

Fixpoint saturate_loop (gas : nat) (s : St) (acc : RunReport I) : Res (St * RunReport I) :=
  match gas with
  | O => OutOfFuel
  | S gas => bind (body s) (fun '(s', rec) =>
             if negb (updated rec) then Ok (s', RunReport_union acc rec)
             else saturate_loop gas s' (RunReport_union acc rec))
  end.

Variable run : St -> schedule R F -> Res (St * RunReport I).
Fixpoint seq_loop (l : list (schedule R F)) (s : St) (acc : RunReport I) : Res (St * RunReport I) :=
  match l with
  | [] => Ok (s, acc)
  | x :: l => bind (run s x) (fun '(s', rec) => seq_loop l s' (RunReport_union acc rec))
  end.
End Loops.

(** prefix a report to a result *)
Definition racc (acc : RunReport I) (res : Res (St * RunReport I)) : Res (St * RunReport I) :=
  match res with
  | Ok (s, r) => Ok (s, RunReport_union acc r)
  | Panic => Panic
  | OutOfFuel => OutOfFuel
  end.

(** SPECIFICATION of [(run R n :until f)]: at most [n] single iterations of ruleset [r]; before
    each one the [:until] facts are tested and the run ends, without stepping, if they hold;
    after each one the run ends if that iteration reported no change. *)
Definition until_holds (s : St) (u : option F) : bool :=
  match u with Some f => holds s f | None => false end.

Fixpoint iterate (r : R) (u : option F) (n : nat) (s : St) (acc : RunReport I) : St * RunReport I :=
  match n with
  | O => (s, acc)
  | S n =>
    if until_holds s u then (s, acc)
    else let '(s', rep) := step s r in
         if updated rep then iterate r u n s' (RunReport_union acc rep)
         else (s', RunReport_union acc rep)
  end.

(** [no_early_stop fuel sched n s]: the first [n] successive executions of [sched] from [s] all
    return with [can_stop = false] *)
Fixpoint no_early_stop (fuel : nat) (sched : schedule R F) (n : nat) (s : St) : Prop :=
  match n with
  | O => True
  | S n => exists s' r, exec fuel s sched = Ok (s', r) /\ can_stop r = false
                        /\ no_early_stop fuel sched n s'
  end.

(** leaves report [can_stop = not updated] (true of [RunReport::singleton], i.e. of every
    [step_rules]; a custom scheduler may report otherwise) *)
Definition singleton_like : Prop :=
  forall s r, can_stop (snd (step s r)) = negb (updated (snd (step s r))).

(** an iteration that reports no update leaves the state as it was *)
Definition quiescent : Prop :=
  forall s r, updated (snd (step s r)) = false -> fst (step s r) = s.
End Algebra.

(** [step_rules] as the code builds it: one backend iteration wrapped by [RunReport::singleton] *)
Definition step_of {St R I} (backend_run : St -> R -> St * I) (changed : I -> bool)
  (s : St) (r : R) : St * RunReport I :=
  let '(s', it) := backend_run s r in (s', RunReport_singleton changed it).

(** ** Combined rulesets: the table and [add_rule] *)
Fixpoint add_rule (m : list (nat * ruleset_def)) (name id : nat) : list (nat * ruleset_def) :=
  match m with
  | [] => []
  | (k, d) :: tl =>
    if Nat.eqb k name then
      (k, match d with Rules l => Rules (l ++ [id]) | Combined c => Combined c end) :: tl
    else (k, d) :: add_rule tl name id
  end.

(** the current members of a ruleset, as a relation on the table *)
Inductive members (m : list (nat * ruleset_def)) : nat -> list nat -> Prop :=
| members_rules name rules : assoc_get m name = Some (Rules rules) -> members m name rules
| members_combined name subs ids :
    assoc_get m name = Some (Combined subs) -> members_list m subs ids -> members m name ids
with members_list (m : list (nat * ruleset_def)) : list nat -> list nat -> Prop :=
| members_nil : members_list m [] []
| members_cons x l ids1 ids2 : members m x ids1 -> members_list m l ids2 -> members_list m (x :: l) (ids1 ++ ids2).

(** ** Correspondence oracle (harness h_sched).
    The real engine ran a composite schedule and reported, per iteration, which ruleset ran and
    whether it changed the database; the harness also replayed that leaf sequence one
    [step_rules] at a time and recorded, at every position, which [:until] fact sets held.
    State = number of leaf steps taken so far. *)
Definition oracle_step (flags : list bool) (k : nat) (r : nat) : nat * RunReport (nat * bool) :=
  (S k, RunReport_singleton (@snd nat bool) (r, nth k flags false)).
Definition oracle_holds (tbl : list (list bool)) (k : nat) (f : nat) : bool :=
  nth f (nth k tbl []) false.

Definition pair_eqb (a b : nat * bool) : bool := Nat.eqb (fst a) (fst b) && Bool.eqb (snd a) (snd b).

(** case = (schedule, per-iteration changed flags, until table, expected (ruleset, changed) trace,
    expected updated, expected can_stop) *)
Definition check_case
  (c : schedule nat nat * list bool * list (list bool) * list (nat * bool) * bool * bool) : bool :=
  let '(sched, flags, tbl, trace, eu, ec) := c in
  match run_schedule (oracle_step flags) (oracle_holds tbl) (S (length flags)) 0 sched with
  | Ok (k, rep) =>
      Nat.eqb k (length flags) && list_eqb pair_eqb (iterations rep) trace
      && Bool.eqb (updated rep) eu && Bool.eqb (can_stop rep) ec
  | _ => false
  end.

(** case for the combined-ruleset resolution: (table, name, expected ids) *)
Definition check_collect (c : list (nat * ruleset_def) * nat * list nat) : bool :=
  let '(m, name, expected) := c in
  match collect_rule_ids (S (length m)) name m [] with
  | Ok ids => list_eqb Nat.eqb ids expected
  | _ => false
  end.

Inductive case : Type :=
| CSched (c : schedule nat nat * list bool * list (list bool) * list (nat * bool) * bool * bool)
| CColl (c : list (nat * ruleset_def) * nat * list nat).

Definition check_any (c : case) : bool :=
  match c with
  | CSched x => check_case x
  | CColl x => check_collect x
  end.
