//! Extension module (Tier A, property C19). Output: coq/gen/CountsFns.v
//! Contract: return (text of the .v file, report lines). Each report line is one JSON object
//! {"item":"CountsFns.<name>","file":"<rust file>","ok":true|false[,"error":"..."]}.
//! Fail closed: when a site is not recognised, OMIT the Gallina definition (so dependent proofs stop
//! compiling) and push an ok:false report line.
//!
//! Three groups of items:
//!  A. `AtomicCounts` packing of concurrency/src/threadpool/mod.rs, as Gallina over `N` with an
//!     explicit `mod 2^w` after every wrapping operation (`w` = width of the Rust type):
//!     `EXPECTED_SHIFT`, `COMPLETED_MASK`, `completed`, `expected`, `with_root_callback`,
//!     `expect_one_guard` / `expect_one_next` (assert condition and CAS target of
//!     `AtomicCounts::expect_one`), `complete_one_next` (`fetch_add` operand of
//!     `AtomicCounts::complete_one`, which must return the previous word),
//!     `scope_complete_is_last` (the test that decides `try_send` in `ScopeState::complete_one`).
//!  B. `atomic_sites`: every atomic operation (method call taking a `std::sync::atomic::Ordering`,
//!     `fence`, and every `fetch_*` / `compare_exchange*` call) in concurrency/src and
//!     union-find/src/concurrent, outside `#[cfg(test)]` / `#[cfg(egglog_verif)]` items, with the
//!     enclosing function and its orderings (constants of type `Ordering` are resolved).
//!  C. `prog_*`: the synchronisation operations, in program order and with the control structure
//!     (loop / match on the token / if / return / continue), of `ReadOptimizedLock::read`,
//!     `ReadOptimizedLock::lock`, `MutexWriter::drop`, `TriggerWhenDone::drop`,
//!     `Notification::{wait, notify, has_been_notified}`.

use std::collections::BTreeMap;
use std::path::{Path, PathBuf};
use syn::visit::{self, Visit};
use syn::{spanned::Spanned, BinOp, Expr, FnArg, ImplItem, Item, Lit, Pat, Stmt, Type};

type R<T> = Result<T, String>;

fn err<T, S: Spanned>(s: &S, msg: &str) -> R<T> {
    Err(format!("line {}: {}", s.span().start().line, msg))
}

const POOL: &str = "concurrency/src/threadpool/mod.rs";
const LIBRS: &str = "concurrency/src/lib.rs";
const NOTIF: &str = "concurrency/src/notification.rs";

const M32: &str = "4294967296";
const M64: &str = "18446744073709551616";

// ------------------------------------------------------------------------------------------------
// A. integer expressions over u32 / u64
// ------------------------------------------------------------------------------------------------

#[derive(Clone, Copy, PartialEq, Debug)]
enum Ty {
    U32,
    U64,
    Bool,
    Lit,
}

fn modulus(t: Ty) -> Option<&'static str> {
    match t {
        Ty::U32 => Some(M32),
        Ty::U64 => Some(M64),
        _ => None,
    }
}

fn ty_of(t: &Type) -> Option<Ty> {
    if let Type::Path(p) = t {
        if let Some(id) = p.path.get_ident() {
            return match id.to_string().as_str() {
                "u32" => Some(Ty::U32),
                "u64" => Some(Ty::U64),
                "bool" => Some(Ty::Bool),
                _ => None,
            };
        }
    }
    None
}

#[derive(Default, Clone)]
struct Env {
    /// rust name -> (coq name, type)
    vars: Vec<(String, String, Ty)>,
    /// translated unary functions u64 -> u32 (rust name = coq name)
    fns: Vec<String>,
}

impl Env {
    fn lookup(&self, n: &str) -> Option<(String, Ty)> {
        self.vars.iter().rev().find(|(r, _, _)| r == n).map(|(_, c, t)| (c.clone(), *t))
    }
}

fn unify<S: Spanned>(at: &S, a: Ty, b: Ty) -> R<Ty> {
    match (a, b) {
        (Ty::Lit, Ty::Lit) => Ok(Ty::Lit),
        (Ty::Lit, t) | (t, Ty::Lit) if t != Ty::Bool => Ok(t),
        (x, y) if x == y && x != Ty::Bool => Ok(x),
        _ => err(at, &format!("operand types differ ({a:?} vs {b:?})")),
    }
}

fn tr(e: &Expr, env: &Env, want: Option<Ty>) -> R<(String, Ty)> {
    match e {
        Expr::Paren(p) => tr(&p.expr, env, want),
        Expr::Group(p) => tr(&p.expr, env, want),
        Expr::Lit(l) => match &l.lit {
            Lit::Int(i) => {
                let v: u128 = i.base10_parse().map_err(|_| format!("line {}: literal", e.span().start().line))?;
                let t = match i.suffix() {
                    "" => want.filter(|t| *t != Ty::Bool).unwrap_or(Ty::Lit),
                    "u32" => Ty::U32,
                    "u64" => Ty::U64,
                    s => return err(e, &format!("literal suffix {s}")),
                };
                Ok((format!("{v}"), t))
            }
            Lit::Bool(b) => Ok((format!("{}", b.value), Ty::Bool)),
            _ => err(e, "unsupported literal"),
        },
        Expr::Path(p) => {
            let segs: Vec<String> = p.path.segments.iter().map(|s| s.ident.to_string()).collect();
            if segs.len() == 1 {
                if let Some((c, t)) = env.lookup(&segs[0]) {
                    return Ok((c, t));
                }
                return err(e, &format!("unknown name {}", segs[0]));
            }
            if segs.len() == 2 && segs[1] == "MAX" {
                return match segs[0].as_str() {
                    "u32" => Ok(("4294967295".into(), Ty::U32)),
                    "u64" => Ok(("18446744073709551615".into(), Ty::U64)),
                    _ => err(e, "unsupported ::MAX"),
                };
            }
            err(e, "unsupported path")
        }
        Expr::Cast(c) => {
            let to = ty_of(&c.ty).filter(|t| *t != Ty::Bool).ok_or(format!("line {}: cast target", e.span().start().line))?;
            let (s, from) = tr(&c.expr, env, None)?;
            if from == Ty::Bool {
                return err(e, "cast from bool");
            }
            if from == Ty::U32 && to == Ty::U64 {
                Ok((s, to))
            } else if from == to {
                Ok((s, to))
            } else {
                Ok((format!("(N.modulo {s} {})", modulus(to).unwrap()), to))
            }
        }
        Expr::Call(c) => {
            if let Expr::Path(p) = &*c.func {
                if let Some(id) = p.path.get_ident() {
                    let n = id.to_string();
                    if env.fns.contains(&n) && c.args.len() == 1 {
                        let (a, t) = tr(&c.args[0], env, Some(Ty::U64))?;
                        if t != Ty::U64 {
                            return err(e, "argument of a packed-word accessor must be u64");
                        }
                        return Ok((format!("({n} {a})"), Ty::U32));
                    }
                }
            }
            err(e, "unsupported call")
        }
        Expr::Unary(u) => match u.op {
            syn::UnOp::Not(_) => {
                let (a, t) = tr(&u.expr, env, want)?;
                if t == Ty::Bool {
                    Ok((format!("(negb {a})"), Ty::Bool))
                } else {
                    err(e, "bitwise not unsupported")
                }
            }
            _ => err(e, "unsupported unary operator"),
        },
        Expr::Binary(b) => {
            let arith = |coq: &str, wrap: bool| -> R<(String, Ty)> {
                let (l0, lt0) = tr(&b.left, env, want)?;
                let (r, rt) = tr(&b.right, env, Some(lt0).filter(|t| *t != Ty::Lit).or(want))?;
                let (l, lt) = if lt0 == Ty::Lit && rt != Ty::Lit { tr(&b.left, env, Some(rt))? } else { (l0, lt0) };
                let t = unify(e, lt, rt)?;
                if wrap {
                    let m = modulus(t).ok_or(format!("line {}: width of a wrapping operation unknown", e.span().start().line))?;
                    Ok((format!("(N.modulo ({coq} {l} {r}) {m})"), t))
                } else {
                    Ok((format!("({coq} {l} {r})"), t))
                }
            };
            let cmp = |coq: &str, swap: bool, neg: bool| -> R<(String, Ty)> {
                let (l0, lt0) = tr(&b.left, env, None)?;
                let (r, rt) = tr(&b.right, env, Some(lt0).filter(|t| *t != Ty::Lit))?;
                let (l, lt) = if lt0 == Ty::Lit && rt != Ty::Lit { tr(&b.left, env, Some(rt))? } else { (l0, lt0) };
                unify(e, lt, rt)?;
                let s = if swap { format!("({coq} {r} {l})") } else { format!("({coq} {l} {r})") };
                Ok((if neg { format!("(negb {s})") } else { s }, Ty::Bool))
            };
            match b.op {
                BinOp::Add(_) => arith("N.add", true),
                BinOp::Mul(_) => arith("N.mul", true),
                BinOp::BitAnd(_) => arith("N.land", false),
                BinOp::BitOr(_) => arith("N.lor", false),
                BinOp::BitXor(_) => arith("N.lxor", false),
                BinOp::Sub(_) => {
                    let (l, lt) = tr(&b.left, env, want)?;
                    let (r, rt) = tr(&b.right, env, Some(lt).filter(|t| *t != Ty::Lit).or(want))?;
                    let t = unify(e, lt, rt)?;
                    let m = modulus(t).ok_or(format!("line {}: width of a wrapping operation unknown", e.span().start().line))?;
                    Ok((format!("(N.modulo (N.sub (N.add {l} {m}) {r}) {m})"), t))
                }
                BinOp::Shl(_) | BinOp::Shr(_) => {
                    let (l, lt) = tr(&b.left, env, want)?;
                    let (r, rt) = tr(&b.right, env, None)?;
                    if rt == Ty::Bool || lt == Ty::Bool {
                        return err(e, "shift of bool");
                    }
                    let m = modulus(lt).ok_or(format!("line {}: width of the shifted value unknown", e.span().start().line))?;
                    if matches!(b.op, BinOp::Shl(_)) {
                        Ok((format!("(N.modulo (N.shiftl {l} {r}) {m})"), lt))
                    } else {
                        Ok((format!("(N.shiftr {l} {r})"), lt))
                    }
                }
                BinOp::Eq(_) => cmp("N.eqb", false, false),
                BinOp::Ne(_) => cmp("N.eqb", false, true),
                BinOp::Lt(_) => cmp("N.ltb", false, false),
                BinOp::Le(_) => cmp("N.leb", false, false),
                BinOp::Gt(_) => cmp("N.ltb", true, false),
                BinOp::Ge(_) => cmp("N.leb", true, false),
                BinOp::And(_) => {
                    let (l, _) = tr(&b.left, env, Some(Ty::Bool))?;
                    let (r, _) = tr(&b.right, env, Some(Ty::Bool))?;
                    Ok((format!("(andb {l} {r})"), Ty::Bool))
                }
                BinOp::Or(_) => {
                    let (l, _) = tr(&b.left, env, Some(Ty::Bool))?;
                    let (r, _) = tr(&b.right, env, Some(Ty::Bool))?;
                    Ok((format!("(orb {l} {r})"), Ty::Bool))
                }
                _ => err(e, "unsupported binary operator"),
            }
        }
        _ => err(e, "unsupported expression"),
    }
}

fn find_const<'a>(file: &'a syn::File, name: &str) -> Option<&'a syn::ItemConst> {
    file.items.iter().find_map(|i| match i {
        Item::Const(c) if c.ident == name => Some(c),
        _ => None,
    })
}

fn find_fn<'a>(file: &'a syn::File, name: &str) -> Option<&'a syn::ItemFn> {
    file.items.iter().find_map(|i| match i {
        Item::Fn(f) if f.sig.ident == name => Some(f),
        _ => None,
    })
}

fn self_ty_name(i: &syn::ItemImpl) -> Option<String> {
    if let Type::Path(p) = &*i.self_ty {
        return p.path.segments.last().map(|s| s.ident.to_string());
    }
    None
}

fn find_method<'a>(file: &'a syn::File, ty: &str, name: &str) -> Option<&'a syn::ImplItemFn> {
    for i in &file.items {
        if let Item::Impl(im) = i {
            if self_ty_name(im).as_deref() == Some(ty) {
                for it in &im.items {
                    if let ImplItem::Fn(f) = it {
                        if f.sig.ident == name {
                            return Some(f);
                        }
                    }
                }
            }
        }
    }
    None
}

fn has_cfg(attrs: &[syn::Attribute]) -> bool {
    attrs.iter().any(|a| a.path().is_ident("cfg"))
}

fn live_stmts(b: &syn::Block) -> Vec<&Stmt> {
    b.stmts
        .iter()
        .filter(|s| match s {
            Stmt::Local(l) => !has_cfg(&l.attrs),
            Stmt::Macro(m) => !has_cfg(&m.attrs),
            Stmt::Expr(e, _) => !expr_has_cfg(e),
            Stmt::Item(_) => true,
        })
        .collect()
}

fn expr_has_cfg(e: &Expr) -> bool {
    match e {
        Expr::MethodCall(m) => has_cfg(&m.attrs),
        Expr::Call(m) => has_cfg(&m.attrs),
        Expr::Macro(m) => has_cfg(&m.attrs),
        Expr::Block(m) => has_cfg(&m.attrs),
        Expr::If(m) => has_cfg(&m.attrs),
        _ => false,
    }
}

fn pat_ident(p: &Pat) -> Option<String> {
    match p {
        Pat::Ident(i) if i.by_ref.is_none() && i.subpat.is_none() => Some(i.ident.to_string()),
        _ => None,
    }
}

/// `self.0.<method>(args)` or `self.<field>.<method>(args)`
fn self_field_call<'a>(e: &'a Expr, method: &str) -> Option<&'a syn::ExprMethodCall> {
    if let Expr::MethodCall(m) = e {
        if m.method == method {
            if let Expr::Field(f) = &*m.receiver {
                if let Expr::Path(p) = &*f.base {
                    if p.path.is_ident("self") {
                        return Some(m);
                    }
                }
            }
        }
    }
    None
}

fn is_ident(e: &Expr, n: &str) -> bool {
    matches!(e, Expr::Path(p) if p.path.is_ident(n))
}

fn macro_first_arg(m: &syn::Macro) -> R<Expr> {
    let args = m
        .parse_body_with(syn::punctuated::Punctuated::<Expr, syn::Token![,]>::parse_terminated)
        .map_err(|e| format!("cannot parse macro arguments: {e}"))?;
    args.into_iter().next().ok_or("macro without arguments".to_string())
}

struct Out {
    text: String,
    report: Vec<String>,
}

impl Out {
    fn ok(&mut self, item: &str, file: &str, def: String) {
        self.text.push_str(&def);
        self.text.push('\n');
        self.report.push(format!("{{\"item\":\"CountsFns.{item}\",\"file\":\"{file}\",\"ok\":true}}"));
    }
    fn fail(&mut self, item: &str, file: &str, e: &str) {
        self.text.push_str(&format!("(* CountsFns.{item}: NOT TRANSLATED: {} *)\n", e.replace("*)", "* )")));
        self.report.push(format!("{{\"item\":\"CountsFns.{item}\",\"file\":\"{file}\",\"ok\":false,\"error\":{:?}}}", e));
    }
    fn put(&mut self, item: &str, file: &str, r: R<String>) -> bool {
        match r {
            Ok(d) => {
                self.ok(item, file, d);
                true
            }
            Err(e) => {
                self.fail(item, file, &e);
                false
            }
        }
    }
}

fn gen_counts(repo: &Path, out: &mut Out) {
    let names = [
        "EXPECTED_SHIFT",
        "COMPLETED_MASK",
        "completed",
        "expected",
        "with_root_callback",
        "expect_one",
        "complete_one",
        "scope_complete_is_last",
    ];
    let src = match std::fs::read_to_string(repo.join(POOL)) {
        Ok(s) => s,
        Err(e) => {
            for n in names {
                out.fail(n, POOL, &format!("cannot read: {e}"));
            }
            return;
        }
    };
    let file = match syn::parse_file(&src) {
        Ok(f) => f,
        Err(e) => {
            for n in names {
                out.fail(n, POOL, &format!("cannot parse: {e}"));
            }
            return;
        }
    };
    out.text.push_str("(** ** A. AtomicCounts packing (concurrency/src/threadpool/mod.rs) *)\n");
    let mut env = Env::default();

    // constants
    for cname in ["EXPECTED_SHIFT", "COMPLETED_MASK"] {
        let r = (|| -> R<(String, Ty)> {
            let c = find_const(&file, cname).ok_or(format!("const {cname} not found"))?;
            let t = ty_of(&c.ty).filter(|t| *t != Ty::Bool).ok_or(format!("const {cname}: type is not u32/u64"))?;
            let (s, et) = tr(&c.expr, &env, Some(t))?;
            unify(&c.expr, t, et)?;
            Ok((format!("Definition {cname} : N := {s}."), t))
        })();
        match r {
            Ok((d, t)) => {
                out.ok(cname, POOL, d);
                env.vars.push((cname.to_string(), cname.to_string(), t));
            }
            Err(e) => out.fail(cname, POOL, &e),
        }
    }

    // fn completed(value: u64) -> u32 / fn expected(value: u64) -> u32
    for fname in ["completed", "expected"] {
        let r = (|| -> R<String> {
            let f = find_fn(&file, fname).ok_or(format!("fn {fname} not found"))?;
            if f.sig.inputs.len() != 1 {
                return err(&f.sig, "expected one parameter");
            }
            let (pn, pt) = match &f.sig.inputs[0] {
                FnArg::Typed(t) => (pat_ident(&t.pat).ok_or("parameter pattern")?, ty_of(&t.ty)),
                _ => return err(&f.sig, "receiver"),
            };
            if pt != Some(Ty::U64) {
                return err(&f.sig, "parameter must be u64");
            }
            let rt = match &f.sig.output {
                syn::ReturnType::Type(_, t) => ty_of(t),
                _ => None,
            };
            if rt != Some(Ty::U32) {
                return err(&f.sig, "return type must be u32");
            }
            let stmts = live_stmts(&f.block);
            let body = match stmts.as_slice() {
                [Stmt::Expr(e, None)] => e,
                _ => return err(&f.block, "body must be a single tail expression"),
            };
            let mut e2 = env.clone();
            e2.vars.push((pn.clone(), format!("v_{pn}"), Ty::U64));
            let (s, t) = tr(body, &e2, Some(Ty::U32))?;
            if t != Ty::U32 {
                return err(body, "body does not have type u32");
            }
            Ok(format!("Definition {fname} (v_{pn} : N) : N := {s}."))
        })();
        if out.put(fname, POOL, r) {
            env.fns.push(fname.to_string());
        }
    }

    // AtomicCounts::with_root_callback: Self(AtomicU64::new(E))
    let r = (|| -> R<String> {
        let f = find_method(&file, "AtomicCounts", "with_root_callback").ok_or("AtomicCounts::with_root_callback not found")?;
        let stmts = live_stmts(&f.block);
        let body = match stmts.as_slice() {
            [Stmt::Expr(e, None)] => e,
            _ => return err(&f.block, "body must be a single tail expression"),
        };
        let inner = match body {
            Expr::Call(c) if is_ident(&c.func, "Self") && c.args.len() == 1 => &c.args[0],
            _ => return err(body, "expected Self(..)"),
        };
        let arg = match inner {
            Expr::Call(c) if c.args.len() == 1 && quote::quote!(#c).to_string().replace(' ', "").starts_with("AtomicU64::new(") => &c.args[0],
            _ => return err(inner, "expected AtomicU64::new(..)"),
        };
        let (s, t) = tr(arg, &env, Some(Ty::U64))?;
        if t != Ty::U64 {
            return err(arg, "initial word is not u64");
        }
        Ok(format!("Definition with_root_callback : N := {s}."))
    })();
    out.put("with_root_callback", POOL, r);

    // AtomicCounts::expect_one
    let r = (|| -> R<String> {
        let f = find_method(&file, "AtomicCounts", "expect_one").ok_or("AtomicCounts::expect_one not found")?;
        let stmts = live_stmts(&f.block);
        let lp = match stmts.as_slice() {
            [Stmt::Expr(Expr::Loop(l), _)] => l,
            _ => return err(&f.block, "body must be a single loop"),
        };
        let body = live_stmts(&lp.body);
        let mut e2 = env.clone();
        let mut lets: Vec<String> = Vec::new();
        let mut guard: Option<String> = None;
        let mut loaded: Option<String> = None;
        let mut done = false;
        for st in body {
            if done {
                return err(st, "statement after the CAS");
            }
            match st {
                Stmt::Local(l) => {
                    let n = pat_ident(&l.pat).ok_or(format!("line {}: let pattern", l.span().start().line))?;
                    let init = &l.init.as_ref().ok_or("let without initialiser")?.expr;
                    if loaded.is_none() {
                        let m = self_field_call(init, "load").ok_or(format!("line {}: first statement must load the word", l.span().start().line))?;
                        if m.args.len() != 1 {
                            return err(m, "load arity");
                        }
                        loaded = Some(n.clone());
                        e2.vars.push((n.clone(), format!("v_{n}"), Ty::U64));
                    } else {
                        let (s, t) = tr(init, &e2, None)?;
                        if t == Ty::Lit {
                            return err(init, "untyped let");
                        }
                        lets.push(format!("let v_{n} := {s} in"));
                        e2.vars.push((n.clone(), format!("v_{n}"), t));
                    }
                }
                Stmt::Macro(m) if m.mac.path.is_ident("assert") => {
                    if guard.is_some() {
                        return err(m, "second assert");
                    }
                    let c = macro_first_arg(&m.mac)?;
                    let (s, t) = tr(&c, &e2, Some(Ty::Bool))?;
                    if t != Ty::Bool {
                        return err(m, "assert condition is not bool");
                    }
                    guard = Some(format!("{} {s}", lets.join(" ")));
                }
                Stmt::Expr(Expr::If(i), _) => {
                    // if self.0.compare_exchange_weak(current, next, ..).is_ok() { return; }
                    let cas = match &*i.cond {
                        Expr::MethodCall(ok) if ok.method == "is_ok" => self_field_call(&ok.receiver, "compare_exchange_weak")
                            .or_else(|| self_field_call(&ok.receiver, "compare_exchange")),
                        _ => None,
                    }
                    .ok_or(format!("line {}: expected `if self.0.compare_exchange[_weak](..).is_ok()`", i.span().start().line))?;
                    if cas.args.len() != 4 {
                        return err(cas, "CAS arity");
                    }
                    let ld = loaded.clone().ok_or("CAS before load")?;
                    if !is_ident(&cas.args[0], &ld) {
                        return err(cas, "CAS `current` argument is not the loaded word");
                    }
                    let (nx, t) = tr(&cas.args[1], &e2, Some(Ty::U64))?;
                    if t != Ty::U64 {
                        return err(cas, "CAS `new` argument is not u64");
                    }
                    let then = live_stmts(&i.then_branch);
                    let is_ret = matches!(then.as_slice(), [Stmt::Expr(Expr::Return(r), _)] if r.expr.is_none());
                    if !is_ret || i.else_branch.is_some() {
                        return err(i, "CAS success branch must be `return;` without else");
                    }
                    lets.push(nx);
                    done = true;
                }
                _ => return err(st, "unsupported statement in expect_one"),
            }
        }
        if !done {
            return Err("no CAS found".into());
        }
        let ld = loaded.unwrap();
        let guard = guard.ok_or("no assert! guarding the increment")?;
        let next = lets.join(" ");
        Ok(format!(
            "Definition expect_one_guard (v_{ld} : N) : bool := {guard}.\nDefinition expect_one_next (v_{ld} : N) : N := {next}."
        ))
    })();
    out.put("expect_one", POOL, r);

    // AtomicCounts::complete_one: self.0.fetch_add(k, _)   (returns the PREVIOUS word)
    let r = (|| -> R<String> {
        let f = find_method(&file, "AtomicCounts", "complete_one").ok_or("AtomicCounts::complete_one not found")?;
        let rt = match &f.sig.output {
            syn::ReturnType::Type(_, t) => ty_of(t),
            _ => None,
        };
        if rt != Some(Ty::U64) {
            return err(&f.sig, "return type must be u64");
        }
        let stmts = live_stmts(&f.block);
        let body = match stmts.as_slice() {
            [Stmt::Expr(e, None)] => e,
            _ => return err(&f.block, "body must be a single tail expression"),
        };
        let m = self_field_call(body, "fetch_add").ok_or(format!("line {}: expected self.0.fetch_add(..)", body.span().start().line))?;
        if m.args.len() != 2 {
            return err(m, "fetch_add arity");
        }
        let (k, t) = tr(&m.args[0], &env, Some(Ty::U64))?;
        if t != Ty::U64 {
            return err(m, "fetch_add operand is not u64");
        }
        Ok(format!(
            "Definition complete_one_next (v_current : N) : N := (N.modulo (N.add v_current {k}) {M64}).\n(* fetch_add returns the word BEFORE the addition *)\nDefinition complete_one_result (v_current : N) : N := v_current."
        ))
    })();
    out.put("complete_one", POOL, r);

    // ScopeState::complete_one: let previous = self.completion.complete_one(); lets; if C { ..try_send..; true } else { false }
    let r = (|| -> R<String> {
        let f = find_method(&file, "ScopeState", "complete_one").ok_or("ScopeState::complete_one not found")?;
        let stmts = live_stmts(&f.block);
        let mut e2 = env.clone();
        let mut lets: Vec<String> = Vec::new();
        let mut prev: Option<String> = None;
        let mut res: Option<String> = None;
        for st in stmts {
            if res.is_some() {
                return err(st, "statement after the completion test");
            }
            match st {
                Stmt::Local(l) => {
                    let n = pat_ident(&l.pat).ok_or(format!("line {}: let pattern", l.span().start().line))?;
                    let init = &l.init.as_ref().ok_or("let without initialiser")?.expr;
                    if prev.is_none() {
                        let m = self_field_call(init, "complete_one").ok_or(format!(
                            "line {}: first statement must be `let previous = self.completion.complete_one()`",
                            l.span().start().line
                        ))?;
                        if !m.args.is_empty() {
                            return err(m, "arity");
                        }
                        prev = Some(n.clone());
                        e2.vars.push((n.clone(), format!("v_{n}"), Ty::U64));
                    } else {
                        let (s, t) = tr(init, &e2, None)?;
                        if t == Ty::Lit {
                            return err(init, "untyped let");
                        }
                        lets.push(format!("let v_{n} := {s} in"));
                        e2.vars.push((n.clone(), format!("v_{n}"), t));
                    }
                }
                Stmt::Macro(m) if m.mac.path.is_ident("debug_assert") => {}
                Stmt::Expr(Expr::If(i), None) => {
                    let (c, t) = tr(&i.cond, &e2, Some(Ty::Bool))?;
                    if t != Ty::Bool {
                        return err(i, "condition is not bool");
                    }
                    let then_txt = quote::quote!(#i).to_string();
                    let then = live_stmts(&i.then_branch);
                    let then_true = matches!(then.last(), Some(Stmt::Expr(Expr::Lit(l), None)) if matches!(&l.lit, Lit::Bool(b) if b.value));
                    let then_branch = &i.then_branch;
                    let sends = quote::quote!(#then_branch).to_string().contains("try_send");
                    let else_false = match &i.else_branch {
                        Some((_, e)) => match &**e {
                            Expr::Block(b) => {
                                let es = live_stmts(&b.block);
                                matches!(es.as_slice(), [Stmt::Expr(Expr::Lit(l), None)] if matches!(&l.lit, Lit::Bool(b) if !b.value))
                            }
                            _ => false,
                        },
                        None => false,
                    };
                    let _ = then_txt;
                    if !(then_true && sends && else_false) {
                        return err(i, "expected `if C { ..try_send..; true } else { false }`");
                    }
                    res = Some(c);
                }
                _ => return err(st, "unsupported statement in ScopeState::complete_one"),
            }
        }
        let p = prev.ok_or("no `previous` word")?;
        let c = res.ok_or("no completion test found")?;
        Ok(format!(
            "Definition scope_complete_is_last (v_{p} : N) : bool := {} {c}.",
            lets.join(" ")
        ))
    })();
    out.put("scope_complete_is_last", POOL, r);
}

// ------------------------------------------------------------------------------------------------
// B. inventory of atomic operations
// ------------------------------------------------------------------------------------------------

fn coq_str(s: &str) -> String {
    format!("\"{}\"", s.replace('"', "\"\""))
}

fn ordering_name(e: &Expr, consts: &BTreeMap<String, String>) -> Option<String> {
    if let Expr::Path(p) = e {
        let segs: Vec<String> = p.path.segments.iter().map(|s| s.ident.to_string()).collect();
        let n = segs.len();
        if n >= 2 && segs[n - 2] == "Ordering" {
            return match segs[n - 1].as_str() {
                x @ ("Relaxed" | "Acquire" | "Release" | "AcqRel" | "SeqCst") => Some(x.to_string()),
                _ => None,
            };
        }
        if n == 1 {
            return consts.get(&segs[0]).cloned();
        }
    }
    None
}

fn norm<T: quote::ToTokens>(t: &T) -> String {
    quote::quote!(#t).to_string().split_whitespace().collect::<Vec<_>>().join("")
}

struct Site {
    file: String,
    func: String,
    op: String,
    ords: Vec<String>,
}

struct Inv<'a> {
    file: String,
    consts: &'a BTreeMap<String, String>,
    ctx: Vec<String>,
    sites: Vec<Site>,
}

const ATOMIC_ONLY: &[&str] = &[
    "fetch_add", "fetch_sub", "fetch_or", "fetch_and", "fetch_xor", "fetch_nand", "fetch_max", "fetch_min",
    "fetch_update", "compare_exchange", "compare_exchange_weak",
];

impl<'a, 'ast> Visit<'ast> for Inv<'a> {
    fn visit_item_mod(&mut self, i: &'ast syn::ItemMod) {
        if has_cfg(&i.attrs) {
            return;
        }
        visit::visit_item_mod(self, i);
    }
    fn visit_item_fn(&mut self, i: &'ast syn::ItemFn) {
        if has_cfg(&i.attrs) {
            return;
        }
        self.ctx.push(i.sig.ident.to_string());
        visit::visit_item_fn(self, i);
        self.ctx.pop();
    }
    fn visit_item_impl(&mut self, i: &'ast syn::ItemImpl) {
        if has_cfg(&i.attrs) {
            return;
        }
        let ty = norm(&i.self_ty);
        let name = match &i.trait_ {
            Some((_, p, _)) => format!("<{} as {}>", ty, norm(p)),
            None => ty,
        };
        self.ctx.push(name);
        visit::visit_item_impl(self, i);
        self.ctx.pop();
    }
    fn visit_impl_item_fn(&mut self, i: &'ast syn::ImplItemFn) {
        if has_cfg(&i.attrs) {
            return;
        }
        self.ctx.push(i.sig.ident.to_string());
        visit::visit_impl_item_fn(self, i);
        self.ctx.pop();
    }
    fn visit_stmt(&mut self, s: &'ast Stmt) {
        let skip = match s {
            Stmt::Local(l) => has_cfg(&l.attrs),
            Stmt::Macro(m) => has_cfg(&m.attrs),
            Stmt::Expr(e, _) => expr_has_cfg(e),
            Stmt::Item(_) => false,
        };
        if !skip {
            visit::visit_stmt(self, s);
        }
    }
    fn visit_expr_method_call(&mut self, m: &'ast syn::ExprMethodCall) {
        visit::visit_expr_method_call(self, m);
        let mut ords: Vec<String> = m.args.iter().filter_map(|a| ordering_name(a, self.consts)).collect();
        let name = m.method.to_string();
        if ords.is_empty() && ATOMIC_ONLY.contains(&name.as_str()) {
            ords.push("OrdUnknown".into());
        }
        if !ords.is_empty() {
            self.sites.push(Site {
                file: self.file.clone(),
                func: self.ctx.join("::"),
                op: format!("{}.{}", norm(&m.receiver), name),
                ords,
            });
        }
    }
    fn visit_expr_call(&mut self, c: &'ast syn::ExprCall) {
        visit::visit_expr_call(self, c);
        let f = norm(&c.func);
        if f == "fence" || f.ends_with("::fence") || f == "compiler_fence" || f.ends_with("::compiler_fence") {
            let mut ords: Vec<String> = c.args.iter().filter_map(|a| ordering_name(a, self.consts)).collect();
            if ords.is_empty() {
                ords.push("OrdUnknown".into());
            }
            self.sites.push(Site { file: self.file.clone(), func: self.ctx.join("::"), op: f, ords });
        }
    }
}

fn rs_files(dir: &Path, acc: &mut Vec<PathBuf>) {
    let mut ents: Vec<PathBuf> = match std::fs::read_dir(dir) {
        Ok(r) => r.filter_map(|e| e.ok().map(|e| e.path())).collect(),
        Err(_) => return,
    };
    ents.sort();
    for p in ents {
        let name = p.file_name().and_then(|s| s.to_str()).unwrap_or("").to_string();
        if p.is_dir() {
            if name != "tests" {
                rs_files(&p, acc);
            }
        } else if name.ends_with(".rs") && name != "tests.rs" {
            acc.push(p);
        }
    }
}

fn gen_inventory(repo: &Path, out: &mut Out) {
    out.text.push_str("(** ** B. inventory of atomic operations *)\n");
    let item = "atomic_sites";
    let srcs = "concurrency/src + union-find/src/concurrent";
    let r = (|| -> R<String> {
        let mut files = Vec::new();
        for d in ["concurrency/src", "union-find/src/concurrent"] {
            let p = repo.join(d);
            if !p.is_dir() {
                return Err(format!("{d} is not a directory"));
            }
            rs_files(&p, &mut files);
        }
        let mut sites: Vec<Site> = Vec::new();
        for f in files {
            let rel = f.strip_prefix(repo).unwrap().to_string_lossy().to_string();
            let src = std::fs::read_to_string(&f).map_err(|e| format!("{rel}: {e}"))?;
            let ast = syn::parse_file(&src).map_err(|e| format!("{rel}: {e}"))?;
            let mut consts = BTreeMap::new();
            for i in &ast.items {
                if let Item::Const(c) = i {
                    if norm(&c.ty).ends_with("Ordering") {
                        let o = ordering_name(&c.expr, &BTreeMap::new()).ok_or(format!("{rel}: const {} is not a plain Ordering", c.ident))?;
                        consts.insert(c.ident.to_string(), o);
                    }
                }
            }
            let mut v = Inv { file: rel, consts: &consts, ctx: Vec::new(), sites: Vec::new() };
            v.visit_file(&ast);
            sites.append(&mut v.sites);
        }
        if sites.is_empty() {
            return Err("no atomic operation found".into());
        }
        let rows: Vec<String> = sites
            .iter()
            .map(|s| format!("  mkSite {} {} {} [{}]", coq_str(&s.file), coq_str(&s.func), coq_str(&s.op), s.ords.join("; ")))
            .collect();
        Ok(format!("Definition atomic_sites : list site := [\n{}\n].", rows.join(";\n")))
    })();
    out.put(item, srcs, r);
}

// ------------------------------------------------------------------------------------------------
// C. synchronisation programs
// ------------------------------------------------------------------------------------------------

const WATCHED_METHODS: &[&str] = &[
    "load", "store", "swap", "compare_and_swap", "rcu", "compare_exchange", "compare_exchange_weak", "fetch_add",
    "fetch_sub", "fetch_or", "fetch_and", "wait", "wait_with_timeout", "wait_timeout", "notify", "notify_all",
    "notify_one", "lock", "try_send", "send", "recv", "has_been_notified",
];

struct Prog<'a> {
    consts: &'a BTreeMap<String, String>,
    stack: Vec<Vec<String>>,
    error: Option<String>,
}

impl<'a> Prog<'a> {
    fn push(&mut self, s: String) {
        self.stack.last_mut().unwrap().push(s);
    }
    fn sub<F: FnOnce(&mut Self)>(&mut self, f: F) -> String {
        self.stack.push(Vec::new());
        f(self);
        let v = self.stack.pop().unwrap();
        format!("[{}]", v.join("; "))
    }
}

fn arm_name(p: &Pat) -> String {
    match p {
        Pat::TupleStruct(t) => t.path.segments.last().map(|s| s.ident.to_string()).unwrap_or_default(),
        Pat::Path(t) => t.path.segments.last().map(|s| s.ident.to_string()).unwrap_or_default(),
        Pat::Struct(t) => t.path.segments.last().map(|s| s.ident.to_string()).unwrap_or_default(),
        Pat::Wild(_) => "_".into(),
        other => norm(other),
    }
}

impl<'a, 'ast> Visit<'ast> for Prog<'a> {
    fn visit_stmt(&mut self, s: &'ast Stmt) {
        let skip = match s {
            Stmt::Local(l) => has_cfg(&l.attrs),
            Stmt::Macro(m) => has_cfg(&m.attrs),
            Stmt::Expr(e, _) => expr_has_cfg(e),
            Stmt::Item(_) => false,
        };
        if !skip {
            visit::visit_stmt(self, s);
        }
    }
    fn visit_expr_loop(&mut self, l: &'ast syn::ExprLoop) {
        let b = self.sub(|s| s.visit_block(&l.body));
        self.push(format!("RLoop {b}"));
    }
    fn visit_expr_while(&mut self, l: &'ast syn::ExprWhile) {
        let c = self.sub(|s| s.visit_expr(&l.cond));
        let b = self.sub(|s| s.visit_block(&l.body));
        self.push(format!("RWhile {} {c} {b}", coq_str(&norm(&l.cond))));
    }
    fn visit_expr_for_loop(&mut self, l: &'ast syn::ExprForLoop) {
        self.error = Some(format!("line {}: for loop in a synchronisation routine", l.span().start().line));
    }
    fn visit_expr_if(&mut self, i: &'ast syn::ExprIf) {
        self.visit_expr(&i.cond);
        let t = self.sub(|s| s.visit_block(&i.then_branch));
        let e = self.sub(|s| {
            if let Some((_, e)) = &i.else_branch {
                s.visit_expr(e)
            }
        });
        self.push(format!("RIf {} {t} {e}", coq_str(&norm(&i.cond))));
    }
    fn visit_expr_match(&mut self, m: &'ast syn::ExprMatch) {
        self.visit_expr(&m.expr);
        let mut arms = Vec::new();
        for a in &m.arms {
            if a.guard.is_some() {
                self.error = Some(format!("line {}: match guard", a.span().start().line));
            }
            let b = self.sub(|s| s.visit_expr(&a.body));
            arms.push(format!("({}, {b})", coq_str(&arm_name(&a.pat))));
        }
        self.push(format!("RMatch {} [{}]", coq_str(&norm(&m.expr)), arms.join("; ")));
    }
    fn visit_expr_return(&mut self, r: &'ast syn::ExprReturn) {
        visit::visit_expr_return(self, r);
        let what = match &r.expr {
            Some(e) => match &**e {
                Expr::Struct(s) => norm(&s.path),
                other => norm(other),
            },
            None => String::new(),
        };
        self.push(format!("RReturn {}", coq_str(&what)));
    }
    fn visit_expr_continue(&mut self, _: &'ast syn::ExprContinue) {
        self.push("RContinue".into());
    }
    fn visit_expr_break(&mut self, b: &'ast syn::ExprBreak) {
        visit::visit_expr_break(self, b);
        self.push("RBreak".into());
    }
    fn visit_expr_try(&mut self, t: &'ast syn::ExprTry) {
        self.error = Some(format!("line {}: `?` in a synchronisation routine", t.span().start().line));
    }
    fn visit_expr_closure(&mut self, _: &'ast syn::ExprClosure) {
        // closure bodies are not executed here in program order (rcu's closure is pure)
    }
    fn visit_expr_method_call(&mut self, m: &'ast syn::ExprMethodCall) {
        visit::visit_expr_method_call(self, m);
        let name = m.method.to_string();
        if WATCHED_METHODS.contains(&name.as_str()) {
            let ords: Vec<String> = m.args.iter().filter_map(|a| ordering_name(a, self.consts)).collect();
            self.push(format!("RCall {} {} [{}]", coq_str(&norm(&m.receiver)), coq_str(&name), ords.join("; ")));
        }
    }
    fn visit_expr_call(&mut self, c: &'ast syn::ExprCall) {
        visit::visit_expr_call(self, c);
        let f = norm(&c.func);
        let last = f.rsplit("::").next().unwrap_or("").to_string();
        if last == "fence" || last == "drop" {
            let ords: Vec<String> = c.args.iter().filter_map(|a| ordering_name(a, self.consts)).collect();
            let args: Vec<String> = if last == "drop" { c.args.iter().map(|a| norm(a)).collect() } else { Vec::new() };
            self.push(format!("RCall {} {} [{}]", coq_str(&args.join(",")), coq_str(&last), ords.join("; ")));
        }
    }
}

fn gen_progs(repo: &Path, out: &mut Out) {
    out.text.push_str("(** ** C. synchronisation programs (program order, control structure) *)\n");
    let items: [(&str, &str, &str, &str); 7] = [
        ("prog_rolock_read", LIBRS, "ReadOptimizedLock", "read"),
        ("prog_rolock_lock", LIBRS, "ReadOptimizedLock", "lock"),
        ("prog_writer_drop", LIBRS, "MutexWriter", "drop"),
        ("prog_trigger_drop", LIBRS, "TriggerWhenDone", "drop"),
        ("prog_notif_wait", NOTIF, "Notification", "wait"),
        ("prog_notif_notify", NOTIF, "Notification", "notify"),
        ("prog_notif_has_been_notified", NOTIF, "Notification", "has_been_notified"),
    ];
    for (item, file, ty, fname) in items {
        let r = (|| -> R<String> {
            let src = std::fs::read_to_string(repo.join(file)).map_err(|e| format!("cannot read: {e}"))?;
            let ast = syn::parse_file(&src).map_err(|e| format!("cannot parse: {e}"))?;
            let f = find_method(&ast, ty, fname).ok_or(format!("{ty}::{fname} not found"))?;
            let consts = BTreeMap::new();
            let mut p = Prog { consts: &consts, stack: vec![Vec::new()], error: None };
            p.visit_block(&f.block);
            if let Some(e) = p.error {
                return Err(e);
            }
            let body = p.stack.pop().unwrap();
            Ok(format!("Definition {item} : list rop := [\n  {}\n].", body.join(";\n  ")))
        })();
        out.put(item, file, r);
    }
}

const HEADER: &str = r#"(* GENERATED by /verif/translator (x_counts.rs) from concurrency/src and union-find/src/concurrent.
   Do not edit: regenerated on every run of bin/check. *)
From Coq Require Import NArith List String.
Import ListNotations.
Local Open Scope string_scope.
Local Open Scope N_scope.

(** std::sync::atomic::Ordering ([OrdUnknown]: the ordering argument is not a literal / constant) *)
Inductive ordering := Relaxed | Acquire | Release | AcqRel | SeqCst | OrdUnknown.

(** one atomic operation of the source: file, enclosing function, receiver.method, orderings *)
Record site := mkSite { s_file : string; s_fn : string; s_op : string; s_ords : list ordering }.

(** synchronisation operations of a routine, in program order *)
Inductive rop :=
| RCall (recv meth : string) (ords : list ordering)
| RLoop (body : list rop)
| RWhile (cond : string) (condops body : list rop)
| RIf (cond : string) (thn els : list rop)
| RMatch (scrutinee : string) (arms : list (string * list rop))
| RReturn (what : string)
| RContinue
| RBreak.

"#;

pub fn generate(repo: &std::path::Path) -> (String, Vec<String>) {
    let mut out = Out { text: HEADER.to_string(), report: Vec::new() };
    gen_counts(repo, &mut out);
    out.text.push('\n');
    gen_inventory(repo, &mut out);
    out.text.push('\n');
    gen_progs(repo, &mut out);
    (out.text, out.report)
}
