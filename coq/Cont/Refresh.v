(** C14 — table refresh on top of the container model: one pass of the native rebuild loop of
    egglog-bridge ([EGraph::rebuild]): containers first, then the function tables are rebuilt
    against the union-find that already holds the unions staged by the container pass, then the
    rows mentioning a dirty container id are refreshed (re-stamped with the same [next_ts]).

    Tables are lists of rows (columns + timestamp); the merge of rows whose keys collide after
    canonicalisation is NOT modelled here (C05 / C03), only what happens to each row.
    What a refreshed row is ([refresh_ts_col], [refresh_other_cols], candidates) and the order of
    the steps ([bridge_pass]) come from gen/ContFacts.v. *)
From Coq Require Import List Arith Bool PeanoNat Lia.
Import ListNotations.
Require Import Verif.Base.Res Verif.gen.UFSeq Verif.UF.Seq Verif.Egg.Model Verif.Egg.RepFacts
  Verif.gen.ContFacts Verif.Cont.Env Verif.Cont.Facts Verif.Cont.Pass Verif.Cont.Fix.

Record row := mkRow { rcols : list nat; rts : nat }.

(** table rebuild: every column through the rebuilder; a row that changed is re-inserted at [ts] *)
Definition rebuild_row (f : nat -> nat) (ts : nat) (r : row) : row :=
  if nats_eqb (map f (rcols r)) (rcols r) then r else mkRow (map f (rcols r)) ts.

Definition mentions (D : list nat) (r : row) : bool := existsb (fun x => smem x D) (rcols r).

(** refresh_rows_for_values *)
Definition refresh_row (D : list nat) (ts : nat) (r : row) : row :=
  if refresh_candidates_from_dirty_index && mentions D r then
    mkRow (match refresh_other_cols with KeepCol => rcols r | SetNextTs => map (fun _ => ts) (rcols r) end)
          (match refresh_ts_col with SetNextTs => ts | KeepCol => rts r end)
  else r.

(** a container whose meaning changed although its id stayed: its own contents changed in place, or
    (at any depth) it contains such a container *)
Inductive deep_changed (e e' : env) : nat -> Prop :=
| dc_here c c' v : In (c, v) (to_id e) -> In (c', v) (to_id e') -> c <> c' -> deep_changed e e' v
| dc_in w d v : deep_changed e e' w -> In (d, v) (to_id e') -> In w (iter d) -> deep_changed e e' v.

Section W.
  Variable oracle : nat -> nat -> nat -> nat.

  Record bstate := mkB { bcs : cstate; brows : list row; bts : nat }.

  (** the steps in the order [bridge_pass] lists them; the bool is [!break] *)
  Definition bridge_pass_model (b : bool) (st : bstate) : Res (bstate * bool) :=
    let s := bcs st in
    let '(e', us, dirty, chg) := run_pass oracle b s in                  (* BContainers *)
    let D := dirty_closure e' dirty in
    bind (uf_unions (cuf s) us) (fun p' =>
      let next_ts := bts st in                                            (* BNextTs *)
      let rows1 := map (rebuild_row (rep p') next_ts) (brows st) in       (* BTables *)
      let rows2 := map (refresh_row D next_ts) rows1 in                   (* BDirtyOfContainers; BRefresh *)
      let table_rebuild := existsb (fun r => negb (nats_eqb (map (rep p') (rcols r)) (rcols r))) (brows st) in
      let refreshed := existsb (mentions D) rows1 in
      Ok (mkB (mkCS p' e' (displaced (cuf s) p')) rows2 (S next_ts),      (* BIncTs *)
          negb (bridge_break table_rebuild refreshed chg))).

  Lemma row_after D f ts r :
    let r' := refresh_row D ts (rebuild_row f ts r) in
    rcols r' = map f (rcols r)
    /\ (rcols r' <> rcols r -> rts r' = ts)
    /\ (forall x, In x (rcols r') -> In x D -> rts r' = ts).
  Proof.
    cbv zeta. unfold refresh_row, rebuild_row.
    cbn [refresh_candidates_from_dirty_index refresh_other_cols refresh_ts_col andb].
    destruct (nats_eqb (map f (rcols r)) (rcols r)) eqn:E.
    - apply nats_eqb_eq in E.
      destruct (mentions D r) eqn:M; cbn [rcols rts].
      + split; [symmetry; exact E|]. split; reflexivity.
      + split; [symmetry; exact E|]. split; [intros N; exfalso; apply N; reflexivity|].
        intros x Hx Hd. exfalso.
        assert (T : mentions D r = true)
          by (apply existsb_exists; exists x; split; [exact Hx|apply smem_In; exact Hd]).
        congruence.
    - destruct (mentions D (mkRow (map f (rcols r)) ts)); cbn [rcols rts]; repeat split; reflexivity.
  Qed.

  Lemma deep_changed_dirty s b e' us dirty chg : Good s ->
    run_pass oracle b s = (e', us, dirty, chg) ->
    forall v, deep_changed (cenv s) e' v -> In v (dirty_closure e' dirty).
  Proof.
    intros G E.
    destruct (pass_step oracle b s e' us dirty chg G E) as (p' & _ & G' & _ & _ & _ & T & _).
    destruct (dirty_closure_spec oracle e' dirty (g_env _ G')) as [K1 K2].
    induction 1 as [c c' v H1 H2 N|w d v _ IH Hd Hi].
    - apply K1. eapply T; eauto.
    - eapply K2; eauto.
  Qed.

  (** one pass of the bridge loop from a good state (every reachable state is good) *)
  Theorem refresh_restamps b st st' again : Good (bcs st) ->
    bridge_pass_model b st = Ok (st', again) ->
    let p' := cuf (bcs st') in
    bts st' = S (bts st)
    /\ length (brows st') = length (brows st)
    /\ forall i r r', nth_error (brows st) i = Some r -> nth_error (brows st') i = Some r' ->
         rcols r' = map (rep p') (rcols r)
         /\ (forall x, In x (rcols r') -> rep p' x = x)
         /\ (rcols r' <> rcols r -> rts r' = bts st)
         /\ (forall x, In x (rcols r') -> deep_changed (cenv (bcs st)) (cenv (bcs st')) x ->
               rts r' = bts st).
  Proof.
    intros G. unfold bridge_pass_model.
    destruct (run_pass oracle b (bcs st)) as [[[e' us] dirty] chg] eqn:E.
    destruct (pass_step oracle b (bcs st) e' us dirty chg G E) as (p' & U & _).
    pose proof U as (Eu & HI' & _). rewrite Eu. cbn [bind]. intros X. injection X as <- _.
    cbn [bcs brows bts cuf cenv].
    split; [reflexivity|]. split; [rewrite !map_length; reflexivity|].
    intros i r r' Hr Hr'.
    rewrite map_map in Hr'. rewrite (map_nth_error _ _ _ Hr) in Hr'. injection Hr' as <-.
    destruct (row_after (dirty_closure e' dirty) (rep p') (bts st) r) as (A & B & C).
    split; [exact A|]. split.
    { intros x Hx. rewrite A in Hx. apply in_map_iff in Hx as (y & <- & _). apply rep_idem. exact HI'. }
    split; [exact B|].
    intros x Hx Hd. apply (C x Hx). eapply deep_changed_dirty; eauto.
  Qed.
End W.
