//! Span-free mirror of the egglog surface AST (same shape as coq/Syntax/Ast.v), conversion from
//! `egglog::ast::*`, and Coq term emission.
use egglog::ast::*;

#[derive(Clone, Debug, PartialEq)]
pub enum MFl {
    NaN,
    Inf,
    NInf,
    Fin(u64),
}
impl MFl {
    pub fn of(f: f64) -> MFl {
        if f.is_nan() {
            MFl::NaN
        } else if f == f64::INFINITY {
            MFl::Inf
        } else if f == f64::NEG_INFINITY {
            MFl::NInf
        } else {
            MFl::Fin(f.to_bits())
        }
    }
    pub fn to_f64(&self) -> f64 {
        match self {
            MFl::NaN => f64::NAN,
            MFl::Inf => f64::INFINITY,
            MFl::NInf => f64::NEG_INFINITY,
            MFl::Fin(b) => f64::from_bits(*b),
        }
    }
    pub fn coq(&self) -> String {
        match self {
            MFl::NaN => "FNaN".into(),
            MFl::Inf => "FInf".into(),
            MFl::NInf => "FNInf".into(),
            MFl::Fin(b) => format!("(FFin {}%Z)", b),
        }
    }
}

#[derive(Clone, Debug, PartialEq)]
pub enum MLit {
    Int(i64),
    Float(MFl),
    Str(String),
    Bool(bool),
    Unit,
}
#[derive(Clone, Debug, PartialEq)]
pub enum MExpr {
    Var(String),
    Call(String, Vec<MExpr>),
    Lit(MLit),
}
#[derive(Clone, Debug, PartialEq)]
pub enum MFact {
    Eq(MExpr, MExpr),
    Fact(MExpr),
}
#[derive(Clone, Debug, PartialEq)]
pub enum MAction {
    Let(String, MExpr),
    Set(String, Vec<MExpr>, MExpr),
    Change(bool, String, Vec<MExpr>), // true = subsume
    Union(MExpr, MExpr),
    Panic(String),
    Expr(MExpr),
}
#[derive(Clone, Debug, PartialEq)]
pub enum MSched {
    Saturate(Box<MSched>),
    Repeat(u64, Box<MSched>),
    Run(String, Option<Vec<MFact>>),
    Seq(Vec<MSched>),
}
#[derive(Clone, Debug, PartialEq)]
pub struct MRule {
    pub head: Vec<MAction>,
    pub body: Vec<MFact>,
    pub name: String,
    pub ruleset: String,
    pub mode: u8, // 0 seminaive 1 naive 2 unsafe-seminaive
    pub no_decomp: bool,
    pub include_subsumed: bool,
}
#[derive(Clone, Debug, PartialEq)]
pub struct MRewrite {
    pub lhs: MExpr,
    pub rhs: MExpr,
    pub conds: Vec<MFact>,
    pub name: String,
}
#[derive(Clone, Debug, PartialEq)]
pub struct MVariant {
    pub name: String,
    pub types: Vec<String>,
    pub cost: Option<u64>,
    pub unextractable: bool,
}
#[derive(Clone, Debug, PartialEq)]
pub enum MSubdt {
    Variants(Vec<MVariant>),
    NewSort(String, Vec<MExpr>),
}
#[derive(Clone, Debug, PartialEq)]
pub enum MCmd {
    Sort {
        name: String,
        presort: Option<(String, Vec<MExpr>)>,
        uf: Option<(String, Option<String>)>,
        proof_func: Option<String>,
        container_rebuild: Option<(String, Option<String>)>,
        proof_constructors: Option<(String, String, String, String)>,
        unionable: bool,
    },
    Datatype(String, Vec<MVariant>),
    Datatypes(Vec<(String, MSubdt)>),
    Function {
        name: String,
        inputs: Vec<String>,
        output: String,
        merge: Option<MExpr>,
        hidden: bool,
        let_binding: bool,
        term_constructor: Option<String>,
        unextractable: bool,
    },
    Constructor {
        name: String,
        inputs: Vec<String>,
        output: String,
        cost: Option<u64>,
        unextractable: bool,
        hidden: bool,
        let_binding: bool,
        term_constructor: Option<String>,
    },
    Relation(String, Vec<String>),
    AddRuleset(String),
    CombinedRuleset(String, Vec<String>),
    Rule(MRule),
    Rewrite(String, MRewrite, bool),
    BiRewrite(String, MRewrite),
    Action(MAction),
    Extract(MExpr, MExpr),
    RunSchedule(MSched),
    PrintStats(Option<String>),
    Check(Vec<MFact>),
    Prove(Vec<MFact>),
    ProveExists(String),
    Push(u64),
    Pop(u64),
    PrintFunction(String, Option<u64>, Option<String>, bool), // true = csv
    PrintSize(Option<String>),
    Input(String, String),
    Output(String, Vec<MExpr>),
    Fail(Box<MCmd>),
    Include(String),
    UserDefined(String, Vec<MExpr>),
}

// ---------------------------------------------------------------- egglog AST -> model
pub fn lit_of(l: &Literal) -> MLit {
    match l {
        Literal::Int(i) => MLit::Int(*i),
        Literal::Float(f) => MLit::Float(MFl::of(f.0)),
        Literal::String(s) => MLit::Str(s.clone()),
        Literal::Bool(b) => MLit::Bool(*b),
        Literal::Unit => MLit::Unit,
    }
}
pub fn expr_of(e: &Expr) -> MExpr {
    match e {
        Expr::Var(_, v) => MExpr::Var(v.clone()),
        Expr::Call(_, f, a) => MExpr::Call(f.clone(), a.iter().map(expr_of).collect()),
        Expr::Lit(_, l) => MExpr::Lit(lit_of(l)),
    }
}
pub fn exprs_of(e: &[Expr]) -> Vec<MExpr> {
    e.iter().map(expr_of).collect()
}
pub fn fact_of(f: &Fact) -> MFact {
    match f {
        Fact::Eq(_, a, b) => MFact::Eq(expr_of(a), expr_of(b)),
        Fact::Fact(e) => MFact::Fact(expr_of(e)),
    }
}
pub fn facts_of(f: &[Fact]) -> Vec<MFact> {
    f.iter().map(fact_of).collect()
}
pub fn action_of(a: &Action) -> MAction {
    match a {
        Action::Let(_, v, e) => MAction::Let(v.clone(), expr_of(e)),
        Action::Set(_, f, a, v) => MAction::Set(f.clone(), exprs_of(a), expr_of(v)),
        Action::Change(_, c, f, a) => MAction::Change(matches!(c, Change::Subsume), f.clone(), exprs_of(a)),
        Action::Union(_, a, b) => MAction::Union(expr_of(a), expr_of(b)),
        Action::Panic(_, m) => MAction::Panic(m.clone()),
        Action::Expr(_, e) => MAction::Expr(expr_of(e)),
    }
}
pub fn sched_of(s: &Schedule) -> MSched {
    match s {
        Schedule::Saturate(_, s) => MSched::Saturate(Box::new(sched_of(s))),
        Schedule::Repeat(_, n, s) => MSched::Repeat(*n as u64, Box::new(sched_of(s))),
        Schedule::Run(_, c) => MSched::Run(c.ruleset.clone(), c.until.as_ref().map(|f| facts_of(f))),
        Schedule::Sequence(_, l) => MSched::Seq(l.iter().map(sched_of).collect()),
    }
}
pub fn variant_of(v: &Variant) -> MVariant {
    MVariant { name: v.name.clone(), types: v.types.clone(), cost: v.cost, unextractable: v.unextractable }
}
pub fn rewrite_of(w: &Rewrite) -> MRewrite {
    MRewrite { lhs: expr_of(&w.lhs), rhs: expr_of(&w.rhs), conds: facts_of(&w.conditions), name: w.name.clone() }
}
pub fn rule_of(r: &Rule) -> MRule {
    MRule {
        head: r.head.0.iter().map(action_of).collect(),
        body: facts_of(&r.body),
        name: r.name.clone(),
        ruleset: r.ruleset.clone(),
        mode: match r.eval_mode {
            RuleEvalMode::Seminaive => 0,
            RuleEvalMode::Naive => 1,
            RuleEvalMode::UnsafeSeminaive => 2,
        },
        no_decomp: r.no_decomp,
        include_subsumed: r.include_subsumed,
    }
}
pub fn cmd_of(c: &Command) -> MCmd {
    match c {
        Command::Sort { name, presort_and_args, uf, proof_func, container_rebuild, proof_constructors, unionable, .. } => MCmd::Sort {
            name: name.clone(),
            presort: presort_and_args.as_ref().map(|(h, a)| (h.clone(), exprs_of(a))),
            uf: uf.clone(),
            proof_func: proof_func.clone(),
            container_rebuild: container_rebuild
                .as_ref()
                .map(|s| (s.internal_rebuild_prim.clone(), s.internal_rebuild_proof_prim.clone())),
            proof_constructors: proof_constructors
                .as_ref()
                .map(|p| (p.congr.clone(), p.trans.clone(), p.sym.clone(), p.normalize.clone())),
            unionable: *unionable,
        },
        Command::Datatype { name, variants, .. } => MCmd::Datatype(name.clone(), variants.iter().map(variant_of).collect()),
        Command::Datatypes { datatypes, .. } => MCmd::Datatypes(
            datatypes
                .iter()
                .map(|(_, n, d)| {
                    (
                        n.clone(),
                        match d {
                            Subdatatypes::Variants(v) => MSubdt::Variants(v.iter().map(variant_of).collect()),
                            Subdatatypes::NewSort(h, a) => MSubdt::NewSort(h.clone(), exprs_of(a)),
                        },
                    )
                })
                .collect(),
        ),
        Command::Function { name, schema, merge, hidden, let_binding, term_constructor, unextractable, .. } => MCmd::Function {
            name: name.clone(),
            inputs: schema.input.clone(),
            output: schema.output.clone(),
            merge: merge.as_ref().map(expr_of),
            hidden: *hidden,
            let_binding: *let_binding,
            term_constructor: term_constructor.clone(),
            unextractable: *unextractable,
        },
        Command::Constructor { name, schema, cost, unextractable, hidden, let_binding, term_constructor, .. } => MCmd::Constructor {
            name: name.clone(),
            inputs: schema.input.clone(),
            output: schema.output.clone(),
            cost: *cost,
            unextractable: *unextractable,
            hidden: *hidden,
            let_binding: *let_binding,
            term_constructor: term_constructor.clone(),
        },
        Command::Relation { name, inputs, .. } => MCmd::Relation(name.clone(), inputs.clone()),
        Command::AddRuleset(_, n) => MCmd::AddRuleset(n.clone()),
        Command::UnstableCombinedRuleset(_, n, s) => MCmd::CombinedRuleset(n.clone(), s.clone()),
        Command::Rule { rule } => MCmd::Rule(rule_of(rule)),
        Command::Rewrite(rs, w, s) => MCmd::Rewrite(rs.clone(), rewrite_of(w), *s),
        Command::BiRewrite(rs, w) => MCmd::BiRewrite(rs.clone(), rewrite_of(w)),
        Command::Action(a) => MCmd::Action(action_of(a)),
        Command::Extract(_, e, v) => MCmd::Extract(expr_of(e), expr_of(v)),
        Command::RunSchedule(s) => MCmd::RunSchedule(sched_of(s)),
        Command::PrintOverallStatistics(_, f) => MCmd::PrintStats(f.clone()),
        Command::Check(_, f) => MCmd::Check(facts_of(f)),
        Command::Prove(_, f) => MCmd::Prove(facts_of(f)),
        Command::ProveExists(_, c) => MCmd::ProveExists(c.clone()),
        Command::Push(n) => MCmd::Push(*n as u64),
        Command::Pop(_, n) => MCmd::Pop(*n as u64),
        Command::PrintFunction(_, n, r, f, m) => {
            MCmd::PrintFunction(n.clone(), r.map(|x| x as u64), f.clone(), matches!(m, PrintFunctionMode::CSV))
        }
        Command::PrintSize(_, n) => MCmd::PrintSize(n.clone()),
        Command::Input { name, file, .. } => MCmd::Input(name.clone(), file.clone()),
        Command::Output { file, exprs, .. } => MCmd::Output(file.clone(), exprs_of(exprs)),
        Command::Fail(_, c) => MCmd::Fail(Box::new(cmd_of(c))),
        Command::Include(_, f) => MCmd::Include(f.clone()),
        Command::UserDefined(_, n, e) => MCmd::UserDefined(n.clone(), exprs_of(e)),
    }
}

// ---------------------------------------------------------------- Coq emission
/// a text as `str` (list of code points); printable ASCII without a quote goes through `s_`
pub fn cstr(s: &str) -> String {
    if s.is_empty() {
        return "[]".into();
    }
    if s.chars().all(|c| (' '..='~').contains(&c) && c != '"') {
        return format!("(s_ \"{}\")", s);
    }
    let mut o = String::from("[");
    for (i, c) in s.chars().enumerate() {
        if i > 0 {
            o.push(';');
        }
        o.push_str(&(c as u32).to_string());
    }
    o.push(']');
    o
}
pub fn clist<T>(xs: &[T], f: impl Fn(&T) -> String) -> String {
    let mut s = String::from("[");
    for (i, x) in xs.iter().enumerate() {
        if i > 0 {
            s.push_str("; ");
        }
        s.push_str(&f(x));
    }
    s.push(']');
    s
}
pub fn copt<T>(x: &Option<T>, f: impl Fn(&T) -> String) -> String {
    match x {
        None => "None".into(),
        Some(v) => format!("(Some {})", f(v)),
    }
}
pub fn cbool(b: bool) -> &'static str {
    if b {
        "true"
    } else {
        "false"
    }
}
fn cz(z: i64) -> String {
    format!("({})%Z", z)
}
fn cn(n: u64) -> String {
    format!("{}", n)
}
pub fn cstrs(xs: &[String]) -> String {
    clist(xs, |s| cstr(s))
}
fn costr(x: &Option<String>) -> String {
    copt(x, |s| cstr(s))
}

impl MLit {
    pub fn coq(&self) -> String {
        match self {
            MLit::Int(i) => format!("(LInt {})", cz(*i)),
            MLit::Float(f) => format!("(LFloat {})", f.coq()),
            MLit::Str(s) => format!("(LStr {})", cstr(s)),
            MLit::Bool(b) => format!("(LBool {})", cbool(*b)),
            MLit::Unit => "LUnit".into(),
        }
    }
}
impl MExpr {
    pub fn coq(&self) -> String {
        match self {
            MExpr::Var(v) => format!("(EVar {})", cstr(v)),
            MExpr::Call(f, a) => format!("(ECall {} {})", cstr(f), cexprs(a)),
            MExpr::Lit(l) => format!("(ELit {})", l.coq()),
        }
    }
}
pub fn cexprs(a: &[MExpr]) -> String {
    clist(a, |e| e.coq())
}
pub fn cfacts(a: &[MFact]) -> String {
    clist(a, |e| e.coq())
}
impl MFact {
    pub fn coq(&self) -> String {
        match self {
            MFact::Eq(a, b) => format!("(FEq {} {})", a.coq(), b.coq()),
            MFact::Fact(e) => format!("(FFact {})", e.coq()),
        }
    }
}
impl MAction {
    pub fn coq(&self) -> String {
        match self {
            MAction::Let(v, e) => format!("(ALet {} {})", cstr(v), e.coq()),
            MAction::Set(f, a, v) => format!("(ASet {} {} {})", cstr(f), cexprs(a), v.coq()),
            MAction::Change(s, f, a) => format!("(AChange {} {} {})", if *s { "Subsume" } else { "Delete" }, cstr(f), cexprs(a)),
            MAction::Union(a, b) => format!("(AUnion {} {})", a.coq(), b.coq()),
            MAction::Panic(m) => format!("(APanic {})", cstr(m)),
            MAction::Expr(e) => format!("(AExpr {})", e.coq()),
        }
    }
}
impl MSched {
    pub fn coq(&self) -> String {
        match self {
            MSched::Saturate(s) => format!("(SSaturate {})", s.coq()),
            MSched::Repeat(n, s) => format!("(SRepeat {} {})", cn(*n), s.coq()),
            MSched::Run(r, u) => format!("(SRun {} {})", cstr(r), copt(u, |f| cfacts(f))),
            MSched::Seq(l) => format!("(SSeq {})", clist(l, |s| s.coq())),
        }
    }
}
impl MVariant {
    pub fn coq(&self) -> String {
        format!("(mkVariant {} {} {} {})", cstr(&self.name), cstrs(&self.types), copt(&self.cost, |c| cn(*c)), cbool(self.unextractable))
    }
}
impl MRewrite {
    pub fn coq(&self) -> String {
        format!("(mkRewrite {} {} {} {})", self.lhs.coq(), self.rhs.coq(), cfacts(&self.conds), cstr(&self.name))
    }
}
impl MRule {
    pub fn coq(&self) -> String {
        format!(
            "(mkRule {} {} {} {} {} {} {})",
            clist(&self.head, |a| a.coq()),
            cfacts(&self.body),
            cstr(&self.name),
            cstr(&self.ruleset),
            ["Seminaive", "Naive", "UnsafeSeminaive"][self.mode as usize],
            cbool(self.no_decomp),
            cbool(self.include_subsumed)
        )
    }
}
impl MCmd {
    pub fn coq(&self) -> String {
        match self {
            MCmd::Sort { name, presort, uf, proof_func, container_rebuild, proof_constructors, unionable } => format!(
                "(CSort {} {} {} {} {} {} {})",
                cstr(name),
                copt(presort, |(h, a)| format!("({}, {})", cstr(h), cexprs(a))),
                copt(uf, |(c, i)| format!("({}, {})", cstr(c), costr(i))),
                costr(proof_func),
                copt(container_rebuild, |(c, i)| format!("({}, {})", cstr(c), costr(i))),
                copt(proof_constructors, |(a, b, c, d)| format!("({}, {}, {}, {})", cstr(a), cstr(b), cstr(c), cstr(d))),
                cbool(*unionable)
            ),
            MCmd::Datatype(n, v) => format!("(CDatatype {} {})", cstr(n), clist(v, |x| x.coq())),
            MCmd::Datatypes(d) => format!(
                "(CDatatypes {})",
                clist(d, |(n, s)| format!(
                    "({}, {})",
                    cstr(n),
                    match s {
                        MSubdt::Variants(v) => format!("Variants {}", clist(v, |x| x.coq())),
                        MSubdt::NewSort(h, a) => format!("NewSort {} {}", cstr(h), cexprs(a)),
                    }
                ))
            ),
            MCmd::Function { name, inputs, output, merge, hidden, let_binding, term_constructor, unextractable } => format!(
                "(CFunction {} {} {} {} {} {} {} {})",
                cstr(name),
                cstrs(inputs),
                cstr(output),
                copt(merge, |e| e.coq()),
                cbool(*hidden),
                cbool(*let_binding),
                costr(term_constructor),
                cbool(*unextractable)
            ),
            MCmd::Constructor { name, inputs, output, cost, unextractable, hidden, let_binding, term_constructor } => format!(
                "(CConstructor {} {} {} {} {} {} {} {})",
                cstr(name),
                cstrs(inputs),
                cstr(output),
                copt(cost, |c| cn(*c)),
                cbool(*unextractable),
                cbool(*hidden),
                cbool(*let_binding),
                costr(term_constructor)
            ),
            MCmd::Relation(n, i) => format!("(CRelation {} {})", cstr(n), cstrs(i)),
            MCmd::AddRuleset(n) => format!("(CAddRuleset {})", cstr(n)),
            MCmd::CombinedRuleset(n, s) => format!("(CCombinedRuleset {} {})", cstr(n), cstrs(s)),
            MCmd::Rule(r) => format!("(CRule {})", r.coq()),
            MCmd::Rewrite(rs, w, s) => format!("(CRewrite {} {} {})", cstr(rs), w.coq(), cbool(*s)),
            MCmd::BiRewrite(rs, w) => format!("(CBiRewrite {} {})", cstr(rs), w.coq()),
            MCmd::Action(a) => format!("(CAction {})", a.coq()),
            MCmd::Extract(e, v) => format!("(CExtract {} {})", e.coq(), v.coq()),
            MCmd::RunSchedule(s) => format!("(CRunSchedule {})", s.coq()),
            MCmd::PrintStats(f) => format!("(CPrintStats {})", costr(f)),
            MCmd::Check(f) => format!("(CCheck {})", cfacts(f)),
            MCmd::Prove(f) => format!("(CProve {})", cfacts(f)),
            MCmd::ProveExists(c) => format!("(CProveExists {})", cstr(c)),
            MCmd::Push(n) => format!("(CPush {})", cn(*n)),
            MCmd::Pop(n) => format!("(CPop {})", cn(*n)),
            MCmd::PrintFunction(n, r, f, csv) => format!(
                "(CPrintFunction {} {} {} {})",
                cstr(n),
                copt(r, |x| cn(*x)),
                costr(f),
                if *csv { "PFCsv" } else { "PFDefault" }
            ),
            MCmd::PrintSize(n) => format!("(CPrintSize {})", costr(n)),
            MCmd::Input(n, f) => format!("(CInput {} {})", cstr(n), cstr(f)),
            MCmd::Output(f, e) => format!("(COutput {} {})", cstr(f), cexprs(e)),
            MCmd::Fail(c) => format!("(CFail {})", c.coq()),
            MCmd::Include(f) => format!("(CInclude {})", cstr(f)),
            MCmd::UserDefined(n, e) => format!("(CUserDefined {} {})", cstr(n), cexprs(e)),
        }
    }
}

/// raw s-expressions as the Rust reader produced them
#[derive(Clone, Debug, PartialEq)]
pub enum MSexp {
    Lit(MLit),
    Atom(String),
    List(Vec<MSexp>),
}
pub fn sexp_of(s: &Sexp) -> MSexp {
    match s {
        Sexp::Literal(l, _) => MSexp::Lit(lit_of(l)),
        Sexp::Atom(a, _) => MSexp::Atom(a.clone()),
        Sexp::List(l, _) => MSexp::List(l.iter().map(sexp_of).collect()),
    }
}
impl MSexp {
    pub fn coq(&self) -> String {
        match self {
            MSexp::Lit(l) => format!("(SLit {})", l.coq()),
            MSexp::Atom(a) => format!("(SAtom {})", cstr(a)),
            MSexp::List(l) => format!("(SList {})", clist(l, |x| x.coq())),
        }
    }
}
