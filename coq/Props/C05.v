(** C05 — A function's value is the merge of everything ever written to its key.
    Statements pinned here; proofs in Egg/Merge.v. *)
From Coq Require Import List ZArith Bool Permutation.
Import ListNotations.
Require Import Verif.gen.MergeArms Verif.gen.SourceFacts Verif.Egg.Model Verif.Egg.Merge Verif.Egg.Collide.

(** order of arrival does not matter for an associative-commutative merge *)
Theorem c05_fold_perm : forall (A : Type) (m : A -> A -> A),
  (forall a b c, m (m a b) c = m a (m b c)) -> (forall a b, m a b = m b a) ->
  forall l l' a, Permutation l l' -> fold_left m l a = fold_left m l' a.
Proof. exact fold_perm. Qed.
Print Assumptions c05_fold_perm.

(** batching: merging per-batch results equals merging all writes one by one *)
Theorem c05_fold_batches : forall (A : Type) (m : A -> A -> A),
  (forall a b c, m (m a b) c = m a (m b c)) -> (forall a b, m a b = m b a) ->
  forall (bs : list (A * list A)) a,
    fold_left m (map (fun b => fold_left m (snd b) (fst b)) bs) a
    = fold_left m (flat_map (fun b => fst b :: snd b) bs) a.
Proof. intros A m Ha _. exact (fold_batches A m Ha). Qed.
Print Assumptions c05_fold_batches.

(** idempotence: writing a value that was already written changes nothing *)
Theorem c05_fold_dup : forall (A : Type) (m : A -> A -> A),
  (forall a b c, m (m a b) c = m a (m b c)) -> (forall a b, m a b = m b a) -> (forall a, m a a = a) ->
  forall l a x, In x (a :: l) -> fold_left m (l ++ [x]) a = fold_left m l a.
Proof. exact fold_dup. Qed.
Print Assumptions c05_fold_dup.

(** after ANY sequence of writes to a table with a lattice merge (min / max), the value stored
    for key k is the fold of the merge over all values written to k (seeded by the previous value) *)
Theorem c05_value : forall m t k ws, lattice m -> int_table t ->
  int_get (insert_all m t (mk_rows ws)) k = zfold_opt m (int_get t k) (zwrites_to k ws).
Proof. exact c05_value_lemma. Qed.
Print Assumptions c05_value.

(** ... regardless of the order in which the writes arrived *)
Theorem c05_order_irrelevant : forall m t k ws ws', lattice m -> int_table t -> Permutation ws ws' ->
  int_get (insert_all m t (mk_rows ws)) k = int_get (insert_all m t (mk_rows ws')) k.
Proof. exact c05_order_irrelevant_lemma. Qed.
Print Assumptions c05_order_irrelevant.

(** ... and of how they were batched across commands / iterations *)
Theorem c05_batching : forall m t ws1 ws2,
  insert_all m (insert_all m t ws1) ws2 = insert_all m t (ws1 ++ ws2).
Proof. exact c05_batching_lemma. Qed.
Print Assumptions c05_batching.

(** collisions created by rebuilding go through the same merge: after re-keying through the
    union-find, the value of a canonical key is the fold over the values of ALL rows whose key
    canonicalises to it *)
Theorem c05_rebuild_value : forall p m rows k,
  tab_get (fst (fst (rebuild_rows p m rows []))) k
  = fold_opt m None (writes_to k (map (canon_row p) rows)).
Proof. exact c05_rebuild_value_lemma. Qed.
Print Assumptions c05_rebuild_value.

(** tables stay functions of their key through inserts and rebuilds *)
Theorem c05_keys_distinct : forall p m rows acc,
  keys_distinct acc -> keys_distinct (fst (fst (rebuild_rows p m rows acc))).
Proof. exact rebuild_rows_keys. Qed.
Print Assumptions c05_keys_distinct.

(** :no-merge: two different values for one key raise the conflict, equal values do not *)
Theorem c05_nomerge_conflict : forall a b, mconflict MAssertEq a b = negb (val_eqb a b).
Proof. exact nomerge_conflict. Qed.
Print Assumptions c05_nomerge_conflict.

(** the collision paths of core-relations/src/table/mod.rs AS WRITTEN NOW ([collision_sites] is
    regenerated from the source on every run: serial insert with / without sort column, per-shard
    parallel flush, in-batch staging): every one stores the merged row when the merge reports a
    change, so on any sequence of writes to one key it keeps the fold of the merge *)
Theorem c05_every_collision_path_folds : forall s, In s collision_sites ->
  forall m ws a, fold_left (site_val (snd s) m) ws a = fold_left (zmerge m) ws a.
Proof. exact every_collision_path_folds. Qed.
Print Assumptions c05_every_collision_path_folds.

Theorem c05_collision_paths_inventory :
  forallb (fun s => is_merged (snd s)) collision_sites = true /\ 4 <= List.length collision_sites.
Proof. exact (conj collision_sites_all_merged collision_sites_count). Qed.
Print Assumptions c05_collision_paths_inventory.

(** in-batch staging (any listed path) followed by the flush against the stored row (any listed
    path): the fold of all the batch's writes over the stored value *)
Theorem c05_staged_batch_value : forall st fl, In st collision_sites -> In fl collision_sites ->
  forall m, lattice m -> forall ws w0 stored,
  site_val (snd fl) m stored (fold_left (site_val (snd st) m) ws w0) = fold_left (zmerge m) (w0 :: ws) stored.
Proof. exact staged_path_value. Qed.
Print Assumptions c05_staged_batch_value.

(** non-vacuity of the source fact: a path keeping the raw incoming row loses writes under bit-or,
    and min / max cannot see it *)
Theorem c05_store_incoming_refuted :
  fold_left (site_val StoreIncoming MOr) [2; 4]%Z 1%Z <> fold_left (zmerge MOr) [2; 4]%Z 1%Z.
Proof. exact store_incoming_refuted. Qed.
Print Assumptions c05_store_incoming_refuted.

(** non-vacuity: min-merge of three writes in two orders, and a collision created by a union *)
Example c05_example :
  int_get (insert_all MMin [] (mk_rows [([VId 0], 5%Z); ([VId 1], 7%Z); ([VId 0], 3%Z)])) [VId 0] = Some 3%Z
  /\ tab_get (fst (fst (rebuild_rows [0; 0] MMax
        [mkRow [VId 0] (VInt 5) false; mkRow [VId 1] (VInt 9) false] []))) [VId 0] = Some (VInt 9).
Proof. split; vm_compute; reflexivity. Qed.

(** a NON-selective lattice: the merged value differs from both writes *)
Example c05_example_or :
  int_get (insert_all MOr [] (mk_rows [([VId 0], 1%Z); ([VId 0], 2%Z); ([VId 0], 4%Z)])) [VId 0] = Some 7%Z.
Proof. vm_compute; reflexivity. Qed.
