(** C02 — DECOMPOSED (multi-bag, Yannakakis-style) plans as free_join/execute.rs runs them
    ([Plan::DecomposedPlan]: one block of stages per bag, each block materialised as a map
    message-variable values -> rows of value-variable values; then the result block).

    Model.
    * A materialisation is the list of its rows [key ++ value] (key = the block's [msg_vars], value =
      its [val_vars]: [mat_key_part]/[mat_val_part] of gen/PlanFacts.v, regenerated from
      [InPlaceMaterializer::push_bindings]). The executor's map groups rows by key; iterating
      groups/rows yields the same SET of bindings.
    * While block [i] runs, the materialisations of blocks [0..i-1] are available. A
      [FusedIntersectMat { mode: KeyOnly }] stage (the prologue planned by plan_single_bag) iterates
      the keys of materialisation [j], binds the message variables and probes the bag's atoms with
      them: this is exactly a [FusedIntersect] whose cover is the materialisation seen as one more
      table (the code of the two arms of run_plan is the same up to where the cover rows come from),
      and that is how it is modelled: block [i] runs on the database extended with the
      materialisations as tables [ntabs + j], with [DMat j MoKeyOnly bind others] read as
      [Fused (natoms + j) [] bind others] ([block_plan]). The block's stages may be re-sorted at run
      time (none of them is a barrier of [sort_barrier], regenerated from sort_plan_by_size).
    * A block whose materialisation is empty ends the run with no match ([break 'eval]).
    * The result block consists of [FusedIntersectMat] stages in mode Full / Value (and Lookup in
      bag blocks: not in the certified fragment). They are barriers of [sort_barrier], so they run
      in plan order. [Value ivars] looks the group up under the CURRENT values of [ivars]
      (an unbound variable finds no group) and binds from the value part; [Full] iterates all rows
      and binds from [key ++ value].
    Executable definitions only. *)
From Coq Require Import List Arith Bool PeanoNat.
Import ListNotations.
Require Import Verif.gen.PlanFacts.
Require Import Verif.Query.Spec Verif.Query.Stages Verif.Query.PlanOk.

Inductive mmode := MoFull | MoKeyOnly | MoValue (ivars : list nat) | MoLookup (ivars : list nat).

Definition mode_kind (m : mmode) : mat_mode_kind :=
  match m with MoFull => MFull | MoKeyOnly => MKeyOnly | MoValue _ => MValue | MoLookup _ => MLookup end.

Inductive dstage :=
| DPlain (st : stage)
| DMat (j : nat) (m : mmode) (bind : list (nat * nat)) (others : list mscan).

Definition dstage_kind (st : dstage) : join_stage_kind :=
  match st with
  | DPlain (Intersect _ _) => KIntersect
  | DPlain (Fused _ _ _ _) => KFusedIntersect
  | DMat _ m _ _ => KFusedIntersectMat (mode_kind m)
  end.

Record bspec := mkBSpec { b_stages : list dstage; b_msg : list nat; b_val : list nat }.

(** a stage of the result block: FusedIntersectMat with no probes *)
Record rstage := mkRStage { r_mat : nat; r_mode : mmode; r_bind : list (nat * nat) }.

Record dplan := mkDPlan {
  dp_ntabs : nat;               (* number of tables of the database *)
  dp_tabs : list nat;           (* relation of every atom *)
  dp_headers : list header;
  dp_blocks : list bspec;
  dp_result : list rstage }.

Definition dummy_block : bspec := mkBSpec [] [] [].
Definition block_at (dp : dplan) (j : nat) : bspec := nth j (dp_blocks dp) dummy_block.
Definition part_vars (p : mat_part) (b : bspec) : list nat :=
  match p with PMsgVars => b_msg b | PValVars => b_val b end.
(** the columns of the block's materialisation: key part, then value part (regenerated layout) *)
Definition key_vars (b : bspec) : list nat := part_vars mat_key_part b.
Definition needed (b : bspec) : list nat := key_vars b ++ part_vars mat_val_part b.

(* ------------------------------------------------------------------ bag blocks *)

Definition tr_stage (natoms : nat) (st : dstage) : stage :=
  match st with
  | DPlain s => s
  | DMat j _ bind others => Fused (natoms + j) [] bind others
  end.

Definition block_plan (dp : dplan) (i : nat) (b : bspec) : plan :=
  mkPlan (dp_tabs dp ++ map (fun j => dp_ntabs dp + j) (seq 0 i))
         (dp_headers dp)
         (map (tr_stage (length (dp_tabs dp))) (b_stages b)).

Definition val_of (e : env) (x : nat) : nat := match lookup e x with Some v => v | None => 0 end.

(** rows are kept as a set: the executor's RowBuffer keeps repeated rows, which only repeat the
    same bindings downstream *)
Definition dedup_rows (rs : list row) : list row :=
  fold_right (fun r acc => if existsb (nat_list_eqb r) acc then acc else r :: acc) [] rs.

Definition mat_rows (b : bspec) (es : list env) : list row :=
  dedup_rows (map (fun e => map (val_of e) (needed b)) es).

(** the database has exactly [n] tables (missing ones are empty) *)
Definition pad_db (n : nat) (d : db) : db := firstn n (d ++ repeat [] n).

Fixpoint run_blocks (ch : chooser) (dp : dplan) (d : db) (i : nat) (bs : list bspec) (mats : list (list row))
  : option (list (list row)) :=
  match bs with
  | [] => Some mats
  | b :: tl =>
      let m := mat_rows b (run_plan ch (block_plan dp i b) (d ++ mats)) in
      if nonempty m then run_blocks ch dp d (S i) tl (mats ++ [m]) else None
  end.

(* ------------------------------------------------------------------ result block *)

Definition key_match (e : env) (ivars : list nat) (klen : nat) (r : row) : bool :=
  olist_eqb (map (lookup e) ivars) (map (@Some nat) (firstn klen r)) && (length ivars =? klen).

Definition shift_bind (k : nat) (bind : list (nat * nat)) : list (nat * nat) :=
  map (fun b => (k + fst b, snd b)) bind.

Definition rstep (dp : dplan) (mats : list (list row)) (rs : rstage) (e : env) : list env :=
  let klen := length (key_vars (block_at dp (r_mat rs))) in
  let rows := nth (r_mat rs) mats [] in
  match r_mode rs with
  | MoFull | MoKeyOnly => map (fun r => bind_env (r_bind rs) r e) rows
  | MoValue ivars => map (fun r => bind_env (shift_bind klen (r_bind rs)) r e) (filter (key_match e ivars klen) rows)
  | MoLookup ivars => if existsb (key_match e ivars klen) rows then [e] else []
  end.

(** run-time order of a stage list under the regenerated barrier: the next stage is any stage
    before the first barrier, or the barrier itself when it comes first *)
Fixpoint movable_prefix (ks : list join_stage_kind) : nat :=
  match ks with
  | [] => 0
  | k :: tl => if sort_barrier k then 0 else S (movable_prefix tl)
  end.

Definition pick (c : nat) (ks : list join_stage_kind) : nat :=
  match movable_prefix ks with 0 => 0 | S m => c mod (S m) end.

Definition rstage_kind (rs : rstage) : join_stage_kind := KFusedIntersectMat (mode_kind (r_mode rs)).

Fixpoint run_result (cs : list nat) (n : nat) (dp : dplan) (mats : list (list row)) (rem : list rstage) (e : env) : list env :=
  match rem with
  | [] => [e]
  | r0 :: _ =>
      match n with
      | 0 => []
      | S n' =>
          let i := pick (hd 0 cs) (map rstage_kind rem) in
          flat_map (run_result (tl cs) n' dp mats (remove_nth i rem)) (rstep dp mats (nth i rem r0) e)
      end
  end.

(** [rc]: the choices of the order oracle in the result block (ignored wherever the barrier leaves
    no choice) *)
Definition run_dplan (ch : chooser) (rc : list nat) (dp : dplan) (d : db) : list env :=
  match run_blocks ch dp (pad_db (dp_ntabs dp) d) 0 (dp_blocks dp) [] with
  | None => []
  | Some mats => run_result rc (length (dp_result dp)) dp mats (dp_result dp) []
  end.

(* ------------------------------------------------------------------ the checker *)

Definition stage_atoms (st : dstage) : list nat :=
  match st with
  | DPlain (Intersect _ scans) => map s_atom scans
  | DPlain (Fused cov _ _ others) => cov :: map m_atom others
  | DMat _ _ _ others => map m_atom others
  end.

(** the atoms of the bag = the atoms the block's stages touch *)
Definition touched (b : bspec) : list nat := flat_map stage_atoms (b_stages b).

Definition mats_used (b : bspec) : list nat :=
  flat_map (fun st => match st with DMat j _ _ _ => [j] | _ => [] end) (b_stages b).

Definition arg_vars (a : atom) : list nat :=
  flat_map (fun g => match g with AVar x => [x] | AConst _ => [] end) (a_args a).

(** the variables of the whole query are below [fresh_base]; [fresh q k c] is a variable that occurs
    nowhere else (one per atom and column) *)
Definition fresh_base (q : query) : nat := S (list_max (flat_map arg_vars (q_atoms q) ++ q_out q)).
Definition fresh (q : query) (k c : nat) : nat := fresh_base q + k * 8 + c.

(** block [i] OWNS atom [k] when its stages touch it and bind every variable of the atom that
    occurs anywhere else (a bag also touches sub-atoms of other bags' atoms: tree decomposition
    restricts atoms to the bag's variables) *)
Definition owned (q : query) (bp : plan) (b : bspec) (k : nat) (a : atom) : bool :=
  mem_nat k (touched b) &&
  forallb (fun x => mem_nat x (plan_vars bp) || (only_here q k x && negb (mem_nat x (q_out q)))) (arg_vars a).

(** what the block enforces of an atom it does not own: the columns holding variables the block
    binds, and the constraints it evaluates on the atom (headers included) that the atom justifies *)
Definition weakened (q : query) (bp : plan) (k : nat) (a : atom) : atom :=
  mkAtom (a_tab a)
         (map (fun cg => match snd cg with
                         | AVar x => if mem_nat x (plan_vars bp) then AVar x else AVar (fresh q k (fst cg))
                         | AConst _ => AVar (fresh q k (fst cg))
                         end) (iargs a))
         (filter (cs_just a) (atom_ecs bp k)).

(** the query block [i] evaluates: the atoms it owns as written, the others weakened (the block
    starts from the header-filtered subsets of ALL atoms and stops when one is empty); the
    materialisation read by the prologue as an atom over its message variables; the other
    materialisations only as non-empty tables *)
Definition block_query (q : query) (dp : dplan) (i : nat) (b : bspec) : query :=
  let bp := block_plan dp i b in
  mkQuery
    (map (fun ka => if owned q bp b (fst ka) (snd ka) then snd ka else weakened q bp (fst ka) (snd ka))
         (iatoms q)
     ++ map (fun j => mkAtom (dp_ntabs dp + j)
                             (if mem_nat j (mats_used b) then map AVar (key_vars (block_at dp j)) else []) [])
            (seq 0 i))
    (needed b).

(** the variables of the atoms the block owns *)
Definition block_vars (q : query) (dp : dplan) (i : nat) (b : bspec) : list nat :=
  flat_map (fun ka => if owned q (block_plan dp i b) b (fst ka) (snd ka) then arg_vars (snd ka) else []) (iatoms q).

Definition iblocks (dp : dplan) : list (nat * bspec) := combine (seq 0 (length (dp_blocks dp))) (dp_blocks dp).

(** bag stages: no barrier; a materialisation is only read by a KeyOnly prologue of an earlier
    block whose bind list is (position, message variable) *)
Definition bag_stage_ok (dp : dplan) (i : nat) (st : dstage) : bool :=
  negb (sort_barrier (dstage_kind st)) &&
  match st with
  | DPlain _ => true
  | DMat j MoKeyOnly bind _ =>
      (j <? i) &&
      nat_list_eqb (map fst bind) (seq 0 (length bind)) &&
      nat_list_eqb (map snd bind) (b_msg (block_at dp j))
  | DMat _ _ _ _ => false
  end.

Definition enum_bind (xs : list nat) : list (nat * nat) := combine (seq 0 (length xs)) xs.

Fixpoint pair_list_eqb (a b : list (nat * nat)) : bool :=
  match a, b with
  | [], [] => true
  | (x1, y1) :: a', (x2, y2) :: b' => (x1 =? x2) && (y1 =? y2) && pair_list_eqb a' b'
  | _, _ => false
  end.

(** result stages: barriers (so they run in plan order); Full on a block without message variables,
    Value keyed by exactly the block's message variables, which earlier result stages have bound;
    all value variables are bound, in order *)
Fixpoint result_ok (dp : dplan) (bound_so_far : list nat) (rs : list rstage) : bool :=
  match rs with
  | [] => true
  | r :: tl =>
      let b := block_at dp (r_mat r) in
      (r_mat r <? length (dp_blocks dp)) &&
      sort_barrier (rstage_kind r) &&
      pair_list_eqb (r_bind r) (enum_bind (b_val b)) &&
      match r_mode r with
      | MoFull => match b_msg b with [] => true | _ => false end
      | MoValue ivars => nat_list_eqb ivars (b_msg b) && forallb (fun x => mem_nat x bound_so_far) ivars
      | _ => false
      end &&
      result_ok dp (b_val b ++ bound_so_far) tl
  end.

Definition dplan_ok (q : query) (dp : dplan) : bool :=
  nat_list_eqb (dp_tabs dp) (map a_tab (q_atoms q)) &&
  forallb (fun a => a_tab a <? dp_ntabs dp) (q_atoms q) &&
  (* every block is an accepted single-bag plan of its block query *)
  forallb (fun ib => plan_ok (block_query q dp (fst ib) (snd ib)) (block_plan dp (fst ib) (snd ib)) &&
                     forallb (bag_stage_ok dp (fst ib)) (b_stages (snd ib)) &&
                     nodupb (needed (snd ib)) &&
                     forallb (fun x => mem_nat x (block_vars q dp (fst ib) (snd ib))) (needed (snd ib)))
          (iblocks dp) &&
  (* every atom is owned by some bag *)
  forallb (fun ka => existsb (fun ib => owned q (block_plan dp (fst ib) (snd ib)) (snd ib) (fst ka) (snd ka)) (iblocks dp)) (iatoms q) &&
  (* a variable shared by two bags is passed on by both (message or value variable) *)
  forallb (fun ib => forallb (fun jb =>
             (fst ib =? fst jb) ||
             forallb (fun x => negb (mem_nat x (block_vars q dp (fst jb) (snd jb))) ||
                               (mem_nat x (needed (snd ib)) && mem_nat x (needed (snd jb))))
                     (block_vars q dp (fst ib) (snd ib)))
           (iblocks dp)) (iblocks dp) &&
  (* the result block *)
  result_ok dp [] (dp_result dp) &&
  nodupb (map r_mat (dp_result dp)) &&
  forallb (fun ib => match needed (snd ib) with [] => true | _ => mem_nat (fst ib) (map r_mat (dp_result dp)) end)
          (iblocks dp) &&
  forallb (fun x => existsb (fun r => mem_nat x (needed (block_at dp (r_mat r)))) (dp_result dp)) (q_out q).

(* ------------------------------------------------------------------ harness-written cases *)

Inductive dcase :=
| CS (c : ccase)                                                   (* single-bag cases, as before *)
| CDPlan (q : query) (dp : dplan)
| CDExec (q : query) (dp : dplan) (d : db) (rows : list (list nat)).

Definition dexec_ok (q : query) (dp : dplan) (d : db) (rows : list (list nat)) : bool :=
  let want := map (map (@Some nat)) rows in
  set_eqb (map (proj (q_out q)) (matches q d)) want &&
  forallb (fun ch => set_eqb (map (proj (q_out q)) (run_dplan ch [1; 0; 2] dp d)) want)
          [ch_first; ch_last; ch_mix 1; ch_mix 2].

Definition check_dcase (c : dcase) : bool :=
  match c with
  | CS c' => check_case c'
  | CDPlan q dp => dplan_ok q dp
  | CDExec q dp d rows => dplan_ok q dp && dexec_ok q dp d rows
  end.
