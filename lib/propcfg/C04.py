"""C04 configuration for bin/check."""

CFG = {'assumptions': ['containers are not modelled here (C14)'],
 'corr_is_violation': True,
 'harness': [{'bin': 'h_egg', 'extra': ['--prop', 'C04'], 'name': 'h_egg', 'prefix': 'cases_egg'}],
 'link_only': "the same invariant evaluated on the REAL engine's dump after every command including failed "
              'ones (rule panic, :no-merge conflict, failing primitive) via hook H0 (canonical id accessor); '
              'the serialised e-graph (node count per function, number of e-classes) compared with the read API after every command',
 'model_targets': ['Egg/Rules.vo'],
 'proof_targets': ['Props/C04.vo'],
 'theorem_backed': 'c04_inv_reachable: after every command of every history the model state is canonical '
                   '(all stored ids are union-find roots), functional (keys distinct), has no two congruent '
                   'rows; eval is evaluation modulo the union-find; c04_x_inv_reachable: for EVERY program of the rule interpreter over ANY signature (lattice functions, relations, :no-merge, subsume, delete, panic, ungrounded actions) every state visited - error point included - is canonical and functional; c04_x_no_model_error (rebuild fuel suffices on mixed signatures)',
 'tier_a': ['UFSeq', 'MergeArms', 'BridgeFns'],
 'trusted': ['translator /verif/translator: gen/UFSeq.v (union-find), gen/MergeArms.v (UnionId=min, Old, '
             'New), gen/BridgeFns.v (combine_subsumed) are regenerated from the source on every run and used '
             'by Egg/Model.v',
             'hand-written model coq/Egg/Model.v + Egg/Rules.v (naive matching, term-level commands) tied to '
             'the engine by the correspondence check h_egg (observations after every command: class vector '
             'of probe terms up to depth 3, table sizes, subsumed counts, int-valued probes)']}
