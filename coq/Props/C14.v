(** C14 — Containers of e-classes stay canonical and keep rules firing.
    This file only pins statements and prints their assumptions.

    Model: coq/Cont/Env.v (ContainerEnv of core-relations/src/containers/mod.rs as three finite maps,
    both rebuild strategies, the dirty-id closure, the rebuild loop of egglog-bridge) over the
    union-find translated from union-find/src/lib.rs. [oracle] is the choice of the surviving
    value when two keys of a Map collide (left open, as in the property). *)
From Coq Require Import List Arith PeanoNat Lia.
Import ListNotations.
Require Import Verif.Base.Res Verif.gen.UFSeq Verif.UF.Seq Verif.Egg.Model Verif.Egg.RepFacts
  Verif.Cont.Env Verif.Cont.Facts Verif.Cont.Pass Verif.Cont.Fix
  Verif.gen.BridgeFns Verif.gen.ContFacts Verif.Cont.Gen Verif.Cont.Refresh.

(** In every reachable state (any interleaving of fresh e-classes, hash-consing insertions,
    unions of e-classes, rebuilds to fixpoint with ANY choice of strategy per pass):
    the union-find is well formed; [to_id] is injective both ways (equal contents => one id,
    one id => one contents); [get_container] (id |-> locator |-> entry) is exactly the inverse of
    [to_id]; val_index lists every live container under every value it mentions; and every live
    container id is a root of the union-find. *)
Theorem c14_env_inv : forall oracle s, Reach oracle s ->
  let e := cenv s in
  Inv (cuf s)
  /\ (forall c v1 v2, In (c, v1) (to_id e) -> In (c, v2) (to_id e) -> v1 = v2)
  /\ (forall c1 c2 v, In (c1, v) (to_id e) -> In (c2, v) (to_id e) -> c1 = c2)
  /\ (forall v c, get_container e v = Some c <-> In (c, v) (to_id e))
  /\ (forall c v x, In (c, v) (to_id e) -> In x (iter c) -> In v (idx_get (vidx e) x))
  /\ (forall c v, In (c, v) (to_id e) -> rep (cuf s) v = v /\ v < length (cuf s)).
Proof.
  intros oracle s R. apply Reach_Good in R. destruct R as [HI I Rl Pd]. cbv zeta.
  split; [exact HI|].
  split; [intros c v1 v2; apply NoDup_fst_fun; apply (inv_keys _ I)|].
  split; [intros c1 c2 v; apply NoDup_snd_fun; apply (inv_ids _ I)|].
  split; [intros v c; apply get_container_spec; exact I|].
  split; [apply (inv_idx _ I)|].
  intros c v H. apply Rl. apply in_live. eauto.
Qed.
Print Assumptions c14_env_inv.

(** The rebuild loop started in a reachable state with the fuel the model states terminates
    normally, whatever strategy each pass takes. *)
Theorem c14_rebuild_terminates : forall oracle s strat dacc, Reach oracle s ->
  exists s' d, rebuild_loop oracle (rebuild_fuel s) strat s dacc = Ok (s', d).
Proof.
  intros oracle s strat dacc R.
  destruct (loop_spec oracle (rebuild_fuel s) strat s dacc (Reach_Good _ _ R) (rebuild_fuel_enough s))
    as (s' & d & E & _).
  eauto.
Qed.
Print Assumptions c14_rebuild_terminates.

(** After the loop every stored value that the rebuilder looks at is canonical w.r.t. the final
    union-find, two stored containers whose contents agree after canonicalisation are one
    container (one id), no displaced id is pending, the final union-find only coarsens the
    initial one and no container id was invented. *)
Theorem c14_rebuild_canonical : forall oracle s strat dacc s' d, Reach oracle s ->
  rebuild_loop oracle (rebuild_fuel s) strat s dacc = Ok (s', d) ->
  let p' := cuf s' in let e' := cenv s' in
  (forall c v x, In (c, v) (to_id e') -> In x (rids c) -> rep p' x = x)
  /\ (forall c1 v1 c2 v2, In (c1, v1) (to_id e') -> In (c2, v2) (to_id e') ->
        rebuild_contents oracle (rep p') c1 = rebuild_contents oracle (rep p') c2 -> v1 = v2)
  /\ (forall c v, In (c, v) (to_id e') -> rep p' v = v)
  /\ pending s' = []
  /\ coarse (cuf s) p'
  /\ (forall w, In w (live e') -> In w (live (cenv s))).
Proof.
  intros oracle s strat dacc s' d R E. cbv zeta.
  destruct (loop_spec oracle (rebuild_fuel s) strat s dacc (Reach_Good _ _ R) (rebuild_fuel_enough s))
    as (s'' & d' & E' & G & C & Hc & _ & Hp & Hs).
  rewrite E in E'. injection E' as <- <-.
  assert (K : forall c v, In (c, v) (to_id (cenv s')) -> changed (rep (cuf s')) c = false)
    by (intros c v H; apply (C c v H)).
  split.
  { intros c v x H Hx. apply (proj1 (changed_false _ _) (K c v H)). exact Hx. }
  split.
  { intros c1 v1 c2 v2 H1 H2. unfold rebuild_contents. rewrite (K c1 v1 H1), (K c2 v2 H2).
    intros <-. eapply NoDup_fst_fun; [apply (inv_keys _ (g_env _ G))| |]; eauto. }
  split.
  { intros c v H. apply (g_roots _ G). apply in_live. eauto. }
  auto.
Qed.
Print Assumptions c14_rebuild_canonical.

(** One pass of either strategy from a reachable state, run against the union-find [p]: every
    container is afterwards filed under its contents canonicalised by [p], with an id in the class
    (after the staged unions) of its old id; hence two containers whose contents are equal modulo
    the current equalities are the same value: their ids are in one class. (Map: with the key
    collision choice [oracle]; the statement holds for every choice.) *)
Theorem c14_equal_containers_merge : forall oracle b s e' us dirty chg, Reach oracle s ->
  run_pass oracle b s = (e', us, dirty, chg) ->
  exists p', uf_unions (cuf s) us = Ok p'
    /\ (forall c v, In (c, v) (to_id (cenv s)) ->
          exists v', In (rebuild_contents oracle (rep (cuf s)) c, v') (to_id e') /\ rep p' v' = rep p' v)
    /\ (forall c1 v1 c2 v2, In (c1, v1) (to_id (cenv s)) -> In (c2, v2) (to_id (cenv s)) ->
          rebuild_contents oracle (rep (cuf s)) c1 = rebuild_contents oracle (rep (cuf s)) c2 ->
          rep p' v1 = rep p' v2).
Proof.
  intros oracle b s e' us dirty chg R E. apply (pass_merges oracle b s e' us dirty chg (Reach_Good _ _ R) E).
Qed.
Print Assumptions c14_equal_containers_merge.

(** One pass of either strategy from a reachable state: every container whose contents changed
    while its id stayed is in the dirty set handed to refresh_rows_for_values, and that set is
    closed under containment (a container holding a dirty container id is dirty), so every row
    mentioning a container whose meaning changed in place is re-stamped. *)
Theorem c14_dirty_complete : forall oracle b s e' us dirty chg, Reach oracle s ->
  run_pass oracle b s = (e', us, dirty, chg) ->
  let D := dirty_closure e' dirty in
  (forall c c' v, In (c, v) (to_id (cenv s)) -> In (c', v) (to_id e') -> c <> c' -> In v D)
  /\ (forall v d w, In v D -> In (d, w) (to_id e') -> In v (iter d) -> In w D).
Proof.
  intros oracle b s e' us dirty chg R E. cbv zeta.
  destruct (pass_step oracle b s e' us dirty chg (Reach_Good _ _ R) E) as (p' & _ & G' & _ & _ & _ & T & _).
  destruct (dirty_closure_spec oracle e' dirty (g_env _ G')) as [K1 K2].
  split; [intros c c' v H1 H2 N; apply K1; eapply T; eauto|exact K2].
Qed.
Print Assumptions c14_dirty_complete.

(** Suspect S3 decided: when the pass runs against a union-find in which every live container id
    is a root — which [c14_env_inv] shows for every reachable state — the first loop of
    apply_rebuild_nonincremental only takes changed containers out and queues them with
    [stable_id = true]; the "just the value changed" arm, which re-keys an entry without
    maintaining val_index, is not reached. *)
Theorem c14_s3_branch_dead : forall oracle f entries e todo chg,
  (forall c v, In (c, v) entries -> f v = v) ->
  scan_full oracle f entries e todo chg =
    (fold_left take (map snd (filter (chf f) entries)) e,
     todo ++ map (fun cv => (rebuild_raw oracle f (fst cv), snd cv, true)) (filter (chf f) entries),
     (chg || existsb (chf f) entries)%bool).
Proof. exact scan_full_L. Qed.
Print Assumptions c14_s3_branch_dead.

(** TIER A. The hand model IS the code's decision logic: [insert_owned], both passes and the dirty-id
    closure of Cont/Env.v are equal, for all inputs, to the functions Cont/Gen.v assembles from
    gen/ContFacts.v — regenerated on every run from core-relations/src/containers/mod.rs
    (insert_owned arms as effect lists with their guard and merge arguments, the conditions of
    reinsert_incremental, the arms of the non-incremental scan and its reinsertion loop, the queue
    of the incremental scan, rebuild_all + expand_dirty_id_closure's loop) and from
    egglog-bridge/src/lib.rs (the merge closure of register_container_ty). A change of the
    surviving id (min -> max), of the staged union, a dropped to_container / val_index update in the
    collision arm, a changed dirty test or a one-level closure changes the right-hand sides only. *)
Theorem c14_model_is_regenerated : forall oracle,
  (forall e c v, insert_owned e c v = insert_owned_g e c v)
  /\ (forall f e, pass_full oracle f e = pass_full_g oracle f e)
  /\ (forall f d e, pass_inc oracle f d e = pass_inc_g oracle f d e)
  /\ (forall e dirty, dirty_closure e dirty = dirty_closure_g e dirty).
Proof.
  intros oracle. split; [intros; symmetry; apply insert_owned_g_eq|].
  split; [intros; symmetry; apply pass_full_g_eq|].
  split; [intros; symmetry; apply pass_inc_g_eq|].
  intros; symmetry; apply dirty_closure_g_eq.
Qed.
Print Assumptions c14_model_is_regenerated.

(** the regenerated merge closure keeps the least id and stages the union of the two ids exactly
    when they differ (the facts behind the collision branch: red-team patches rt_c14 / rt2_c14) *)
Theorem c14_merge_keeps_min : forall old new,
  cont_merge old new = Nat.min old new
  /\ cont_merge_staged old new = (if old =? new then [] else [(old, new)]).
Proof.
  intros old new. unfold cont_merge, cont_merge_staged.
  destruct (Nat.eqb_spec old new); simpl; split; try reflexivity. subst. symmetry. apply Nat.min_id.
Qed.
Print Assumptions c14_merge_keeps_min.

(** the rebuild loop over the REGENERATED passes, with a strategy that may inspect the state (in
    particular [real_strategy]: the translated threshold call of ContainerEnv::apply_rebuild over the
    translated [incremental_rebuild]), started in a reachable state: terminates, and at the fixpoint
    every stored id is canonical, containers equal after canonicalisation are one container, every
    container id is a root and nothing is pending. *)
Theorem c14_regenerated_loop_canonical : forall oracle s strat dacc, Reach oracle s ->
  exists s' d, rebuild_loop_g oracle (rebuild_fuel s) strat s dacc = Ok (s', d)
    /\ (forall c v x, In (c, v) (to_id (cenv s')) -> In x (rids c) -> rep (cuf s') x = x)
    /\ (forall c1 v1 c2 v2, In (c1, v1) (to_id (cenv s')) -> In (c2, v2) (to_id (cenv s')) ->
          rebuild_contents oracle (rep (cuf s')) c1 = rebuild_contents oracle (rep (cuf s')) c2 -> v1 = v2)
    /\ (forall c v, In (c, v) (to_id (cenv s')) -> rep (cuf s') v = v)
    /\ pending s' = [].
Proof.
  intros oracle s strat dacc R.
  destruct (rebuild_loop_g_eq oracle (rebuild_fuel s) strat s dacc) as (st & E).
  destruct (c14_rebuild_terminates oracle s st dacc R) as (s' & d & E').
  exists s', d. rewrite E. split; [exact E'|].
  destruct (c14_rebuild_canonical oracle s st dacc s' d R E') as (A & B & C & D & _).
  auto.
Qed.
Print Assumptions c14_regenerated_loop_canonical.

(** both strategies are taken by the translated threshold: 2 displaced ids against 16 containers
    -> incremental (serial: 2 <= 16/8), against 8 containers -> full; no hint column -> full *)
Example c14_real_strategy_both :
  let mk n := mkCS [] (mkEnv (map (fun i => (CVec [i], i)) (seq 0 n)) [] []) [0; 1] in
  real_strategy (fun _ => false) true 0 (mk 16) = true
  /\ real_strategy (fun _ => false) true 0 (mk 8) = false
  /\ real_strategy (fun _ => false) false 0 (mk 16) = false
  /\ real_strategy (fun _ => true) true 0 (mk 16) = false.
Proof. vm_compute. auto. Qed.

(** apply_rebuild_nonincremental_parallel takes the same decisions as the serial variant (scan arms,
    collision arm effects / guard / merge arguments, vacant arm, dirty tests) *)
Theorem c14_parallel_same_decisions :
  (forall ch nv ov, par_skip ch nv ov = nonincr_skip ch nv ov
                    /\ par_requeue ch nv ov = nonincr_requeue ch nv ov
                    /\ par_taken_locator ch nv ov = nonincr_taken_locator ch nv ov
                    /\ par_queued_id ch nv ov = nonincr_queued_id ch nv ov
                    /\ par_queued_stable ch nv ov = nonincr_queued_stable ch nv ov)
  /\ par_rekey_touches_val_index = nonincr_rekey_touches_val_index
  /\ par_merge_args = io_merge_args /\ par_occ_guard_ne = io_occ_guard_ne
  /\ par_occ_changed_ops = io_occ_changed_ops /\ par_vac_ops = io_vac_ops
  /\ (forall st actual val, par_occ_dirty st actual val = nonincr_dirty st actual val
                            /\ par_occ_dirty_id st actual val = nonincr_dirty_id st actual val)
  /\ (forall st val, par_vac_dirty st val val = nonincr_dirty st val val
                     /\ par_vac_dirty_id st val val = nonincr_dirty_id st val val).
Proof. exact par_same_decisions. Qed.
Print Assumptions c14_parallel_same_decisions.

(** TABLE REFRESH (the C03 obligation for containers). One pass of the native rebuild loop of
    egglog-bridge from a reachable container state, over any table contents: containers are rebuilt
    first (either strategy), the tables are rebuilt against the union-find that holds the unions
    the container pass staged, then the rows mentioning a dirty id are refreshed with the same
    [next_ts], then the timestamp advances. Afterwards every row is the old row with every column
    canonicalised (so every container id a row mentions is canonical); every row whose columns
    changed carries [next_ts]; and every row mentioning a container whose MEANING changed while
    its id stayed — its contents changed in place, or, at ANY nesting depth, it contains such a
    container — carries [next_ts] too, so semi-naive sees it in the next iteration. *)
Theorem c14_refresh_restamps : forall oracle b st st' again, Reach oracle (bcs st) ->
  bridge_pass_model oracle b st = Ok (st', again) ->
  let p' := cuf (bcs st') in
  bts st' = S (bts st)
  /\ length (brows st') = length (brows st)
  /\ forall i r r', nth_error (brows st) i = Some r -> nth_error (brows st') i = Some r' ->
       rcols r' = map (rep p') (rcols r)
       /\ (forall x, In x (rcols r') -> rep p' x = x)
       /\ (rcols r' <> rcols r -> rts r' = bts st)
       /\ (forall x, In x (rcols r') -> deep_changed (cenv (bcs st)) (cenv (bcs st')) x ->
             rts r' = bts st).
Proof.
  intros oracle b st st' again R E. exact (refresh_restamps oracle b st st' again (Reach_Good _ _ R) E).
Qed.
Print Assumptions c14_refresh_restamps.

(** the order of the steps of one pass as regenerated from EGraph::rebuild (containers before
    tables before the refresh, one [next_ts] for both, [inc_ts] last) is the order
    [bridge_pass_model] implements, and the loop stops exactly when nothing changed *)
Example c14_bridge_pass_order :
  bridge_pass = [BContainers; BNextTs; BTables; BDirtyOfContainers; BRefresh; BIncTs]
  /\ (forall t r c, bridge_break t r c = negb t && negb r && negb c)
  /\ refresh_ts_col = SetNextTs /\ refresh_other_cols = KeepCol
  /\ refresh_candidates_from_dirty_index = true /\ refresh_in_row_order = true.
Proof. repeat split. Qed.

(** non-vacuity, nesting depth 2: ids 0,1 elements (1 displaced by 0), 2 = (vec-of 1),
    3 = (vec-of 2). The inner vector is rebuilt in place, the outer one is untouched; the row
    mentioning only the OUTER id is re-stamped (5), the row mentioning 1 is re-keyed and stamped,
    the row mentioning 0 keeps its stamp — under both strategies. *)
Example c14_refresh_example :
  let st := mkB (mkCS [0; 0; 2; 3]
                   (mkEnv [(CVec [2], 3); (CVec [1], 2)] [(3, CVec [2]); (2, CVec [1])] [(1, [2]); (2, [3])]) [1])
                [mkRow [3] 0; mkRow [1] 0; mkRow [0] 0] 5 in
  forall b, exists st', bridge_pass_model lww b st = Ok (st', true)
    /\ brows st' = [mkRow [3] 5; mkRow [0] 5; mkRow [0] 0]
    /\ deep_changed (cenv (bcs st)) (cenv (bcs st')) 3.
Proof.
  cbv zeta. intros b.
  assert (D : forall e', In (CVec [0], 2) (to_id e') -> In (CVec [2], 3) (to_id e') ->
    deep_changed (mkEnv [(CVec [2], 3); (CVec [1], 2)] [(3, CVec [2]); (2, CVec [1])] [(1, [2]); (2, [3])]) e' 3).
  { intros e' H2 H3. eapply dc_in with (w := 2) (d := CVec [2]); [|exact H3|simpl; auto].
    eapply dc_here with (c := CVec [1]) (c' := CVec [0]); [simpl; auto|exact H2|discriminate]. }
  destruct b; eexists; (split; [vm_compute; reflexivity|]); (split; [reflexivity|]);
    apply D; simpl; auto.
Qed.

(** ... and the arm WOULD break the index: run against a rebuilder that displaces a live container
    id whose contents are unchanged, the pass leaves a live container that val_index does not
    list under the value it contains. (Not reachable from egglog: container ids are displaced
    only by collisions inside the pass, which re-key the surviving entry themselves.) *)
Example c14_s3_branch_breaks_index :
  let f := fun x => if x =? 5 then 3 else x in
  let e := mkEnv [(CVec [0], 5)] [(5, CVec [0])] [(0, [5])] in
  EnvInv e /\
  let e' := fst (fst (fst (pass_full lww f e))) in
  In (CVec [0], 3) (to_id e') /\ ~ In 3 (idx_get (vidx e') 0).
Proof.
  cbv zeta. split.
  - constructor; simpl.
    + repeat constructor; simpl; tauto.
    + repeat constructor; simpl; tauto.
    + intros c v [H|[]]. injection H as <- <-. reflexivity.
    + intros c v x [H|[]]. injection H as <- <-. simpl. intros [<-|[]]. simpl. auto.
  - vm_compute. split; [auto|]. intros [H|[]]. discriminate.
Qed.

(** the incremental strategy leaves the locator of a displaced id behind (a benign leak: the lookup
    through it fails); recorded so that the model is not mistaken for stronger than the code *)
Example c14_stale_locator :
  exists s, Reach lww s /\ exists v, find_cont (to_cont (cenv s)) v <> None /\ get_container (cenv s) v = None.
Proof.
  set (s0 := mkCS [] empty_env []).
  set (s1 := mkCS [0] empty_env []).
  set (s2 := mkCS [0; 1] empty_env []).
  assert (R2 : Reach lww s2).
  { change s2 with (mkCS (cuf s1 ++ [length (cuf s1)]) (cenv s1) (pending s1)). apply R_fresh.
    change s1 with (mkCS (cuf s0 ++ [length (cuf s0)]) (cenv s0) (pending s0)). apply R_fresh. apply R_init. }
  pose proof (R_insert lww s2 (CVec [0]) R2) as R3.
  match type of R3 with _ -> Reach _ ?s => set (s3 := s) in * end.
  assert (R3' : Reach lww s3) by (apply R3; simpl; intros x [<-|[]]; left; reflexivity).
  pose proof (R_insert lww s3 (CVec [1]) R3') as R4.
  match type of R4 with _ -> Reach _ ?s => set (s4 := s) in * end.
  assert (R4' : Reach lww s4) by (apply R4; simpl; intros x [<-|[]]; left; reflexivity).
  assert (R5 : exists p', uf_union (cuf s4) 0 1 = Ok p') by (vm_compute; eauto).
  destruct R5 as (p' & Hu).
  pose proof (R_union lww s4 0 1 p' R4') as R5.
  assert (R5' : Reach lww (mkCS p' (cenv s4) (pending s4 ++ displaced (cuf s4) p'))).
  { apply R5.
    - vm_compute. lia.
    - vm_compute. lia.
    - vm_compute. intros [H|[H|[]]]; discriminate.
    - vm_compute. intros [H|[H|[]]]; discriminate.
    - exact Hu. }
  vm_compute in Hu. injection Hu as <-.
  match type of R5' with Reach _ ?s => set (s5 := s) in * end.
  destruct (c14_rebuild_terminates lww s5 (fun _ => true) [] R5') as (s6 & d & E).
  exists s6. split; [eapply R_rebuild; eauto|].
  vm_compute in E. injection E as <- _.
  exists 3. vm_compute. split; [discriminate|reflexivity].
Qed.

(** non-vacuity: a history with nesting, a collapsing set and two vectors becoming equal runs to a
    fixpoint under the full, the incremental and the alternating strategy and produces the
    observation recorded from the engine *)
Example c14_example :
  check_case [HNew; HNew; HNew; HIns KVec [0; 1]; HIns KVec [0; 0]; HIns KSet [0; 1; 2];
              HIns KVec [3; 4]; HIns KVec [4; 4]; HUnion 1 0; HUnion 2 1;
              HObs [[0]; [0]; [0]; [3; 0; 0]; [3; 0; 0]; [5; 0]; [6; 3; 3]; [6; 3; 3]]] = true.
Proof. vm_compute. reflexivity. Qed.
