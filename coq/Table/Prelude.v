(** C16: support for the definitions regenerated into gen/TableFns.v (translator module x_table.rs):
    the constraint type, Rust's [Result<A, B>], checked subtraction, association lists, and the
    documented contract of the standard library's [binary_search_by_key] together with two
    executable instances (so the contract is inhabited and the model can run). Definitions and the
    two instance lemmas only. *)
From Coq Require Import List Arith PeanoNat Sorted Lia.
Import ListNotations.
Require Import Verif.Base.Res.

(** [Constraint] of core-relations (columns and values are their u32 representations) *)
Inductive constr :=
| CEq (l r : nat) | CEqC (c v : nat) | CLt (c v : nat) | CGt (c v : nat) | CLe (c v : nat) | CGe (c v : nat).

(** Rust's [Result<A, B>] (constructors renamed: [Ok] is taken by [Res]) *)
Inductive rres (A B : Type) : Type :=
| ROk (a : A)
| RErr (b : B).
Arguments ROk {A B} a.
Arguments RErr {A B} b.

(** [a - b] on an unsigned integer: panics on underflow *)
Definition usub (a b : nat) : Res nat := if b <=? a then Ok (a - b) else Panic.

(** [HashMap::get] on an association list, newest binding first *)
Fixpoint assoc (l : list (nat * nat)) (k : nat) : option nat :=
  match l with
  | [] => None
  | (a, b) :: tl => if a =? k then Some b else assoc tl k
  end.

(** The documented contract of [[T]::binary_search_by_key] on a slice sorted by the key (here: the
    list of keys): [Ok i] -- SOME index holding the value ("if there are multiple matches, then any
    one of the matches could be returned"); [Err i] -- the index where the value could be inserted
    while maintaining sorted order. *)
Definition bs_contract (bs : list nat -> nat -> rres nat nat) : Prop :=
  forall keys v, StronglySorted le keys ->
    match bs keys v with
    | ROk i => nth_error keys i = Some v
    | RErr i => i <= length keys /\
                forall j k, nth_error keys j = Some k -> (j < i -> k < v) /\ (i <= j -> v < k)
    end.

(** instance 1: the FIRST match *)
Fixpoint lin_bs_from (i : nat) (keys : list nat) (v : nat) : rres nat nat :=
  match keys with
  | [] => RErr i
  | k :: tl => if k <? v then lin_bs_from (S i) tl v else if k =? v then ROk i else RErr i
  end.
Definition lin_bs : list nat -> nat -> rres nat nat := lin_bs_from 0.

(** instance 2: the LAST match *)
Fixpoint last_bs_from (i : nat) (keys : list nat) (v : nat) : rres nat nat :=
  match keys with
  | [] => RErr i
  | k :: tl =>
      if k <? v then last_bs_from (S i) tl v
      else if k =? v then (match last_bs_from (S i) tl v with ROk j => ROk j | RErr _ => ROk i end)
      else RErr i
  end.
Definition last_bs : list nat -> nat -> rres nat nat := last_bs_from 0.

Lemma lin_bs_from_ok : forall keys v b, StronglySorted le keys ->
  match lin_bs_from b keys v with
  | ROk i => b <= i /\ nth_error keys (i - b) = Some v
  | RErr i => b <= i /\ i - b <= length keys /\
              forall j k, nth_error keys j = Some k -> (b + j < i -> k < v) /\ (i <= b + j -> v < k)
  end.
Proof.
  induction keys as [|k tl IH]; intros v b HS; simpl.
  - split; [lia|]. split; [lia|]. intros [|j] k H; discriminate.
  - inversion HS as [|? ? HS' Hall]; subst. rewrite Forall_forall in Hall.
    destruct (Nat.ltb_spec k v) as [Hlt|Hge].
    + specialize (IH v (S b) HS'). destruct (lin_bs_from (S b) tl v) as [i|i].
      * destruct IH as (Hb & Hn). split; [lia|]. replace (i - b) with (S (i - S b)) by lia. exact Hn.
      * destruct IH as (Hb & Hl & Hj). split; [lia|]. split; [lia|]. intros [|j] k' H; simpl in H.
        -- inversion H; subst k'. split; intros; lia.
        -- specialize (Hj j k' H). split; intros; apply Hj; lia.
    + destruct (Nat.eqb_spec k v) as [E|Hne].
      * subst. rewrite Nat.sub_diag. simpl. auto.
      * split; [lia|]. split; [lia|]. intros [|j] k' H; simpl in H.
        -- inversion H; subst k'. split; intros; lia.
        -- apply nth_error_In in H. apply Hall in H. split; intros; lia.
Qed.

Lemma lin_bs_contract : bs_contract lin_bs.
Proof.
  intros keys v HS. unfold lin_bs. pose proof (lin_bs_from_ok keys v 0 HS) as H.
  destruct (lin_bs_from 0 keys v) as [i|i].
  - destruct H as (_ & H). rewrite Nat.sub_0_r in H. exact H.
  - destruct H as (_ & Hl & Hj). split; [lia|]. intros j k Hn. specialize (Hj j k Hn). simpl in Hj. exact Hj.
Qed.

Lemma last_bs_from_ok : forall keys v b, StronglySorted le keys ->
  match last_bs_from b keys v with
  | ROk i => b <= i /\ nth_error keys (i - b) = Some v
  | RErr i => b <= i /\ i - b <= length keys /\
              forall j k, nth_error keys j = Some k -> (b + j < i -> k < v) /\ (i <= b + j -> v < k)
  end.
Proof.
  induction keys as [|k tl IH]; intros v b HS; simpl.
  - split; [lia|]. split; [lia|]. intros [|j] k H; discriminate.
  - inversion HS as [|? ? HS' Hall]; subst. rewrite Forall_forall in Hall.
    specialize (IH v (S b) HS').
    destruct (Nat.ltb_spec k v) as [Hlt|Hge].
    + destruct (last_bs_from (S b) tl v) as [i|i].
      * destruct IH as (Hb & Hn). split; [lia|]. replace (i - b) with (S (i - S b)) by lia. exact Hn.
      * destruct IH as (Hb & Hl & Hj). split; [lia|]. split; [lia|]. intros [|j] k' H; simpl in H.
        -- inversion H; subst k'. split; intros; lia.
        -- specialize (Hj j k' H). split; intros; apply Hj; lia.
    + destruct (Nat.eqb_spec k v) as [E|Hne].
      * subst. destruct (last_bs_from (S b) tl v) as [i|i].
        -- destruct IH as (Hb & Hn). split; [lia|]. replace (i - b) with (S (i - S b)) by lia. exact Hn.
        -- rewrite Nat.sub_diag. simpl. auto.
      * split; [lia|]. split; [lia|]. intros [|j] k' H; simpl in H.
        -- inversion H; subst k'. split; intros; lia.
        -- apply nth_error_In in H. apply Hall in H. split; intros; lia.
Qed.

Lemma last_bs_contract : bs_contract last_bs.
Proof.
  intros keys v HS. unfold last_bs. pose proof (last_bs_from_ok keys v 0 HS) as H.
  destruct (last_bs_from 0 keys v) as [i|i].
  - destruct H as (_ & H). rewrite Nat.sub_0_r in H. exact H.
  - destruct H as (_ & Hl & Hj). split; [lia|]. intros j k Hn. specialize (Hj j k Hn). simpl in Hj. exact Hj.
Qed.
