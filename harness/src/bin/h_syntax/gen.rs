//! Random syntax trees over the full command grammar and an independent writer of *source text*
//! for them (correct escaping, every option, sugar and layout variations).  The trees that the
//! property quantifies over are the ones the Rust parser returns for that text.
use crate::model::*;
use verif_harness::util::Rng;

pub const SYMS: &[&str] = &[
    "f", "g", "Add", "Mul", "Num", "x", "y", "x1", "my-rule", "a.b", "+", "-", "<=", "!=", "vec-of", "$g", "i64", "Math",
    "λ", "变量", "é1", "x→y", "a\"b", "a\\b", "1e999", "1.2.3", "--5", "0x10", "1_000", "infinity", "nan", "Inf", "+inf",
    "-Infinity", "tru", "falsey", "NaN1", "a;b", "|", "'q", "#t", "a\u{a0}b", "\u{3000}z", "run", "let", "seq", "=", "rule",
    "sort", "set", "panic", "x'", "a,b", "[", "{}", "e", ".", "..", "-.", "1-", "+x",
];
pub const RESERVED: &[&str] = &["@x", "@_", "@_1", "a@b", "@"];
pub const COLON: &[&str] = &[":until", ":foo", ":cost", ":when"];

pub fn sym(r: &mut Rng) -> String {
    let k = r.below(100);
    if k < 4 {
        (*r.pick(RESERVED)).to_string()
    } else if k < 6 {
        (*r.pick(COLON)).to_string()
    } else if k < 12 {
        // random printable + a few unicode
        let n = r.range(1, 6);
        let alphabet: Vec<char> = "abcXYZ019-+*/<>=!?_.$'\"\\#&|^~%éλ→漢🙂".chars().collect();
        let mut s = String::new();
        for i in 0..n {
            let c = *r.pick(&alphabet);
            if i == 0 && c == '"' {
                s.push('q');
            } else {
                s.push(c);
            }
        }
        s
    } else {
        (*r.pick(SYMS)).to_string()
    }
}

pub const STRS: &[&str] = &[
    "", "hello", "a b", "quo\"te", "back\\slash", "new\nline", "tab\there", "\\\"", "\"", "\\", "\\n", "uni→🙂é", "; not a comment",
    "(paren)", "end\\", "\"\"\"", "a\\\\b", "cr\rlf", "nul\0", "bell\u{7}", "\u{a0}nbsp", "file.csv", "out/x.txt", "'single'", "\u{301}comb",
    "del\u{7f}", "x\u{200b}y",
];
pub fn string(r: &mut Rng) -> String {
    if r.chance(1, 4) {
        let n = r.below(8);
        let alphabet: Vec<char> = "ab \"\\\n\t;()nt0é🙂".chars().collect();
        (0..n).map(|_| *r.pick(&alphabet)).collect()
    } else {
        (*r.pick(STRS)).to_string()
    }
}

pub const FILES: &[&str] = &["", "out.csv", "dir/file.txt", "a b", "quo\"te", "back\\slash", "new\nline", "tab\there", "é→漢🙂.txt", "cr\rlf", "'x'"];
/// file names
pub fn file_string(r: &mut Rng) -> String {
    if r.chance(1, 2) {
        (*r.pick(FILES)).to_string()
    } else {
        string(r)
    }
}

pub const I64S: &[i64] = &[0, 1, -1, 42, i64::MAX, i64::MIN, i64::MAX - 1, i64::MIN + 1, 1 << 53, -(1 << 31), 1 << 32, 1_000_000_000_000_000_000];
pub fn f64_stress() -> Vec<f64> {
    vec![
        0.0,
        -0.0,
        1.0,
        -1.0,
        1.5,
        0.1,
        1e18,
        1e19,
        -1e18,
        9223372036854775807.0,
        9.007199254740993e15,
        f64::MAX,
        f64::MIN,
        f64::MIN_POSITIVE,
        5e-324,
        -5e-324,
        1e-320,
        2.2250738585072009e-308,
        1e300,
        1e-300,
        1.7976931348623157e308,
        f64::EPSILON,
        f64::NAN,
        f64::INFINITY,
        f64::NEG_INFINITY,
        123456789.125,
        3.0e-5,
        f64::from_bits(0x7ff8_0000_0000_0001),
        f64::from_bits(0xfff8_0000_0000_0000),
    ]
}
pub fn float(r: &mut Rng) -> f64 {
    if r.chance(1, 2) {
        let v = f64_stress();
        v[r.below(v.len())]
    } else {
        f64::from_bits(r.next())
    }
}
pub fn lit(r: &mut Rng) -> MLit {
    match r.below(10) {
        0..=3 => MLit::Int(if r.chance(1, 2) { *r.pick(I64S) } else { r.next() as i64 >> r.below(64) }),
        4..=5 => MLit::Float(MFl::of(float(r))),
        6..=7 => MLit::Str(string(r)),
        8 => MLit::Bool(r.chance(1, 2)),
        _ => MLit::Unit,
    }
}
pub fn expr(r: &mut Rng, depth: usize) -> MExpr {
    let k = r.below(10);
    if depth == 0 || k < 3 {
        if r.chance(1, 2) {
            MExpr::Lit(lit(r))
        } else if r.chance(1, 12) {
            MExpr::Var("_".into())
        } else {
            MExpr::Var(sym(r))
        }
    } else {
        let n = r.below(4);
        MExpr::Call(sym(r), (0..n).map(|_| expr(r, depth - 1)).collect())
    }
}
pub fn call(r: &mut Rng, depth: usize) -> MExpr {
    let n = r.below(4);
    MExpr::Call(sym(r), (0..n).map(|_| expr(r, depth)).collect())
}
pub fn exprs(r: &mut Rng, max: usize, depth: usize) -> Vec<MExpr> {
    let n = r.below(max + 1);
    (0..n).map(|_| expr(r, depth)).collect()
}
pub fn fact(r: &mut Rng) -> MFact {
    if r.chance(1, 3) {
        MFact::Eq(expr(r, 2), expr(r, 2))
    } else if r.chance(1, 15) {
        MFact::Fact(expr(r, 0)) // not a call: the parser rejects it
    } else {
        MFact::Fact(call(r, 2))
    }
}
pub fn facts(r: &mut Rng, max: usize) -> Vec<MFact> {
    let n = r.below(max + 1);
    (0..n).map(|_| fact(r)).collect()
}
pub fn action(r: &mut Rng) -> MAction {
    match r.below(8) {
        0 => MAction::Let(sym(r), expr(r, 2)),
        1 => MAction::Set(sym(r), exprs(r, 3, 1), expr(r, 2)),
        2 => MAction::Change(r.chance(1, 2), sym(r), exprs(r, 3, 1)),
        3 => MAction::Union(expr(r, 2), expr(r, 2)),
        4 | 5 => MAction::Panic(string(r)),
        _ => MAction::Expr(call(r, 2)),
    }
}
pub fn actions(r: &mut Rng, max: usize) -> Vec<MAction> {
    let n = r.below(max + 1);
    (0..n).map(|_| action(r)).collect()
}
pub fn sched(r: &mut Rng, depth: usize) -> MSched {
    let k = r.below(10);
    if depth == 0 || k < 4 {
        let rs = if r.chance(1, 3) { String::new() } else { sym(r) };
        let until = if r.chance(1, 3) { Some(facts(r, 2)) } else { None };
        MSched::Run(rs, until)
    } else if k < 6 {
        MSched::Saturate(Box::new(sched(r, depth - 1)))
    } else if k < 8 {
        let n = if r.chance(1, 8) { r.next() >> 1 } else { r.below(20) as u64 };
        MSched::Repeat(n, Box::new(sched(r, depth - 1)))
    } else {
        let n = r.below(4);
        MSched::Seq((0..n).map(|_| sched(r, depth - 1)).collect())
    }
}
fn ostr(r: &mut Rng, num: usize, den: usize) -> Option<String> {
    if r.chance(num, den) {
        Some(sym(r))
    } else {
        None
    }
}
fn cost(r: &mut Rng) -> Option<u64> {
    if r.chance(1, 3) {
        Some(if r.chance(1, 5) { i64::MAX as u64 } else { r.below(1000) as u64 })
    } else {
        None
    }
}
fn syms(r: &mut Rng, max: usize) -> Vec<String> {
    let n = r.below(max + 1);
    (0..n).map(|_| sym(r)).collect()
}
pub fn variant(r: &mut Rng) -> MVariant {
    let unext = r.chance(1, 6);
    MVariant { name: sym(r), types: syms(r, 3), cost: if unext { None } else { cost(r) }, unextractable: unext }
}
fn variants(r: &mut Rng) -> Vec<MVariant> {
    let n = r.below(4);
    (0..n).map(|_| variant(r)).collect()
}
pub fn rule(r: &mut Rng) -> MRule {
    MRule {
        head: actions(r, 3),
        body: facts(r, 3),
        name: if r.chance(1, 3) { string(r) } else { String::new() },
        ruleset: if r.chance(1, 3) { sym(r) } else { String::new() },
        mode: if r.chance(1, 3) { r.range(1, 2) as u8 } else { 0 },
        no_decomp: r.chance(1, 4),
        include_subsumed: r.chance(1, 5),
    }
}
pub fn rewrite(r: &mut Rng) -> MRewrite {
    MRewrite { lhs: expr(r, 2), rhs: expr(r, 2), conds: if r.chance(1, 3) { facts(r, 2) } else { vec![] }, name: if r.chance(1, 5) { string(r) } else { String::new() } }
}
pub fn command(r: &mut Rng, depth: usize) -> MCmd {
    match r.below(if depth == 0 { 27 } else { 28 }) {
        0 => {
            if r.chance(1, 2) {
                MCmd::Sort {
                    name: sym(r),
                    presort: None,
                    uf: if r.chance(1, 3) { Some((sym(r), ostr(r, 1, 2))) } else { None },
                    proof_func: ostr(r, 1, 3),
                    container_rebuild: None,
                    proof_constructors: if r.chance(1, 4) { Some((sym(r), sym(r), sym(r), sym(r))) } else { None },
                    unionable: true,
                }
            } else {
                MCmd::Sort {
                    name: sym(r),
                    presort: Some((sym(r), exprs(r, 2, 1))),
                    uf: None,
                    proof_func: ostr(r, 1, 3),
                    container_rebuild: if r.chance(1, 3) { Some((sym(r), ostr(r, 1, 2))) } else { None },
                    proof_constructors: None,
                    unionable: true,
                }
            }
        }
        1 => MCmd::Datatype(sym(r), variants(r)),
        2 => {
            let n = r.below(3);
            MCmd::Datatypes(
                (0..n)
                    .map(|_| (sym(r), if r.chance(1, 3) { MSubdt::NewSort(sym(r), exprs(r, 2, 1)) } else { MSubdt::Variants(variants(r)) }))
                    .collect(),
            )
        }
        3 => MCmd::Function {
            name: sym(r),
            inputs: syms(r, 3),
            output: sym(r),
            merge: if r.chance(1, 2) { Some(expr(r, 2)) } else { None },
            hidden: r.chance(1, 5),
            let_binding: r.chance(1, 5),
            term_constructor: ostr(r, 1, 5),
            unextractable: r.chance(1, 4),
        },
        4 => MCmd::Constructor {
            name: sym(r),
            inputs: syms(r, 3),
            output: sym(r),
            cost: cost(r),
            unextractable: r.chance(1, 4),
            hidden: r.chance(1, 5),
            let_binding: r.chance(1, 5),
            term_constructor: None,
        },
        5 => MCmd::Relation(sym(r), syms(r, 3)),
        6 => MCmd::AddRuleset(sym(r)),
        7 => MCmd::CombinedRuleset(sym(r), syms(r, 3)),
        8 | 9 => MCmd::Rule(rule(r)),
        10 => MCmd::Rewrite(if r.chance(1, 3) { sym(r) } else { String::new() }, rewrite(r), r.chance(1, 3)),
        11 => MCmd::BiRewrite(if r.chance(1, 3) { sym(r) } else { String::new() }, rewrite(r)),
        12 | 13 => MCmd::Action(action(r)),
        14 => MCmd::Extract(expr(r, 2), if r.chance(1, 2) { MExpr::Lit(MLit::Int(r.below(5) as i64)) } else { expr(r, 1) }),
        15 | 16 => MCmd::RunSchedule(sched(r, 3)),
        17 => MCmd::PrintStats(if r.chance(1, 3) { Some(string(r)) } else { None }),
        18 => MCmd::Check(facts(r, 3)),
        19 => MCmd::Prove(facts(r, 3)),
        20 => MCmd::ProveExists(sym(r)),
        21 => MCmd::Push(r.below(4) as u64),
        22 => MCmd::Pop(r.below(4) as u64),
        23 => MCmd::PrintFunction(sym(r), if r.chance(1, 2) { Some(r.below(100) as u64) } else { None }, if r.chance(1, 3) { Some(file_string(r)) } else { None }, r.chance(1, 3)),
        24 => MCmd::PrintSize(ostr(r, 1, 2)),
        25 => MCmd::Input(sym(r), file_string(r)),
        26 => {
            if r.chance(1, 2) {
                MCmd::Output(file_string(r), exprs(r, 3, 1))
            } else {
                MCmd::Include(file_string(r))
            }
        }
        _ => MCmd::Fail(Box::new(command(r, depth - 1))),
    }
}

// ---------------------------------------------------------------- source text
pub struct Src<'a> {
    pub r: &'a mut Rng,
    /// 0 = canonical single spaces; otherwise random layout, comments, sugar
    pub fancy: bool,
}
pub fn src_string(r: &mut Rng, fancy: bool, s: &str) -> String {
    let mut o = String::from("\"");
    for c in s.chars() {
        match c {
            '\\' => o.push_str("\\\\"),
            '"' => o.push_str("\\\""),
            '\n' if fancy && r.chance(1, 2) => o.push_str("\\n"),
            '\t' if fancy && r.chance(1, 2) => o.push_str("\\t"),
            c => o.push(c),
        }
    }
    o.push('"');
    o
}
impl<'a> Src<'a> {
    fn ws(&mut self) -> String {
        if !self.fancy {
            return " ".into();
        }
        match self.r.below(12) {
            0 => "\n".into(),
            1 => "  ".into(),
            2 => "\t".into(),
            3 => " ; comment ) ( \" \\ \n".into(),
            4 => "\u{a0}".into(),
            5 => "\r\n".into(),
            6 => "\u{2003} ".into(),
            _ => " ".into(),
        }
    }
    fn list(&mut self, items: Vec<String>) -> String {
        let mut o = String::from("(");
        if self.fancy && self.r.chance(1, 8) {
            o.push(' ');
        }
        for (i, it) in items.iter().enumerate() {
            if i > 0 {
                o.push_str(&self.ws());
            }
            o.push_str(it);
        }
        if self.fancy && self.r.chance(1, 8) {
            o.push_str(&self.ws());
        }
        o.push(')');
        o
    }
    fn str(&mut self, s: &str) -> String {
        src_string(self.r, self.fancy, s)
    }
    pub fn lit(&mut self, l: &MLit) -> String {
        match l {
            MLit::Int(i) => {
                if self.fancy && *i >= 0 && self.r.chance(1, 6) {
                    format!("+{}", i)
                } else if self.fancy && self.r.chance(1, 8) {
                    if *i < 0 {
                        format!("-00{}", (*i as i128).abs())
                    } else {
                        format!("00{}", i)
                    }
                } else {
                    i.to_string()
                }
            }
            MLit::Float(f) => {
                let x = f.to_f64();
                match f {
                    MFl::NaN => "NaN".into(),
                    MFl::Inf => "inf".into(),
                    MFl::NInf => "-inf".into(),
                    MFl::Fin(_) => {
                        if self.fancy && self.r.chance(1, 3) {
                            format!("{:e}", x)
                        } else {
                            format!("{:?}", x)
                        }
                    }
                }
            }
            MLit::Str(s) => self.str(s),
            MLit::Bool(b) => b.to_string(),
            MLit::Unit => "()".into(),
        }
    }
    pub fn expr(&mut self, e: &MExpr) -> String {
        match e {
            MExpr::Var(v) => v.clone(),
            MExpr::Lit(l) => self.lit(l),
            MExpr::Call(f, a) => {
                let mut items = vec![f.clone()];
                for x in a {
                    items.push(self.expr(x));
                }
                self.list(items)
            }
        }
    }
    fn exprs(&mut self, a: &[MExpr]) -> Vec<String> {
        a.iter().map(|e| self.expr(e)).collect()
    }
    pub fn fact(&mut self, f: &MFact) -> String {
        match f {
            MFact::Eq(a, b) => {
                let items = vec!["=".to_string(), self.expr(a), self.expr(b)];
                self.list(items)
            }
            MFact::Fact(e) => self.expr(e),
        }
    }
    fn facts(&mut self, f: &[MFact]) -> Vec<String> {
        f.iter().map(|x| self.fact(x)).collect()
    }
    fn lookup(&mut self, f: &str, a: &[MExpr]) -> String {
        let mut items = vec![f.to_string()];
        items.extend(self.exprs(a));
        self.list(items)
    }
    pub fn action(&mut self, a: &MAction) -> String {
        let items = match a {
            MAction::Let(v, e) => vec!["let".into(), v.clone(), self.expr(e)],
            MAction::Set(f, a, v) => vec!["set".into(), self.lookup(f, a), self.expr(v)],
            MAction::Change(s, f, a) => vec![if *s { "subsume" } else { "delete" }.into(), self.lookup(f, a)],
            MAction::Union(a, b) => vec!["union".into(), self.expr(a), self.expr(b)],
            MAction::Panic(m) => vec!["panic".into(), self.str(m)],
            MAction::Expr(e) => return self.expr(e),
        };
        self.list(items)
    }
    pub fn sched(&mut self, s: &MSched) -> String {
        match s {
            MSched::Saturate(x) => {
                let items = vec!["saturate".into(), self.sched(x)];
                self.list(items)
            }
            MSched::Repeat(n, x) => {
                let items = vec!["repeat".into(), n.to_string(), self.sched(x)];
                self.list(items)
            }
            MSched::Run(rs, until) => {
                if until.is_none() && !rs.is_empty() && self.fancy && self.r.chance(1, 2) {
                    return rs.clone();
                }
                let mut items = vec!["run".to_string()];
                if !rs.is_empty() {
                    items.push(rs.clone());
                }
                if let Some(f) = until {
                    items.push(":until".into());
                    items.extend(self.facts(f));
                }
                self.list(items)
            }
            MSched::Seq(l) => {
                let mut items = vec!["seq".to_string()];
                for x in l {
                    items.push(self.sched(x));
                }
                self.list(items)
            }
        }
    }
    fn variant(&mut self, v: &MVariant) -> String {
        let mut items = vec![v.name.clone()];
        items.extend(v.types.iter().cloned());
        if v.unextractable {
            items.push(":unextractable".into());
        } else if let Some(c) = v.cost {
            items.push(":cost".into());
            items.push(c.to_string());
        }
        self.list(items)
    }
    /// options as groups; shuffled when fancy
    fn opts(&mut self, mut groups: Vec<Vec<String>>) -> Vec<String> {
        if self.fancy {
            for i in (1..groups.len()).rev() {
                let j = self.r.below(i + 1);
                groups.swap(i, j);
            }
        }
        groups.into_iter().flatten().collect()
    }
    pub fn command(&mut self, c: &MCmd) -> String {
        let items: Vec<String> = match c {
            MCmd::Sort { name, presort, uf, proof_func, container_rebuild, proof_constructors, .. } => {
                let mut items = vec!["sort".to_string(), name.clone()];
                if let Some((h, a)) = presort {
                    items.push(self.lookup(h, a));
                }
                let mut g = vec![];
                if let Some((c, i)) = uf {
                    let mut v = vec![":internal-uf".to_string(), c.clone()];
                    if let Some(i) = i {
                        v.push(i.clone());
                    }
                    g.push(v);
                }
                if let Some(p) = proof_func {
                    g.push(vec![":internal-proof-func".into(), p.clone()]);
                }
                if let Some((a, b, c, d)) = proof_constructors {
                    g.push(vec![":internal-proof-names".into(), a.clone(), b.clone(), c.clone(), d.clone()]);
                }
                if let Some((p, q)) = container_rebuild {
                    let mut v = vec!["container-rebuild-spec".to_string(), p.clone()];
                    if let Some(q) = q {
                        v.push(q.clone());
                    }
                    g.push(vec![":internal-container-rebuild".into(), self.list(v)]);
                }
                items.extend(self.opts(g));
                items
            }
            MCmd::Datatype(n, vs) => {
                let mut items = vec!["datatype".to_string(), n.clone()];
                for v in vs {
                    items.push(self.variant(v));
                }
                items
            }
            MCmd::Datatypes(ds) => {
                let mut items = vec!["datatype*".to_string()];
                for (n, d) in ds {
                    let it = match d {
                        MSubdt::Variants(vs) => {
                            let mut v = vec![n.clone()];
                            for x in vs {
                                v.push(self.variant(x));
                            }
                            self.list(v)
                        }
                        MSubdt::NewSort(h, a) => {
                            let v = vec!["sort".to_string(), n.clone(), self.lookup(h, a)];
                            self.list(v)
                        }
                    };
                    items.push(it);
                }
                items
            }
            MCmd::Function { name, inputs, output, merge, hidden, let_binding, term_constructor, unextractable } => {
                let mut items = vec!["function".to_string(), name.clone(), self.list(inputs.clone()), output.clone()];
                let mut g = vec![match merge {
                    Some(e) => vec![":merge".to_string(), self.expr(e)],
                    None => vec![":no-merge".to_string()],
                }];
                if *unextractable {
                    g.push(vec![":unextractable".into()]);
                }
                if *hidden {
                    g.push(vec![":internal-hidden".into()]);
                }
                if *let_binding {
                    g.push(vec![":internal-let".into()]);
                }
                if let Some(t) = term_constructor {
                    g.push(vec![":internal-term-constructor".into(), t.clone()]);
                }
                items.extend(self.opts(g));
                items
            }
            MCmd::Constructor { name, inputs, output, cost, unextractable, hidden, let_binding, term_constructor } => {
                let mut items = vec!["constructor".to_string(), name.clone(), self.list(inputs.clone()), output.clone()];
                let mut g = vec![];
                if let Some(c) = cost {
                    g.push(vec![":cost".to_string(), c.to_string()]);
                }
                if *unextractable {
                    g.push(vec![":unextractable".into()]);
                }
                if *hidden {
                    g.push(vec![":internal-hidden".into()]);
                }
                if *let_binding {
                    g.push(vec![":internal-let".into()]);
                }
                if let Some(t) = term_constructor {
                    g.push(vec![":internal-term-constructor".into(), t.clone()]);
                }
                items.extend(self.opts(g));
                items
            }
            MCmd::Relation(n, i) => vec!["relation".into(), n.clone(), self.list(i.clone())],
            MCmd::AddRuleset(n) => vec!["ruleset".into(), n.clone()],
            MCmd::CombinedRuleset(n, s) => {
                let mut items = vec!["unstable-combined-ruleset".to_string(), n.clone()];
                items.extend(s.iter().cloned());
                items
            }
            MCmd::Rule(rl) => {
                let b = self.facts(&rl.body);
                let h: Vec<String> = rl.head.iter().map(|a| self.action(a)).collect();
                let mut items = vec!["rule".to_string(), self.list(b), self.list(h)];
                let mut g = vec![];
                if !rl.ruleset.is_empty() {
                    g.push(vec![":ruleset".to_string(), rl.ruleset.clone()]);
                }
                if !rl.name.is_empty() {
                    g.push(vec![":name".to_string(), self.str(&rl.name)]);
                }
                match rl.mode {
                    1 => g.push(vec![":naive".into()]),
                    2 => g.push(vec![":unsafe-seminaive".into()]),
                    _ => {}
                }
                if rl.no_decomp {
                    g.push(vec![":no-decomp".into()]);
                }
                if rl.include_subsumed {
                    g.push(vec![":internal-include-subsumed".into()]);
                }
                items.extend(self.opts(g));
                items
            }
            MCmd::Rewrite(rs, w, _) | MCmd::BiRewrite(rs, w) => {
                let bi = matches!(c, MCmd::BiRewrite(..));
                let mut items = vec![if bi { "birewrite" } else { "rewrite" }.to_string(), self.expr(&w.lhs), self.expr(&w.rhs)];
                let mut g = vec![];
                if let MCmd::Rewrite(_, _, true) = c {
                    g.push(vec![":subsume".to_string()]);
                }
                if !w.conds.is_empty() || (self.fancy && self.r.chance(1, 6)) {
                    let f = self.facts(&w.conds);
                    g.push(vec![":when".to_string(), self.list(f)]);
                }
                if !rs.is_empty() {
                    g.push(vec![":ruleset".to_string(), rs.clone()]);
                }
                if !w.name.is_empty() {
                    g.push(vec![":name".to_string(), self.str(&w.name)]);
                }
                items.extend(self.opts(g));
                items
            }
            MCmd::Action(a) => return self.action(a),
            MCmd::Extract(e, v) => {
                if self.fancy && *v == MExpr::Lit(MLit::Int(0)) && self.r.chance(1, 2) {
                    vec!["extract".into(), self.expr(e)]
                } else {
                    vec!["extract".into(), self.expr(e), self.expr(v)]
                }
            }
            MCmd::RunSchedule(s) => {
                // sugar: (run [ruleset] n [:until ..])
                if self.fancy {
                    if let MSched::Repeat(n, inner) = s {
                        if let MSched::Run(rs, until) = &**inner {
                            if self.r.chance(1, 2) {
                                let mut items = vec!["run".to_string()];
                                if !rs.is_empty() {
                                    items.push(rs.clone());
                                }
                                items.push(n.to_string());
                                if let Some(f) = until {
                                    items.push(":until".into());
                                    items.extend(self.facts(f));
                                }
                                return self.list(items);
                            }
                        }
                    }
                }
                match s {
                    MSched::Seq(l) if self.fancy || self.r.chance(1, 2) => {
                        let mut items = vec!["run-schedule".to_string()];
                        for x in l {
                            items.push(self.sched(x));
                        }
                        items
                    }
                    _ => vec!["run-schedule".into(), self.sched(s)],
                }
            }
            MCmd::PrintStats(f) => {
                let mut items = vec!["print-stats".to_string()];
                if let Some(f) = f {
                    items.push(":file".into());
                    items.push(self.str(f));
                }
                items
            }
            MCmd::Check(f) => {
                let mut items = vec!["check".to_string()];
                items.extend(self.facts(f));
                items
            }
            MCmd::Prove(f) => {
                let mut items = vec!["prove".to_string()];
                items.extend(self.facts(f));
                items
            }
            MCmd::ProveExists(c) => vec!["prove-exists".into(), c.clone()],
            MCmd::Push(n) | MCmd::Pop(n) => {
                let k = if matches!(c, MCmd::Push(_)) { "push" } else { "pop" };
                if self.fancy && *n == 1 && self.r.chance(1, 2) {
                    vec![k.to_string()]
                } else {
                    vec![k.to_string(), n.to_string()]
                }
            }
            MCmd::PrintFunction(n, rows, file, csv) => {
                let mut items = vec!["print-function".to_string(), n.clone()];
                if let Some(x) = rows {
                    items.push(x.to_string());
                }
                let mut g = vec![];
                if let Some(f) = file {
                    g.push(vec![":file".to_string(), self.str(f)]);
                }
                if *csv {
                    g.push(vec![":mode".to_string(), "csv".to_string()]);
                } else if self.fancy && self.r.chance(1, 4) {
                    g.push(vec![":mode".to_string(), "default".to_string()]);
                }
                items.extend(self.opts(g));
                items
            }
            MCmd::PrintSize(n) => {
                let mut items = vec!["print-size".to_string()];
                if let Some(n) = n {
                    items.push(n.clone());
                }
                items
            }
            MCmd::Input(n, f) => vec!["input".into(), n.clone(), self.str(f)],
            MCmd::Output(f, e) => {
                let mut items = vec!["output".to_string(), self.str(f)];
                items.extend(self.exprs(e));
                items
            }
            MCmd::Fail(c) => vec!["fail".into(), self.command(c)],
            MCmd::Include(f) => vec!["include".into(), self.str(f)],
            MCmd::UserDefined(n, e) => {
                let mut items = vec![n.clone()];
                items.extend(self.exprs(e));
                items
            }
        };
        self.list(items)
    }
}
