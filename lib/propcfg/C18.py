"""C18 configuration for bin/check."""

CFG = {
    "tier_a": ["UFSeq", "MergeArms", "BridgeFns"],
    "model_targets": ["Sched/Scheduler.vo"],
    "proof_targets": ["Props/C18.vo"],
    "harness": [{"bin": "h_sched2", "prefix": "cases_sched2"}],
    "trusted": [
        "hand-written model coq/Sched/Scheduler.v: Matches::instantiate (swap-remove bookkeeping) tied to src/scheduler.rs by h_sched2 "
        "(exact residual order at the rule's next filter_matches call, every recorded call); step_rules_with_scheduler over the shared "
        "Egg model (coq/Egg/Model.v, Egg/Rules.v; tied to the engine by h_egg) with the offered sets tied by h_sched2 "
        "(Rules.match_body on the dumped tables vs the tuples the engine offered)",
        "translator /verif/translator: gen/UFSeq.v, gen/MergeArms.v, gen/BridgeFns.v are used by Egg/Model.v",
        "hook H0 (cfg egglog_verif): EGraph::verif_canon_id, read-only canonical id accessor used by the invariant twin",
    ],
    "theorem_backed": "",
    "link_only": "",
    "assumptions": [],
}
