"""C05 configuration for bin/check."""

CFG = {'assumptions': ['min/max on i64 are the modelled lattices'],
 'corr_is_violation': True,
 'harness': [{'bin': 'h_egg', 'extra': ['--prop', 'C05'], 'name': 'h_egg', 'prefix': 'cases_egg'},
             {'bin': 'h_egg',
              'env': {'EGGLOG_PARALLEL_DB_LEVEL_OP_CUTOFF': '0',
                      'EGGLOG_PARALLEL_REBUILD_CUTOFF': '0',
                      'EGGLOG_PARALLEL_TABLE_OP_CUTOFF': '0'},
              'extra': ['--prop', 'C05', '--threads', '4', '--cases', '60'],
              'name': 'h_egg_par',
              'prefix': 'cases_egg'}],
 'link_only': 'set-union / set-intersect / nested function merges (containers) are exercised by the '
              'engine-side predicate only; the parallel insertion path is covered by running the same '
              'sessions with 4 threads and cut-offs 0',
 'model_targets': ['Egg/Rules.vo'],
 'proof_targets': ['Props/C05.vo'],
 'theorem_backed': 'every collision path of core-relations/src/table/mod.rs as written now (regenerated inventory: serial x2, parallel flush, in-batch staging) stores the MERGED row, hence keeps the fold; staging + flush = fold over the stored value; fold algebra (permutation, batching, idempotence), table-level: value after any write '
                   'sequence = fold of the lattice merge, order-irrelevance, batching, collisions created by '
                   'rebuild go through the merge, :no-merge conflict flag',
 'tier_a': ['UFSeq', 'MergeArms', 'BridgeFns', 'Facts.collision_sites'],
 'trusted': ['translator /verif/translator: gen/UFSeq.v (union-find), gen/MergeArms.v (UnionId=min, Old, '
             'New), gen/BridgeFns.v (combine_subsumed) are regenerated from the source on every run and used '
             'by Egg/Model.v',
             'hand-written model coq/Egg/Model.v + Egg/Rules.v (naive matching, term-level commands) tied to '
             'the engine by the correspondence check h_egg (observations after every command: class vector '
             'of probe terms up to depth 3, table sizes, subsumed counts, int-valued probes)']}
