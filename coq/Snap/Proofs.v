(** C08 — proofs about the session model of Snap/PushPop.v (push/pop half). *)
From Coq Require Import List Arith Bool PeanoNat Lia.
Import ListNotations.
Require Import Verif.Snap.PushPop.

Section Proofs.

Variables (db dcmd dout aop aout : Type).
Variable db_step : decls -> db -> dcmd -> db * dout * nat * nat.
Variable db_decl : db -> ns -> name -> list nat -> db.
Variable db_api : db -> nat -> aop -> db * aout.
Variable decl_extra : decls -> ns -> name -> list nat -> bool.
Variable reject_effect : decls -> ns -> name -> list nat -> decls.
Variable db0 : db.

(** a rejected declaration never REMOVES a function name (it may leave names behind: F2) *)
Hypothesis reject_mono : forall d k n a m, In m (fnames d) -> In m (fnames (reject_effect d k n a)).

Notation egraph := (egraph db).
Notation sess := (sess db).
Notation cmd := (cmd dcmd aop).
Notation out := (out dout aout).
Notation step := (step db dcmd dout aop aout db_step db_decl db_api decl_extra reject_effect).
Notation run := (run db dcmd dout aop aout db_step db_decl db_api decl_extra reject_effect).
Notation outputs := (outputs db dcmd dout aop aout db_step db_decl db_api decl_extra reject_effect).
Notation final := (final db dcmd dout aop aout db_step db_decl db_api decl_extra reject_effect).
Notation lookup_action := (lookup_action db).
Notation is_live := (is_live db).
Notation blur := (blur dout aout).
Notation depth := (depth dcmd aop).
Notation balanced := (balanced dcmd aop).
Notation sess0 := (sess0 db db0).

Definition frames (s : sess) : list egraph := s_cur s :: s_stack s.

(** two e-graphs agree on everything a snapshot is supposed to contain *)
Definition eg_eq (a b : egraph) : Prop :=
  e_decls a = e_decls b /\ e_db a = e_db b /\ map fst (e_tabs a) = map fst (e_tabs b).

(** ... and name-indexed access resolves identically *)
Definition live_agree (sh1 : shared) (a : egraph) (sh2 : shared) (b : egraph) : Prop :=
  forall n, lookup_action sh1 a n = lookup_action sh2 b n.

(** THE equivalence of the property: every frame (current e-graph and every pushed snapshot)
    has the same declarations, the same database, the same tables under the same names, and
    every name resolves to the same live table or to none.  What it does NOT constrain is exactly:
    the symbol generator, the run report (the two documented carve-outs), and the unobservable
    bookkeeping (identity numbers, dead registry entries). *)
Definition equiv (s1 : sess) (sh1 : shared) (s2 : sess) (sh2 : shared) : Prop :=
  Forall2 (fun a b => eg_eq a b /\ live_agree sh1 a sh2 b) (frames s1) (frames s2).

Definition same_counters (s1 s2 : sess) : Prop :=
  e_gensym (s_cur s1) = e_gensym (s_cur s2) /\ e_report (s_cur s1) = e_report (s_cur s2).

(** invariants of reachable states *)
Definition tabs_ok (sh : shared) (e : egraph) : Prop :=
  forall n i, In (n, i) (e_tabs e) -> i < r_next sh /\ In n (fnames (e_decls e)).

Fixpoint chain (l : list egraph) : Prop :=
  match l with
  | [] => True
  | e :: tl => (forall g, In g tl -> incl (fnames (e_decls g)) (fnames (e_decls e))) /\ chain tl
  end.

Definition Inv (s : sess) (sh : shared) : Prop :=
  Forall (tabs_ok sh) (frames s) /\ chain (frames s).

(* ---------------------------------------------------------------- small facts *)

Lemma mem_In n l : mem n l = true <-> In n l.
Proof.
  induction l as [|x tl IH]; simpl; [split; [discriminate|tauto]|].
  rewrite orb_true_iff, IH, Nat.eqb_eq. split; intros [H|H]; auto.
Qed.

Lemma mem_false n l : mem n l = false <-> ~ In n l.
Proof. rewrite <- mem_In. destruct (mem n l); split; congruence. Qed.

Lemma fnames_add_decl d k n aux t : incl (fnames d) (fnames (add_decl d k n aux t)).
Proof.
  destruct k; unfold fnames; simpl; try apply incl_refl.
  rewrite map_app. apply incl_appl, incl_refl.
Qed.

Lemma fnames_add_func d n aux t : fnames (add_decl d NFunc n aux t) = fnames d ++ [n].
Proof. unfold fnames; simpl. rewrite map_app. reflexivity. Qed.

Lemma fnames_add_other d k n aux t : k <> NFunc -> fnames (add_decl d k n aux t) = fnames d.
Proof. destruct k; try congruence; reflexivity. Qed.

Lemma lookup_tabs sh (a b : egraph) n : e_tabs a = e_tabs b -> lookup_action sh a n = lookup_action sh b n.
Proof. intros H. unfold PushPop.lookup_action, PushPop.is_live. rewrite H. reflexivity. Qed.

Lemma lookup_register_other sh (e : egraph) n h k m : m <> n ->
  lookup_action (mkSh ((n, h) :: r_reg sh) k) e m = lookup_action sh e m.
Proof.
  intros Hm. unfold PushPop.lookup_action. simpl.
  destruct (Nat.eqb m n) eqn:E; [apply Nat.eqb_eq in E; congruence|reflexivity].
Qed.

Lemma lookup_register_fresh reg (e : egraph) n t i k :
  (forall m j, In (m, j) (e_tabs e) -> j < i) ->
  lookup_action (mkSh ((n, (t, i)) :: reg) k) e n = None.
Proof.
  intros H. unfold PushPop.lookup_action. simpl. rewrite Nat.eqb_refl.
  unfold PushPop.is_live. simpl. destruct (nth_error (e_tabs e) t) as [[m j]|] eqn:E; auto.
  apply nth_error_In in E. apply H in E.
  destruct (Nat.eqb i j) eqn:E2; [apply Nat.eqb_eq in E2; lia|]. rewrite andb_false_r. reflexivity.
Qed.

Lemma lookup_unnamed sh (e : egraph) n : (forall i, ~ In (n, i) (e_tabs e)) -> lookup_action sh e n = None.
Proof.
  intros H. unfold PushPop.lookup_action. destruct (reg_find n (r_reg sh)) as [h|]; auto.
  unfold PushPop.is_live. destruct (nth_error (e_tabs e) (fst h)) as [[m j]|] eqn:E; auto.
  destruct (Nat.eqb n m) eqn:E2; simpl; auto.
  apply Nat.eqb_eq in E2. subst m. apply nth_error_In in E. exfalso. eapply H; eauto.
Qed.

Lemma lookup_append_self reg d b tabs g r n i k :
  lookup_action (mkSh ((n, (length tabs, i)) :: reg) k) (mkEg d b (tabs ++ [(n, i)]) g r) n = Some (length tabs).
Proof.
  unfold PushPop.lookup_action. simpl. rewrite Nat.eqb_refl. unfold PushPop.is_live. simpl.
  rewrite nth_error_app2 by lia. rewrite Nat.sub_diag. simpl. rewrite !Nat.eqb_refl. reflexivity.
Qed.

Lemma lookup_append_other sh d b tabs g r d' b' g' r' n i m : m <> n ->
  lookup_action sh (mkEg d' b' (tabs ++ [(n, i)]) g' r') m = lookup_action sh (mkEg d b tabs g r) m.
Proof.
  intros Hm. unfold PushPop.lookup_action. destruct (reg_find m (r_reg sh)) as [[t j]|]; auto.
  unfold PushPop.is_live. simpl.
  destruct (lt_eq_lt_dec t (length tabs)) as [[Hlt|Heq]|Hgt].
  - rewrite nth_error_app1 by lia. reflexivity.
  - subst t. rewrite nth_error_app2 by lia. rewrite Nat.sub_diag. simpl.
    destruct (Nat.eqb m n) eqn:E; [apply Nat.eqb_eq in E; congruence|]. simpl.
    replace (nth_error tabs (length tabs)) with (@None (name * nat)); auto.
    symmetry. apply nth_error_None. lia.
  - replace (nth_error (tabs ++ [(n, i)]) t) with (@None (name * nat)).
    + replace (nth_error tabs t) with (@None (name * nat)); auto. symmetry. apply nth_error_None. lia.
    + symmetry. apply nth_error_None. rewrite app_length. simpl. lia.
Qed.

Lemma Forall2_impl_Forall {A B} (P : A -> Prop) (Q : B -> Prop) (R R' : A -> B -> Prop) l1 l2 :
  Forall P l1 -> Forall Q l2 -> Forall2 R l1 l2 ->
  (forall a b, P a -> Q b -> R a b -> R' a b) -> Forall2 R' l1 l2.
Proof.
  intros HP HQ HR Himp. induction HR; constructor.
  - inversion HP; inversion HQ; subst. auto.
  - inversion HP; inversion HQ; subst. auto.
Qed.

Lemma Forall2_same {A} (R : A -> A -> Prop) l : (forall x, In x l -> R x x) -> Forall2 R l l.
Proof. induction l; intros H; constructor; [apply H; left; auto|apply IHl; intros; apply H; right; auto]. Qed.

Lemma tabs_ok_mono sh sh' (e : egraph) : r_next sh <= r_next sh' -> tabs_ok sh e -> tabs_ok sh' e.
Proof. intros Hle H n i Hin. destruct (H n i Hin). split; [lia|auto]. Qed.

(* ---------------------------------------------------------------- the shared part only grows *)

Definition register (sh : shared) (n : name) (t : nat) : shared :=
  mkSh ((n, (t, r_next sh)) :: r_reg sh) (S (r_next sh)).

(** the only command that touches the shared registry is an accepted function declaration *)
Lemma step_shared c s sh s' sh' o : step c s sh = (s', sh', o) ->
  sh' = sh \/ exists n aux, c = CDecl NFunc n aux /\ o = OOk
                /\ bound (e_decls (s_cur s)) NFunc n aux = false
                /\ sh' = register sh n (length (e_tabs (s_cur s))).
Proof.
  destruct s as [e st]. destruct c; simpl; intros H.
  - inversion H; auto.
  - destruct st; inversion H; auto.
  - destruct (bound (e_decls e) k n aux || negb (decl_extra (e_decls e) k n aux)) eqn:E.
    + inversion H; auto.
    + apply orb_false_iff in E. destruct E as [E _].
      destruct k; inversion H; auto. right. exists n, aux. auto.
  - destruct (db_step (e_decls e) (e_db e) c) as [[[b o'] dr] dg]. inversion H; auto.
  - destruct (PushPop.lookup_action db sh e n); [destruct (db_api (e_db e) n0 op)|]; inversion H; auto.
  - inversion H; auto.
  - inversion H; auto.
  - inversion H; auto.
Qed.

Lemma step_next_mono c s sh s' sh' o : step c s sh = (s', sh', o) -> r_next sh <= r_next sh'.
Proof.
  intros H. apply step_shared in H. destruct H as [->|(n & aux & _ & _ & _ & ->)]; simpl; lia.
Qed.

(* ---------------------------------------------------------------- invariant preservation *)

Lemma inv_set_cur c st sh c' sh' :
  Inv (mkSess c st) sh -> r_next sh <= r_next sh' -> tabs_ok sh' c' ->
  incl (fnames (e_decls c)) (fnames (e_decls c')) -> Inv (mkSess c' st) sh'.
Proof.
  intros [HF HC] Hle Hok Hincl. unfold Inv, frames in *. simpl in *. split.
  - inversion HF; subst. constructor; auto.
    eapply Forall_impl; [|eassumption]. intros a. apply tabs_ok_mono; auto.
  - destruct HC as [H1 H2]. split; auto. intros g Hg. eapply incl_tran; [apply H1; auto|auto].
Qed.

Lemma inv_step c s sh s' sh' o : Inv s sh -> step c s sh = (s', sh', o) -> Inv s' sh'.
Proof.
  intros HI H. destruct s as [e st].
  assert (Hcur : tabs_ok sh e) by (destruct HI as [HF _]; inversion HF; auto).
  destruct c; simpl in H.
  - (* push *) inversion H; subst. destruct HI as [HF HC]. unfold Inv, frames in *; simpl in *. split.
    + constructor; auto.
    + split; auto. intros g [<-|Hg]; [apply incl_refl|]. destruct HC as [H1 _]. auto.
  - (* pop *) destruct st as [|p st]; inversion H; subst; auto.
    destruct HI as [HF HC]. unfold Inv, frames in *; simpl in *.
    inversion HF as [|? ? _ HF']; subst. inversion HF' as [|? ? Hp HF'']; subst.
    destruct HC as [_ [H2 H3]]. split.
    + constructor; auto.
    + split; auto.
  - (* decl *)
    destruct (bound (e_decls e) k n aux || negb (decl_extra (e_decls e) k n aux)) eqn:E.
    + inversion H; subst. eapply (inv_set_cur _ _ _ _ _ HI); simpl; [lia| |].
      * intros m i Hin. simpl in *. destruct (Hcur m i Hin). split; auto.
      * intros m Hm. apply reject_mono; auto.
    + assert (Hinc : forall t, incl (fnames (e_decls e)) (fnames (add_decl (e_decls e) k n aux t)))
        by (intros; apply fnames_add_decl).
      destruct k; inversion H; subst.
      1,3,4,5: eapply (inv_set_cur _ _ _ _ _ HI); simpl;
        [lia | intros m i Hin; destruct (Hcur m i Hin); split; auto; apply (Hinc 0); auto | apply (Hinc 0)].
      eapply (inv_set_cur _ _ _ _ _ HI); [simpl; lia| |].
      * intros m i Hin. cbn [e_tabs e_decls] in *. apply in_app_or in Hin. destruct Hin as [Hin|[Hin|[]]].
        -- destruct (Hcur m i Hin). split; [simpl; lia|]. apply (Hinc (length (e_tabs e))); auto.
        -- inversion Hin; subst. split; [simpl; lia|]. unfold fnames; simpl. rewrite map_app. apply in_or_app. right; left; auto.
      * cbn [e_decls]. apply (Hinc (length (e_tabs e))).
  - destruct (db_step (e_decls e) (e_db e) c) as [[[b o'] dr] dg]. inversion H; subst.
    eapply (inv_set_cur _ _ _ _ _ HI); simpl; [lia| |apply incl_refl]. intros m i Hin. apply (Hcur m i Hin).
  - destruct (PushPop.lookup_action db sh e n); [destruct (db_api (e_db e) n0 op)|]; inversion H; subst; auto.
    eapply (inv_set_cur _ _ _ _ _ HI); simpl; [lia| |apply incl_refl]. intros m i Hin. apply (Hcur m i Hin).
  - inversion H; subst; auto.
  - inversion H; subst. eapply (inv_set_cur _ _ _ _ _ HI); simpl; [lia| |apply incl_refl]. intros m i Hin. apply (Hcur m i Hin).
  - inversion H; subst; auto.
Qed.

Lemma inv_run cs : forall s sh s' sh' os, Inv s sh -> run cs s sh = (s', sh', os) -> Inv s' sh'.
Proof.
  induction cs as [|c tl IH]; simpl; intros s sh s' sh' os HI H.
  - inversion H; subst; auto.
  - destruct (step c s sh) as [[s1 sh1] o] eqn:E1.
    destruct (run tl s1 sh1) as [[s2 sh2] os2] eqn:E2. inversion H; subst.
    eapply IH; [|eassumption]. eapply inv_step; eauto.
Qed.

Lemma inv_init : Inv sess0 shared0.
Proof.
  unfold Inv, frames; simpl. split.
  - constructor; auto. intros n i [].
  - split; auto. intros g [].
Qed.

(* ---------------------------------------------------------------- simulation *)

Lemma equiv_intro a st1 sh1 b st2 sh2 :
  eg_eq a b -> live_agree sh1 a sh2 b ->
  Forall2 (fun x y => eg_eq x y /\ live_agree sh1 x sh2 y) st1 st2 ->
  equiv (mkSess a st1) sh1 (mkSess b st2) sh2.
Proof. intros. unfold equiv, frames; simpl. constructor; auto. Qed.

(** one command on two equivalent states: outputs equal up to the two carve-outs, successors
    equivalent; if moreover the symbol generator and report agree, outputs are EQUAL and the
    counters still agree. *)
Lemma live_agree_tabs sh1 (a a' : egraph) sh2 (b b' : egraph) :
  live_agree sh1 a sh2 b -> e_tabs a' = e_tabs a -> e_tabs b' = e_tabs b -> live_agree sh1 a' sh2 b'.
Proof.
  intros H Ha Hb n. rewrite (lookup_tabs sh1 a' a n Ha), (lookup_tabs sh2 b' b n Hb). apply H.
Qed.

Lemma sim_step c s1 sh1 s2 sh2 s1' sh1' o1 s2' sh2' o2 :
  equiv s1 sh1 s2 sh2 -> Inv s1 sh1 -> Inv s2 sh2 ->
  step c s1 sh1 = (s1', sh1', o1) -> step c s2 sh2 = (s2', sh2', o2) ->
  blur o1 = blur o2 /\ equiv s1' sh1' s2' sh2' /\
  (same_counters s1 s2 -> o1 = o2 /\ same_counters s1' s2').
Proof.
  intros HE HI1 HI2 H1 H2.
  destruct s1 as [[d1 b1 t1 g1 r1] st1]. destruct s2 as [[d2 b2 t2 g2 r2] st2].
  unfold equiv, frames in HE. simpl in HE. inversion HE as [|? ? ? ? [Heq Hlive] Hst]; subst.
  destruct Heq as (Hd & Hb & Ht). simpl in Hd, Hb, Ht. subst d2 b2.
  assert (Hlen : length t1 = length t2).
  { rewrite <- (map_length fst t1), <- (map_length fst t2), Ht. reflexivity. }
  assert (Heq0 : eg_eq (mkEg d1 b1 t1 g1 r1) (mkEg d1 b1 t2 g2 r2)) by (repeat split; auto).
  unfold same_counters. simpl.
  (* the common case: same registry, current e-graph changed but not its table list *)
  assert (Hsame : forall d b g1' r1' g2' r2',
            equiv (mkSess (mkEg d b t1 g1' r1') st1) sh1 (mkSess (mkEg d b t2 g2' r2') st2) sh2).
  { intros. apply equiv_intro; [repeat split; auto| |exact Hst].
    eapply live_agree_tabs; [exact Hlive|reflexivity|reflexivity]. }
  destruct c; simpl in H1, H2.
  - (* push *) inversion H1; inversion H2; subst. split; [reflexivity|]. split; [|intros; auto].
    apply equiv_intro; [exact Heq0|exact Hlive|]. constructor; [split; auto|exact Hst].
  - (* pop *) inversion Hst as [|x y lx ly Hxy Hst']; subst; inversion H1; inversion H2; subst.
    + split; [reflexivity|]. split; [exact HE|intros; auto].
    + destruct Hxy as [(Hd' & Hb' & Ht') Hl'].
      split; [reflexivity|]. split; [|intros Hc; simpl; auto].
      apply equiv_intro; [repeat split; simpl; auto| |exact Hst'].
      eapply live_agree_tabs; [exact Hl'|reflexivity|reflexivity].
  - (* decl *)
    destruct (bound d1 k n aux || negb (decl_extra d1 k n aux)) eqn:E.
    + inversion H1; inversion H2; subst. split; [reflexivity|]. split; [apply Hsame|intros; simpl; auto].
    + destruct k.
      * inversion H1; inversion H2; subst. split; [reflexivity|]. split; [apply Hsame|intros; simpl; auto].
      * (* function: the registry changes *)
        inversion H1; inversion H2; subst. clear H1 H2. split; [reflexivity|]. split; [|intros; simpl; auto].
        apply equiv_intro.
        -- repeat split; simpl; auto; [rewrite Hlen; reflexivity|].
           rewrite !map_app, Ht. reflexivity.
        -- intros m. destruct (Nat.eq_dec m n) as [->|Hm].
           ++ rewrite lookup_append_self. rewrite Hlen. rewrite lookup_append_self. reflexivity.
           ++ rewrite !lookup_register_other by auto.
              rewrite (lookup_append_other sh1 d1 b1 t1 g1 r1) by auto.
              rewrite (lookup_append_other sh2 d1 b1 t2 g2 r2) by auto. apply Hlive.
        -- destruct HI1 as [HF1 _]. destruct HI2 as [HF2 _]. unfold frames in HF1, HF2; simpl in *.
           inversion HF1 as [|? ? _ HF1']; inversion HF2 as [|? ? _ HF2']; subst.
           eapply Forall2_impl_Forall; [exact HF1'|exact HF2'|exact Hst|].
           intros a b Ha Hb' [Hab Hl]. split; auto. intros m.
           destruct (Nat.eq_dec m n) as [->|Hm].
           ++ rewrite !lookup_register_fresh; auto.
              ** intros m j Hin. apply (Hb' m j Hin).
              ** intros m j Hin. apply (Ha m j Hin).
           ++ rewrite !lookup_register_other by auto. apply Hl.
      * inversion H1; inversion H2; subst. split; [reflexivity|]. split; [apply Hsame|intros; simpl; auto].
      * inversion H1; inversion H2; subst. split; [reflexivity|]. split; [apply Hsame|intros; simpl; auto].
      * inversion H1; inversion H2; subst. split; [reflexivity|].
        split; [apply Hsame|intros [? ?]; simpl; split; auto; split; congruence].
  - (* database command *)
    destruct (db_step d1 b1 c) as [[[b o'] dr] dg]. inversion H1; inversion H2; subst.
    split; [reflexivity|]. split; [apply Hsame|intros [? ?]; simpl; split; auto; split; congruence].
  - (* name-indexed API access *)
    rewrite <- (Hlive n) in H2.
    destruct (PushPop.lookup_action db sh1 (mkEg d1 b1 t1 g1 r1) n) as [t|].
    + destruct (db_api b1 t op) as [b o']. inversion H1; inversion H2; subst.
      split; [reflexivity|]. split; [apply Hsame|intros; simpl; auto].
    + inversion H1; inversion H2; subst. split; [reflexivity|]. split; [exact HE|intros; auto].
  - (* print-stats *)
    inversion H1; inversion H2; subst. split; [reflexivity|].
    split; [exact HE|intros [? ?]; simpl in *; split; auto; congruence].
  - (* fresh symbol *)
    inversion H1; inversion H2; subst. split; [reflexivity|].
    split; [apply Hsame|intros [? ?]; simpl in *; split; [congruence|split; congruence]].
  - inversion H1; inversion H2; subst. split; [reflexivity|]. split; [exact HE|intros; auto].
Qed.

Lemma sim_run cs : forall s1 sh1 s2 sh2 s1' sh1' o1 s2' sh2' o2,
  equiv s1 sh1 s2 sh2 -> Inv s1 sh1 -> Inv s2 sh2 ->
  run cs s1 sh1 = (s1', sh1', o1) -> run cs s2 sh2 = (s2', sh2', o2) ->
  map blur o1 = map blur o2 /\ equiv s1' sh1' s2' sh2' /\
  (same_counters s1 s2 -> o1 = o2 /\ same_counters s1' s2').
Proof.
  induction cs as [|c tl IH]; simpl; intros s1 sh1 s2 sh2 s1' sh1' o1 s2' sh2' o2 HE HI1 HI2 H1 H2.
  - inversion H1; inversion H2; subst. auto.
  - destruct (step c s1 sh1) as [[a1 ah1] x1] eqn:E1. destruct (run tl a1 ah1) as [[a1' ah1'] y1] eqn:R1.
    destruct (step c s2 sh2) as [[a2 ah2] x2] eqn:E2. destruct (run tl a2 ah2) as [[a2' ah2'] y2] eqn:R2.
    inversion H1; inversion H2; subst.
    destruct (sim_step c _ _ _ _ _ _ _ _ _ _ HE HI1 HI2 E1 E2) as (Hb & HE' & Hs).
    assert (HI1' := inv_step _ _ _ _ _ _ HI1 E1). assert (HI2' := inv_step _ _ _ _ _ _ HI2 E2).
    destruct (IH _ _ _ _ _ _ _ _ _ _ HE' HI1' HI2' R1 R2) as (Hb2 & HE2 & Hs2).
    split; [simpl; congruence|]. split; auto.
    intros Hc. destruct (Hs Hc) as [-> Hc']. destruct (Hs2 Hc') as [-> Hc'']. auto.
Qed.

(* ---------------------------------------------------------------- the bracket *)

Lemma depth_cons d c tl :
  depth d (c :: tl) = match depth d [c] with Some d1 => depth d1 tl | None => None end.
Proof. destruct c; simpl; auto. destruct d; auto. Qed.

Lemma chain_base cur top base (F : egraph) :
  chain (cur :: top ++ base) -> In F base -> incl (fnames (e_decls F)) (fnames (e_decls cur)).
Proof. intros [H _] HF. apply H. apply in_or_app. auto. Qed.

(** one command that does not pop below the base: the base frames stay where they are and keep
    resolving every name the same way *)
Lemma step_base c d top cur base sh s' sh' o d' :
  depth d [c] = Some d' -> length top = d -> Inv (mkSess cur (top ++ base)) sh ->
  step c (mkSess cur (top ++ base)) sh = (s', sh', o) ->
  exists cur' top', s' = mkSess cur' (top' ++ base) /\ length top' = d' /\
    (forall F, In F base -> forall n, lookup_action sh' F n = lookup_action sh F n).
Proof.
  intros Hd Hl HI H.
  destruct c; simpl in Hd, H.
  - inversion Hd; inversion H; subst. exists cur, (cur :: top). simpl; auto.
  - destruct d; [discriminate|]. inversion Hd; subst. destruct top as [|p top]; [discriminate|].
    simpl in H. inversion H; subst. eexists _, top. simpl in Hl. split; [reflexivity|]. split; [lia|auto].
  - inversion Hd; subst d'.
    destruct (bound (e_decls cur) k n aux || negb (decl_extra (e_decls cur) k n aux)) eqn:E.
    + inversion H; subst. eexists _, top. split; [reflexivity|split; auto].
    + destruct k; try (inversion H; subst; eexists _, top; split; [reflexivity|split; auto]; fail).
      apply orb_false_iff in E. destruct E as [Hnb _]. simpl in Hnb.
      inversion H; subst. eexists _, top. split; [reflexivity|]. split; auto.
      intros F HF m. destruct HI as [HF' HC]. unfold frames in *; simpl in *.
      assert (HokF : tabs_ok sh F).
      { rewrite Forall_forall in HF'. apply HF'. right. apply in_or_app. auto. }
      destruct (Nat.eq_dec m n) as [->|Hm].
      * rewrite lookup_register_fresh.
        -- symmetry. apply lookup_unnamed. intros i Hin. destruct (HokF n i Hin) as [_ Hn].
           apply (chain_base _ _ _ _ HC HF) in Hn. apply mem_In in Hn. congruence.
        -- intros m j Hin. apply (HokF m j Hin).
      * apply lookup_register_other; auto.
  - inversion Hd; subst. destruct (db_step (e_decls cur) (e_db cur) c) as [[[b o'] dr] dg].
    inversion H; subst. eexists _, top. split; [reflexivity|split; auto].
  - inversion Hd; subst.
    destruct (PushPop.lookup_action db sh cur n); [destruct (db_api (e_db cur) n0 op)|];
      inversion H; subst; eexists _, top; (split; [reflexivity|split; auto]).
  - inversion Hd; inversion H; subst. eexists _, top. split; [reflexivity|split; auto].
  - inversion Hd; inversion H; subst. eexists _, top. split; [reflexivity|split; auto].
  - inversion Hd; inversion H; subst. eexists _, top. split; [reflexivity|split; auto].
Qed.

Lemma run_base cs : forall d top cur base sh s' sh' os d',
  depth d cs = Some d' -> length top = d -> Inv (mkSess cur (top ++ base)) sh ->
  run cs (mkSess cur (top ++ base)) sh = (s', sh', os) ->
  exists cur' top', s' = mkSess cur' (top' ++ base) /\ length top' = d' /\
    (forall F, In F base -> forall n, lookup_action sh' F n = lookup_action sh F n).
Proof.
  induction cs as [|c tl IH]; intros d top cur base sh s' sh' os d' Hd Hl HI H.
  - simpl in *. inversion Hd; inversion H; subst. exists cur, top; auto.
  - rewrite depth_cons in Hd. destruct (depth d [c]) as [d1|] eqn:Ed; [|discriminate].
    simpl in H. destruct (step c (mkSess cur (top ++ base)) sh) as [[s1 sh1] o] eqn:E1.
    destruct (run tl s1 sh1) as [[s2 sh2] os2] eqn:E2. inversion H; subst.
    destruct (step_base _ _ _ _ _ _ _ _ _ _ Ed eq_refl HI E1) as (cur1 & top1 & -> & Hl1 & Hk1).
    assert (HI1 := inv_step _ _ _ _ _ _ HI E1).
    destruct (IH _ _ _ _ _ _ _ _ _ Hd Hl1 HI1 E2) as (cur2 & top2 & -> & Hl2 & Hk2).
    exists cur2, top2. split; auto. split; auto. intros F HF n. rewrite Hk2, Hk1; auto.
Qed.

Lemma run_app a : forall b s sh,
  run (a ++ b) s sh =
  let '(s1, sh1, o1) := run a s sh in let '(s2, sh2, o2) := run b s1 sh1 in (s2, sh2, o1 ++ o2).
Proof.
  induction a as [|c tl IH]; intros b s sh; simpl.
  - destruct (run b s sh) as [[? ?] ?]; auto.
  - destruct (step c s sh) as [[s1 sh1] o]. rewrite IH.
    destruct (run tl s1 sh1) as [[s2 sh2] o2]. destruct (run b s2 sh2) as [[? ?] ?]. reflexivity.
Qed.

Lemma run_length cs : forall s sh, length (snd (run cs s sh)) = length cs.
Proof.
  induction cs as [|c tl IH]; intros s sh; simpl; auto.
  destruct (step c s sh) as [[s1 sh1] o]. specialize (IH s1 sh1).
  destruct (run tl s1 sh1) as [[? ?] ?]. simpl in *. congruence.
Qed.

(** push; Q; pop with Q balanced returns to an equivalent state, from ANY reachable state *)
Theorem bracket_equiv Q s sh s' sh' os :
  Inv s sh -> balanced Q = true ->
  run (CPush :: Q ++ [CPop]) s sh = (s', sh', os) ->
  equiv s' sh' s sh /\ Inv s' sh' /\ s_stack s' = s_stack s.
Proof.
  intros HI HB H. assert (HI' := inv_run _ _ _ _ _ _ HI H).
  destruct s as [c st]. simpl in H.
  rewrite run_app in H.
  destruct (run Q (mkSess c (c :: st)) sh) as [[s1 sh1] o1] eqn:EQ.
  unfold PushPop.balanced in HB. destruct (depth 0 Q) as [[|?]|] eqn:Ed; try discriminate.
  assert (HIp : Inv (mkSess c ([] ++ c :: st)) sh).
  { eapply (inv_step CPush (mkSess c st)); eauto. reflexivity. }
  destruct (run_base Q 0 [] c (c :: st) sh s1 sh1 o1 0 Ed eq_refl HIp EQ) as (cur1 & top1 & -> & Hl & Hk).
  destruct top1; [|discriminate]. simpl in H. inversion H; subst. clear H.
  split; [|split; auto]. apply equiv_intro.
  - repeat split; auto.
  - intros n. rewrite (lookup_tabs sh' _ c n) by reflexivity. apply Hk. left; auto.
  - apply Forall2_same. intros F HF. split; [repeat split; auto|]. intros n. apply Hk. right; auto.
Qed.

(** C08, push/pop half.  For all P, Q, R with Q balanced (nested push/pop, declarations, failing
    commands allowed): from the state reached by P, the outputs of R after push;Q;pop equal the
    outputs of R run directly, up to EXACTLY the two carve-outs ([blur]); the final states are
    equivalent; and if the bracket left the symbol generator and the report where they were, the
    outputs are equal without any blurring. *)
Theorem pushpop_from P Q R s sh oP s1 sh1 oQ :
  balanced Q = true ->
  run P sess0 shared0 = (s, sh, oP) ->
  run (CPush :: Q ++ [CPop]) s sh = (s1, sh1, oQ) ->
  map blur (outputs R s1 sh1) = map blur (outputs R s sh)
  /\ (let '(a, ah) := final R s1 sh1 in let '(b, bh) := final R s sh in equiv a ah b bh)
  /\ (same_counters s1 s -> outputs R s1 sh1 = outputs R s sh).
Proof.
  intros HB HP HQ.
  assert (HI := inv_run _ _ _ _ _ _ inv_init HP).
  destruct (bracket_equiv _ _ _ _ _ _ HI HB HQ) as (HE & HI1 & _).
  unfold PushPop.outputs, PushPop.final.
  destruct (run R s1 sh1) as [[a ah] oa] eqn:Ra. destruct (run R s sh) as [[b bh] ob] eqn:Rb. simpl.
  destruct (sim_run R _ _ _ _ _ _ _ _ _ _ HE HI1 HI Ra Rb) as (H1 & H2 & H3).
  split; auto. split; auto. intros Hc. apply H3; auto.
Qed.

Theorem pushpop P Q R : balanced Q = true ->
  exists oP oQ oR oR',
    outputs (P ++ [CPush] ++ Q ++ [CPop] ++ R) sess0 shared0 = oP ++ oQ ++ oR'
    /\ outputs (P ++ R) sess0 shared0 = oP ++ oR
    /\ length oP = length P /\ length oQ = S (S (length Q))
    /\ map blur oR' = map blur oR.
Proof.
  intros HB.
  destruct (run P sess0 shared0) as [[s sh] oP] eqn:EP.
  destruct (run (CPush :: Q ++ [CPop]) s sh) as [[s1 sh1] oQ] eqn:EQ.
  destruct (pushpop_from P Q R _ _ _ _ _ _ HB EP EQ) as (H1 & _ & _).
  exists oP, oQ, (outputs R s sh), (outputs R s1 sh1).
  assert (LP : length oP = length P).
  { generalize (run_length P sess0 shared0). rewrite EP. auto. }
  assert (LQ : length oQ = S (S (length Q))).
  { generalize (run_length (CPush :: Q ++ [CPop]) s sh). rewrite EQ. simpl.
    rewrite app_length. simpl. intros ->. lia. }
  split; [|split; [|split; [|split]]]; auto.
  - unfold PushPop.outputs.
    replace (P ++ [CPush] ++ Q ++ [CPop] ++ R) with (P ++ (CPush :: Q ++ [CPop]) ++ R).
    2:{ simpl. rewrite <- app_assoc. reflexivity. }
    rewrite run_app, EP. rewrite run_app, EQ.
    destruct (run R s1 sh1) as [[? ?] ?]. reflexivity.
  - unfold PushPop.outputs. rewrite run_app, EP. destruct (run R s sh) as [[? ?] ?]. reflexivity.
Qed.

Lemma outputs_single c s sh : outputs [c] s sh = [snd (step c s sh)].
Proof. unfold PushPop.outputs. cbn [PushPop.run]. destruct (step c s sh) as [[? ?] ?]. reflexivity. Qed.

(** names declared inside the bracket can be declared again: a declaration accepted right after
    P is accepted right after P; push; Q; pop *)
Theorem redeclare P Q k n aux s sh oP s1 sh1 oQ :
  balanced Q = true ->
  run P sess0 shared0 = (s, sh, oP) ->
  run (CPush :: Q ++ [CPop]) s sh = (s1, sh1, oQ) ->
  snd (step (CDecl k n aux) s sh) = OOk -> snd (step (CDecl k n aux) s1 sh1) = OOk.
Proof.
  intros HB HP HQ Hok.
  destruct (pushpop_from P Q [CDecl k n aux] _ _ _ _ _ _ HB HP HQ) as (H1 & _ & _).
  rewrite !outputs_single in H1.
  set (x1 := step (CDecl k n aux) s1 sh1) in *. set (x2 := step (CDecl k n aux) s sh) in *.
  cbn [map] in H1. injection H1 as Hb. rewrite Hok in Hb.
  destruct (snd x1); simpl in Hb; congruence.
Qed.

(** pop without a matching push is an error that changes nothing *)
Theorem pop_without_push_errors P s sh oP :
  depth 0 P = Some 0 -> run P sess0 shared0 = (s, sh, oP) ->
  step CPop s sh = (s, sh, OErr EPop).
Proof.
  intros Hd HP.
  destruct (run_base P 0 [] (egraph0 db db0) [] shared0 s sh oP 0 Hd eq_refl inv_init HP)
    as (cur & top & -> & Hl & _).
  destruct top; [|discriminate]. reflexivity.
Qed.

(* ---------------------------------------------------------------- registry liveness *)

(** what a rejected declaration may leave behind is at most the name being declared *)
Hypothesis reject_names : forall d k n a m, In m (fnames (reject_effect d k n a)) ->
  In m (fnames d) \/ (k = NFunc /\ m = n).

Definition undeclared (n : name) (s : sess) : Prop :=
  forall F, In F (frames s) -> ~ In n (fnames (e_decls F)).

Lemma undeclared_missing n s sh op : Inv s sh -> undeclared n s ->
  snd (step (CApi n op) s sh) = OMissing.
Proof.
  intros [HF _] Hu. destruct s as [e st]. simpl.
  rewrite lookup_unnamed; auto. intros i Hin.
  unfold frames in *; simpl in *. inversion HF; subst.
  match goal with Hh : tabs_ok sh e |- _ => destruct (Hh n i Hin) as [_ Hn] end.
  apply (Hu e); auto. left; auto.
Qed.

(** function names of the frames after a step come from the frames before, or from the command *)
Lemma step_fnames c s sh s' sh' o F' m :
  step c s sh = (s', sh', o) -> In F' (frames s') -> In m (fnames (e_decls F')) ->
  (exists F, In F (frames s) /\ In m (fnames (e_decls F))) \/ (exists aux, c = CDecl NFunc m aux).
Proof.
  intros H HF Hm. destruct s as [e st]. unfold frames in *.
  destruct c; [simpl in H|simpl in H|unfold PushPop.step in H; cbn [s_cur s_stack] in H
              |simpl in H|simpl in H|simpl in H|simpl in H|simpl in H].
  - inversion H; subst. simpl in HF. left. destruct HF as [<-|[<-|HF]]; eexists; split; eauto; simpl; auto.
  - destruct st as [|p st]; inversion H; subst; simpl in HF.
    + left. exists F'; split; auto.
    + left. destruct HF as [<-|HF]; [exists p; simpl; auto|exists F'; simpl; auto].
  - destruct (bound (e_decls e) k n aux || negb (decl_extra (e_decls e) k n aux)).
    + inversion H; subst. simpl in HF. destruct HF as [<-|HF]; [|left; exists F'; simpl; auto].
      cbn [e_decls] in Hm. apply reject_names in Hm.
      destruct Hm as [Hm|[-> ->]]; [left; exists e; simpl; auto|]. right; eauto.
    + assert (Hcase : forall t, In m (fnames (add_decl (e_decls e) k n aux t)) ->
                      In m (fnames (e_decls e)) \/ (k = NFunc /\ m = n)).
      { intros t Hx. destruct k; try (rewrite fnames_add_other in Hx by congruence; auto).
        rewrite fnames_add_func in Hx. apply in_app_or in Hx. destruct Hx as [Hx|[Hx|[]]]; auto. }
      assert (Hs' : exists t g r sx, s' = mkSess (mkEg (add_decl (e_decls e) k n aux t) (db_decl (e_db e) k n aux) sx g r) st).
      { destruct k; inversion H; subst; unfold set_cur; cbn [s_stack]; [exists 0|eexists|exists 0|exists 0|exists 0]; do 3 eexists; reflexivity. }
      destruct Hs' as (t & g & r & sx & ->). cbn [s_cur s_stack] in HF.
      destruct HF as [<-|HF]; [|left; exists F'; simpl; auto].
      cbn [e_decls] in Hm. apply Hcase in Hm. destruct Hm as [Hm|[-> ->]]; [left; exists e; simpl; auto|].
      right; eauto.
  - destruct (db_step (e_decls e) (e_db e) c) as [[[b o'] dr] dg]. inversion H; subst. simpl in HF.
    left. destruct HF as [<-|HF]; [exists e; simpl; auto|exists F'; simpl; auto].
  - destruct (PushPop.lookup_action db sh e n); [destruct (db_api (e_db e) n0 op)|]; inversion H; subst;
      simpl in HF; left; (destruct HF as [<-|HF]; [exists e; simpl; auto|exists F'; simpl; auto]).
  - inversion H; subst. left; exists F'; split; auto.
  - inversion H; subst. simpl in HF. left. destruct HF as [<-|HF]; [exists e; simpl; auto|exists F'; simpl; auto].
  - inversion H; subst. left; exists F'; split; auto.
Qed.

Lemma undeclared_run n cs : forall s sh s' sh' os,
  ~ In n (fdecl_names dcmd aop cs) -> undeclared n s -> run cs s sh = (s', sh', os) -> undeclared n s'.
Proof.
  induction cs as [|c tl IH]; simpl; intros s sh s' sh' os Hn Hu H.
  - inversion H; subst; auto.
  - destruct (step c s sh) as [[s1 sh1] o] eqn:E1. destruct (run tl s1 sh1) as [[s2 sh2] os2] eqn:E2.
    inversion H; subst. eapply IH; [| |eassumption].
    + destruct c; auto. destruct k; auto. simpl in Hn. tauto.
    + intros F' HF' Hm. destruct (step_fnames _ _ _ _ _ _ _ _ E1 HF' Hm) as [(F & HF & HmF)|(aux & ->)].
      * apply (Hu F HF HmF).
      * simpl in Hn. tauto.
Qed.

(** after push; Q; pop, a name that was not declared before the push — in particular every table
    declared only inside Q — is MISSING for name-indexed access, and stays missing through any
    continuation R that does not declare it again, whatever else R declares (so also when R's
    declarations reuse the table id of the dropped table). *)
Theorem registry_liveness P Q R n op s sh oP s1 sh1 oQ s2 sh2 oR :
  balanced Q = true ->
  run P sess0 shared0 = (s, sh, oP) -> undeclared n s ->
  run (CPush :: Q ++ [CPop]) s sh = (s1, sh1, oQ) ->
  ~ In n (fdecl_names dcmd aop R) ->
  run R s1 sh1 = (s2, sh2, oR) ->
  snd (step (CApi n op) s2 sh2) = OMissing.
Proof.
  intros HB HP Hu HQ Hn HR.
  assert (HI := inv_run _ _ _ _ _ _ inv_init HP).
  destruct (bracket_equiv _ _ _ _ _ _ HI HB HQ) as (HE & HI1 & Hst).
  assert (HI2 := inv_run _ _ _ _ _ _ HI1 HR).
  apply undeclared_missing; auto.
  eapply undeclared_run; [exact Hn| |exact HR].
  (* the frames after the bracket have the declarations of the frames before it *)
  intros F HF Hm. unfold equiv in HE.
  assert (Hx : exists G, In G (frames s) /\ e_decls F = e_decls G).
  { clear - HE HF. induction HE as [|a b la lb [(Hd & _) _] _ IH]; [destruct HF|].
    destruct HF as [<-|HF]; [exists b; split; [left|]; auto|].
    destruct (IH HF) as (G & HG & Hd'). exists G. split; [right|]; auto. }
  destruct Hx as (G & HG & Hd). rewrite Hd in Hm. apply (Hu G HG Hm).
Qed.

End Proofs.
