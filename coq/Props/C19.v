(** C19 — The thread pool and shared-memory helpers are safe under any interleaving.
    This file only pins statements and prints their assumptions.

    What these theorems are about: sequentially consistent transition systems written from
    concurrency/src/threadpool/mod.rs, lib.rs (ReadOptimizedLock), parallel_writer.rs and
    concurrent_vec.rs, quantified over ALL interleavings of the modelled atomic steps. Memory
    ordering weaker than SC, OS blocking, crossbeam/arc-swap internals and the unsafe raw-pointer
    code are NOT in the models: they are exercised by the stress harness (h_conc) only. *)
From Coq Require Import List Arith NArith Bool.
Import ListNotations.
Require Import Verif.Conc.ScopeModel Verif.Conc.Scope.

(* ------------------------------------------------------------------------------------------ *)
(** ** thread-pool scope (Conc/ScopeModel.v) *)

(** [scope] gets past its wait only when the queue is empty, no job wrapper is running, every
    spawned task (and the root callback, id 0) was started exactly once and completed exactly once,
    and nothing that was not spawned ever ran. *)
Theorem c19_scope_done_iff : forall s, ScopeModel.reachable s ->
  caller s = Take \/ caller s = Ret ->
  queue s = [] /\ run s = [] /\
  (forall k, In k (spawned s) ->
     count_occ Nat.eq_dec (runs s) k = 1 /\ count_occ Nat.eq_dec (fins s) k = 1) /\
  (forall k, ~ In k (spawned s) -> count_occ Nat.eq_dec (runs s) k = 0).
Proof. exact scope_done_iff. Qed.
Print Assumptions c19_scope_done_iff.

(** completion is signalled at most once (the bounded(1) channel never overflows, the
    "signaled once" expect cannot fire) and exactly when all expected items have completed *)
Theorem c19_done_once : forall s, ScopeModel.reachable s ->
  sent s <= 1 /\ done_msgs s <= 1 /\ (sent s = 1 <-> length (fins s) = length (spawned s)).
Proof. exact done_once. Qed.
Print Assumptions c19_done_once.

(** the packed AtomicCounts word: wrapping u64 adds never wrap, both halves always decode to the
    true counts, completed <= expected <= u32::MAX; with fewer than u32::MAX - 1 spawned tasks the
    assertion in expect_one does not fire *)
Theorem c19_no_overflow_le_u32 : forall s, ScopeModel.reachable s ->
  (cnt s < U64MOD)%N /\
  expected (cnt s) = N.of_nat (length (spawned s)) /\
  completed (cnt s) = N.of_nat (length (fins s)) /\
  (N.of_nat (length (fins s)) <= N.of_nat (length (spawned s)) <= U32MAX)%N /\
  (length (spawned s) = S (length (spawned s) - 1)) /\
  ((N.of_nat (length (spawned s) - 1) < U32MAX - 1)%N -> (expected (cnt s) < U32MAX)%N).
Proof. exact no_overflow. Qed.
Print Assumptions c19_no_overflow_le_u32.

(** Tier A: the constants and the arithmetic of the packed word are the ones threadpool/mod.rs has
    NOW (gen/CountsFns.v is regenerated on every run; ScopeModel's transition system is built from
    these functions): expected = high 32 bits, completed = low 32 bits, root callback pre-counted,
    [expect_one] asserts expected < u32::MAX and adds 2^32 (wrapping u64), [complete_one] adds 1
    (wrapping u64) and returns the previous word, completion is signalled iff
    completed(previous) + 1 == expected(previous) (u32, wrapping) *)
Theorem c19_counts_packing : forall v : N,
  CountsFns.EXPECTED_SHIFT = 32%N /\ CountsFns.COMPLETED_MASK = 4294967295%N /\
  CountsFns.with_root_callback = 4294967296%N /\
  expected v = ((v / 4294967296) mod 4294967296)%N /\
  completed v = (v mod 4294967296)%N /\
  CountsFns.expect_one_guard v = (expected v <? 4294967295)%N /\
  CountsFns.expect_one_next v = ((v + 4294967296) mod 18446744073709551616)%N /\
  CountsFns.complete_one_next v = ((v + 1) mod 18446744073709551616)%N /\
  CountsFns.complete_one_result v = v /\
  is_last v = ((completed v + 1) mod 4294967296 =? expected v)%N.
Proof. exact counts_packing. Qed.
Print Assumptions c19_counts_packing.

(** the model's transition system really is built from the regenerated functions: the initial
    word, and what one [expect_one] / [complete_one] step does to [cnt] *)
Theorem c19_scope_uses_regenerated_counts :
  cnt ScopeModel.init = CountsFns.with_root_callback /\
  (forall s w k s', ScopeModel.step s (LExpect w k) s' ->
     CountsFns.expect_one_guard (cnt s) = true /\ cnt s' = CountsFns.expect_one_next (cnt s)) /\
  (forall s w s', ScopeModel.step s (LComplete w) s' ->
     cnt s' = CountsFns.complete_one_next (cnt s) /\
     sent s' = if CountsFns.scope_complete_is_last (CountsFns.complete_one_result (cnt s))
               then S (sent s) else sent s).
Proof. exact scope_uses_regenerated_counts. Qed.
Print Assumptions c19_scope_uses_regenerated_counts.

(** [scope] leaves by unwinding iff the root callback or some spawned task panicked *)
Theorem c19_panic_reported : forall s, ScopeModel.reachable s -> caller s = Ret ->
  reported s = (proot s || ptask s)%bool.
Proof. exact panic_reported. Qed.
Print Assumptions c19_panic_reported.

(** deadlock-freedom of the protocol of one scope (no lost wake-up): every configuration in which
    [scope] has not returned has an enabled step *)
Theorem c19_scope_progress : forall s, ScopeModel.reachable s -> caller s <> Ret ->
  exists l s', ScopeModel.step s l s'.
Proof. exact scope_progress. Qed.
Print Assumptions c19_scope_progress.

(** trace inclusion: an event log of the real pool accepted by the replay (cases_scope_*.v) is a
    run of this transition system ending in the returned configuration *)
Theorem c19_scope_replay_sound : forall es, ScopeModel.check_case es = true ->
  exists s, ScopeModel.reachable s /\ caller s = Ret /\ queue s = [] /\ run s = []
            /\ reported s = (proot s || ptask s)%bool.
Proof. exact replay_sound. Qed.
Print Assumptions c19_scope_replay_sound.

(** non-vacuity: a concrete log with a task spawning a task and a panicking task *)
Example c19_scope_example :
  ScopeModel.check_case
    [ESpawn 0 1; EStart 1; ESpawn 1 2; ESpawn 0 3; EEnd 0 false; EStart 3; EStart 2;
     EEnd 1 false; EEnd 3 true; EEnd 2 false; EReturn true] = true.
Proof. vm_compute. reflexivity. Qed.

(** ... and logs that must be rejected: returning while a task is still running; running a task
    twice *)
Example c19_scope_example_early_return :
  ScopeModel.check_case [ESpawn 0 1; EStart 1; EEnd 0 false; EReturn false; EEnd 1 false] = false.
Proof. vm_compute. reflexivity. Qed.
Example c19_scope_example_double_run :
  ScopeModel.check_case [ESpawn 0 1; EStart 1; EStart 1; EEnd 1 false; EEnd 0 false; EReturn false] = false.
Proof. vm_compute. reflexivity. Qed.

(* ------------------------------------------------------------------------------------------ *)
(** ** ReadOptimizedLock (Conc/RoLockModel.v) *)
Require Verif.Conc.RoLockModel Verif.Conc.RoLock.

(** mutual exclusion, for any number n of threads and every interleaving:
    (1) at most one thread is in a writer's section (successful CAS .. drop of the MutexWriter):
        two writers never overlap;
    (2) while a MutexWriter exists (its owner got past readers_done.wait()) no MutexReader exists;
    (3) ... in fact no thread then holds a guard on any ReadOk token (old or new);
    (4) while a writer is in its section the current token is its WriteOngoing token (so nobody
        can be admitted as a reader) *)
Theorem c19_rolock_mutex : forall n s, RoLockModel.reachable n s ->
  (forall x y, RoLock.wcs (RoLockModel.pcof s x) <> None -> RoLock.wcs (RoLockModel.pcof s y) <> None -> x = y) /\
  (forall x y, RoLock.writing (RoLockModel.pcof s x) = true -> RoLock.reading (RoLockModel.pcof s y) = true -> False) /\
  (forall x y g, RoLock.writing (RoLockModel.pcof s x) = true ->
                 RoLockModel.holds (RoLockModel.pcof s y) = Some (g, true) -> False) /\
  (forall x g', RoLock.wcs (RoLockModel.pcof s x) = Some g' -> RoLockModel.tok s = (g', false)).
Proof. exact RoLock.rolock_mutex. Qed.
Print Assumptions c19_rolock_mutex.

(** a reader never observes a writer's partial update: while a thread holds a MutexReader both
    halves equal the value of the last write whose MutexWriter was dropped, no writer is between its
    two stores, and whatever the reader has read so far is that value *)
Theorem c19_rolock_reader_sees_complete_write : forall n s, RoLockModel.reachable n s ->
  forall x, RoLock.reading (RoLockModel.pcof s x) = true ->
    RoLockModel.lo s = RoLockModel.lastw s /\ RoLockModel.hi s = RoLockModel.lastw s /\
    (forall y, RoLock.midwrite (RoLockModel.pcof s y) = false) /\
    (forall g a, RoLockModel.pcof s x = RoLockModel.RGot g a -> a = RoLockModel.lastw s) /\
    (forall g a b, RoLockModel.pcof s x = RoLockModel.RObs g a b ->
                   a = RoLockModel.lastw s /\ b = RoLockModel.lastw s).
Proof. exact RoLock.rolock_reader_sees_complete_write. Qed.
Print Assumptions c19_rolock_reader_sees_complete_write.

(** Tier A: the model's steps against the programs REGENERATED from concurrency/src/lib.rs
    ([CountsFns.prog_rolock_read], [prog_rolock_lock], [prog_writer_drop]: synchronisation operations in
    program order with the loop / match-on-token / if structure). (1) The three programs are in the
    reviewed shape and the blocks of source operations the model's labels stand for ([RoProg.expand]),
    concatenated per loop iteration, are EXACTLY the regenerated paths, in order, with the same exits:
    load; ReadOk: fence(Acquire); return reader | load; WriteOngoing: drop guard; wait | load; ReadOk:
    CAS; failed: retry | load; ReadOk: CAS; ok: drop guards; rcu; readers_done.wait; return writer |
    load; WriteOngoing: drop guard; wait | drop: token.store(ReadOk) THEN unblock.notify. *)
Require Verif.Conc.RoProg.
Theorem c19_rolock_model_is_regenerated_program : forall t,
  RoProg.read_paths <> None /\ RoProg.lock_paths <> None /\ RoProg.drop_paths <> None /\
  map (fun it => (List.concat (map RoProg.expand (fst it)), snd it)) (RoProg.model_iterations t)
  = RoProg.all_paths.
Proof. exact RoProg.model_covers_program. Qed.
Print Assumptions c19_rolock_model_is_regenerated_program.

(** (2) every step of the model moves the acting thread along a regenerated path: its position
    (source operations executed in the current iteration) grows by the label's block and stays a
    proper prefix of a regenerated path, or the block completes one; steps of the user's critical
    section execute none of the three routines *)
Theorem c19_rolock_step_follows_program : forall s l s', RoLockModel.step s l s' ->
  RoProg.follows (RoProg.pos (RoLockModel.pcof s (RoProg.actor l))) l
                 (RoProg.pos (RoLockModel.pcof s' (RoProg.actor l))) = true.
Proof. exact RoProg.step_follows_program. Qed.
Print Assumptions c19_rolock_step_follows_program.

(** an accepted event log of the real lock is a run of this system *)
Theorem c19_rolock_replay_sound : forall n es, RoLockModel.check_case (n, es) = true ->
  exists s, RoLockModel.reachable n s /\ RoLockModel.replay (RoLockModel.init n) es = Some s.
Proof. exact RoLock.replay_sound. Qed.
Print Assumptions c19_rolock_replay_sound.

Example c19_rolock_example :
  RoLockModel.check_case (3, [RoLockModel.ERdIn 0; RoLockModel.ERdIn 1; RoLockModel.ERdOut 0 0 0;
     RoLockModel.ERdOut 1 0 0; RoLockModel.EWrIn 2; RoLockModel.EWrOut 2 7; RoLockModel.ERdIn 0;
     RoLockModel.ERdOut 0 7 7]) = true.
Proof. vm_compute. reflexivity. Qed.
(** rejected: a writer admitted while a reader is inside; a torn read *)
Example c19_rolock_example_overlap :
  RoLockModel.check_case (2, [RoLockModel.ERdIn 0; RoLockModel.EWrIn 1; RoLockModel.EWrOut 1 7;
     RoLockModel.ERdOut 0 0 0]) = false.
Proof. vm_compute. reflexivity. Qed.
Example c19_rolock_example_torn :
  RoLockModel.check_case (2, [RoLockModel.EWrIn 1; RoLockModel.EWrOut 1 7; RoLockModel.ERdIn 0;
     RoLockModel.ERdOut 0 7 0]) = false.
Proof. vm_compute. reflexivity. Qed.

(* ------------------------------------------------------------------------------------------ *)
(** ** ParallelVecWriter / ConcurrentVec (Conc/WritersModel.v) *)
Require Verif.Conc.WritersModel Verif.Conc.Writers.

(** ranges handed out by the fetch_add on end_len, for any assignment [items] of contents to calls
    and any interleaving: inside [len init, end_len), pairwise disjoint, one per call, and they
    cover [len init, end_len) *)
Theorem c19_writer_ranges_disjoint : forall items init s, WritersModel.reachable items init s ->
  (forall c st, In (c, st) (WritersModel.resv s) ->
     length init <= st /\ st + length (items c) <= WritersModel.end_len s) /\
  (forall c1 s1 c2 s2, In (c1, s1) (WritersModel.resv s) -> In (c2, s2) (WritersModel.resv s) -> c1 <> c2 ->
     s1 + length (items c1) <= s2 \/ s2 + length (items c2) <= s1) /\
  (forall c s1 s2, In (c, s1) (WritersModel.resv s) -> In (c, s2) (WritersModel.resv s) -> s1 = s2) /\
  (forall idx, length init <= idx < WritersModel.end_len s ->
     exists c st, In (c, st) (WritersModel.resv s) /\ st <= idx < st + length (items c)).
Proof. exact Writers.ranges_disjoint. Qed.
Print Assumptions c19_writer_ranges_disjoint.

(** after all writers finished the vector is the initial contents followed by every call's items,
    complete, in place, in fetch_add order: everything written is present exactly once and intact *)
Theorem c19_writer_all_present_intact : forall items init s, WritersModel.reachable items init s ->
  (forall c st, In (c, st) (WritersModel.resv s) -> WritersModel.pcs s c = WritersModel.CDone st) ->
  WritersModel.snapshot s = WritersModel.expected_vec items init s /\
  length (WritersModel.snapshot s) = WritersModel.end_len s.
Proof. exact Writers.all_present_intact. Qed.
Print Assumptions c19_writer_all_present_intact.

(** and during the run nobody's finished cells (nor the initial prefix) are disturbed *)
Theorem c19_writer_partial_intact : forall items init s, WritersModel.reachable items init s ->
  (forall c start i, WritersModel.pcs s c = WritersModel.CRes start i -> forall j, j < i ->
      WritersModel.mem s (start + j) = nth j (items c) 0) /\
  (forall c start, WritersModel.pcs s c = WritersModel.CDone start -> forall j, j < length (items c) ->
      WritersModel.mem s (start + j) = nth j (items c) 0) /\
  (forall i, i < length init -> WritersModel.mem s i = nth i init 0).
Proof. exact Writers.partial_intact. Qed.
Print Assumptions c19_writer_partial_intact.

(** ConcurrentVec: pushes are serialised and every cell below head holds the value of the push that
    owns it (written before head moved past it) *)
Theorem c19_concurrent_vec_prefix_complete : forall val s, WritersModel.cvreach val s ->
  length (WritersModel.pushed s) = WritersModel.head s /\
  (forall idx, idx < WritersModel.head s ->
     exists c, nth_error (WritersModel.pushed s) idx = Some c /\ WritersModel.cell s idx = Some (val c)) /\
  (forall c i, WritersModel.vpcs s c = WritersModel.VDone i ->
     i < WritersModel.head s /\ WritersModel.cell s i = Some (val c)) /\
  (forall c1 c2,
     (WritersModel.vpcs s c1 = WritersModel.VLocked \/ exists i, WritersModel.vpcs s c1 = WritersModel.VWritten i) ->
     (WritersModel.vpcs s c2 = WritersModel.VLocked \/ exists i, WritersModel.vpcs s c2 = WritersModel.VWritten i) ->
     c1 = c2).
Proof. exact Writers.cv_prefix_complete. Qed.
Print Assumptions c19_concurrent_vec_prefix_complete.

(** trace inclusion for the writers: an accepted log (cases_vec_*.v) is a run of the fetch_add
    system in which call c writes the c-th observed item list and receives the c-th observed start,
    every call has finished, and the final snapshot is the observed final vector *)
Theorem c19_writer_replay_sound : forall init ws final,
  WritersModel.check_case (init, ws, final) = true ->
  exists s, WritersModel.reachable (Writers.items_of ws) init s /\
    (forall c st, In (c, st) (WritersModel.resv s) ->
       WritersModel.pcs s c = WritersModel.CDone st /\ st = fst (nth c ws (0, []))) /\
    WritersModel.snapshot s = final.
Proof. exact Writers.writer_replay_sound. Qed.
Print Assumptions c19_writer_replay_sound.

(** NotificationList::notify between two resets: at quiescence the list holds exactly the ids that
    were notified, each exactly once (no lost notification, no duplicate), for any number of
    notifying threads and any interleaving of their load / swap / push steps *)
Theorem c19_notification_none_lost : forall n s, WritersModel.nreach n s ->
  (forall c, nth c (WritersModel.npcs s) WritersModel.NIdle = WritersModel.NIdle) ->
  forall k, (In k (WritersModel.nlist s) <-> In k (WritersModel.called s)) /\
            count_occ Nat.eq_dec (WritersModel.nlist s) k <= 1.
Proof. exact Writers.notification_none_lost. Qed.
Print Assumptions c19_notification_none_lost.

Example c19_writer_example :
  WritersModel.check_case ([9; 9], [(2, [1; 2; 3]); (5, []); (5, [4])], [9; 9; 1; 2; 3; 4]) = true.
Proof. vm_compute. reflexivity. Qed.
Example c19_writer_example_overlap :
  WritersModel.check_case ([9; 9], [(2, [1; 2; 3]); (4, [4])], [9; 9; 1; 2; 4]) = false.
Proof. vm_compute. reflexivity. Qed.

(* ------------------------------------------------------------------------------------------ *)
(** ** the whole pool: nested scopes and helping workers (Conc/NestedModel.v) *)
Require Verif.Conc.NestedModel Verif.Conc.Nested.

(** DEADLOCK-FREEDOM for every pool size W >= 1, any number N >= W of threads (threads W..N-1 are
    callers that are not pool workers and block without helping), any nesting depth: whenever a
    job is queued or some thread is inside a scope, a step is enabled. *)
Theorem c19_nested_progress : forall W N, 1 <= W <= N -> forall s, NestedModel.reachable W N s ->
  (NestedModel.queue s <> [] \/ exists t, nth t (NestedModel.stacks s) [] <> []) ->
  exists s', NestedModel.step W s s'.
Proof. exact Nested.nested_progress. Qed.
Print Assumptions c19_nested_progress.

(** and across the whole pool: once a scope's completion is signalled none of its jobs is queued
    and none of its bodies (tasks or root callback) is on any thread's stack *)
Theorem c19_nested_done_safe : forall W N, 1 <= W <= N -> forall s a, NestedModel.reachable W N s ->
  a < NestedModel.next s -> NestedModel.done s a = true ->
  count_occ Nat.eq_dec (NestedModel.queue s) a = 0 /\
  Nested.bcount a (concat (NestedModel.stacks s)) = 0.
Proof. exact Nested.nested_done_safe. Qed.
Print Assumptions c19_nested_done_safe.

(** non-vacuity: pool of ONE worker (thread 0) and one outside caller (thread 1); the caller's
    scope 0 spawns a task, the worker runs it, the task opens nested scope 1, spawns into it,
    finishes the nested root callback, waits, and HELPS by running the nested task on its own stack *)
Example c19_nested_example : exists s, NestedModel.reachable 1 2 s /\
  nth 0 (NestedModel.stacks s) [] = [NestedModel.FTask 1; NestedModel.FWait 1; NestedModel.FTask 0] /\
  nth 1 (NestedModel.stacks s) [] = [NestedModel.FRoot 0] /\ NestedModel.queue s = [].
Proof.
  pose proof (NestedModel.reach_init 1 2) as R0.
  eassert (R1 : NestedModel.reachable 1 2 _).
  { eapply NestedModel.reach_step; [exact R0|].
    eapply (NestedModel.NOpen 1 _ 1 []); [simpl; auto|reflexivity|reflexivity]. }
  cbv in R1.
  eassert (R2 : NestedModel.reachable 1 2 _).
  { eapply NestedModel.reach_step; [exact R1|].
    eapply (NestedModel.NSpawn 1 _ 1 (NestedModel.FRoot 0) [] 0); reflexivity. }
  cbv in R2.
  eassert (R3 : NestedModel.reachable 1 2 _).
  { eapply NestedModel.reach_step; [exact R2|].
    eapply (NestedModel.NStart 1 _ 0 0 [] []); [auto|simpl; auto|reflexivity|reflexivity]. }
  cbv in R3.
  eassert (R4 : NestedModel.reachable 1 2 _).
  { eapply NestedModel.reach_step; [exact R3|].
    eapply (NestedModel.NOpen 1 _ 0 [NestedModel.FTask 0]); [simpl; auto|reflexivity|reflexivity]. }
  cbv in R4.
  eassert (R5 : NestedModel.reachable 1 2 _).
  { eapply NestedModel.reach_step; [exact R4|].
    eapply (NestedModel.NSpawn 1 _ 0 (NestedModel.FRoot 1) [NestedModel.FTask 0] 1); reflexivity. }
  cbv in R5.
  eassert (R6 : NestedModel.reachable 1 2 _).
  { eapply NestedModel.reach_step; [exact R5|].
    eapply (NestedModel.NFinishRoot 1 _ 0 1 [NestedModel.FTask 0]); reflexivity. }
  cbv in R6.
  eassert (R7 : NestedModel.reachable 1 2 _).
  { eapply NestedModel.reach_step; [exact R6|].
    eapply (NestedModel.NHelp 1 _ 0 1 [NestedModel.FTask 0] 1 [] []); [auto|reflexivity|reflexivity]. }
  cbv in R7.
  eexists. split; [exact R7|]. cbv. repeat split.
Qed.
