(** C20: the reviewed classification of the regenerated inventories of gen/DetFacts.v.

    [iter_sites] (translator/src/x_det.rs) lists every iteration over a hash-based container the syn
    scan can type, with the class the container name resolves to in that file. A site of class
    [CInsertionOrdered] or [CFixedBucket] needs no review: Det/IterProofs.v proves that what such an
    iteration shows is the same in every process ([det_class_sound] below). Every OTHER site
    (sharded / raw / library-default / std / im / unknown hashers, and map-only methods on receivers
    the scan cannot type) must appear, with its count, in [reviewed_sites]; a new one falsifies
    [iter_sites_classified_true] until it has been looked at and added here with its reason.
    [nd_sources] (clock, rng, CPU count, pointer formatting, environment, pid, raw addresses) must be
    EQUAL to the reviewed table [nd_reviewed]. *)
From Coq Require Import List String Bool Arith.
Import ListNotations.
Require Import Verif.gen.DetFacts Verif.Det.IterModel Verif.Det.IterProofs.
Open Scope string_scope.

Definition cclass_eqb (a b : cclass) : bool :=
  match a, b with
  | CInsertionOrdered, CInsertionOrdered | CFixedBucket, CFixedBucket | CRawTable, CRawTable
  | CShardedFixed, CShardedFixed | CLibDefault, CLibDefault | CImRandom, CImRandom
  | CStdRandom, CStdRandom | CUnknown, CUnknown | CUntyped, CUntyped => true
  | _, _ => false
  end.

(** classes for which iteration order is the same in every process, by theorem *)
Definition class_det (c : cclass) : bool :=
  match c with CInsertionOrdered | CFixedBucket => true | _ => false end.

(** which models a source class stands for: an insertion-ordered container with ANY hasher family
    and initial capacity (even environment-dependent ones); a bucket-ordered table whose hasher and
    capacity policy are constants of the program *)
Definition class_models (c : cclass) (m : cmodel) : Prop :=
  match c with
  | CInsertionOrdered => exists hf nb0, m = MInsertionOrdered hf nb0
  | CFixedBucket => exists h pol, m = MBucket (fun _ => h) (fun _ => pol)
  | _ => False
  end.

Lemma det_class_sound : forall c m, class_det c = true -> class_models c m ->
  forall e1 e2 ops, observe m e1 ops = observe m e2 ops.
Proof.
  intros c m Hd Hm. apply observe_env_independent.
  destruct c; try discriminate; simpl in Hm.
  - destruct Hm as [hf [nb0 ->]]. exact I.
  - destruct Hm as [h [pol ->]]. simpl. split; reflexivity.
Qed.

(** the classes that are NOT covered have models that are refuted (Det/IterProofs.v) *)
Lemma random_class_refuted :
  exists m e1 e2 ops, (exists hf pol, m = MBucket hf pol) /\ observe m e1 ops <> observe m e2 ops.
Proof.
  destruct seeded_bucket_order_refuted as [e1 [e2 [ops H]]].
  exists class_seeded_bucket, e1, e2, ops. split; [eexists; eexists; reflexivity | exact H].
Qed.

Definition site := (string * string * string * cclass * nat)%type.

Definition site_eqb (a b : site) : bool :=
  match a, b with
  | (f1, g1, w1, c1, n1), (f2, g2, w2, c2, n2) =>
      String.eqb f1 f2 && String.eqb g1 g2 && String.eqb w1 w2 && cclass_eqb c1 c2 && Nat.eqb n1 n2
  end.

Definition site_class (s : site) : cclass := match s with (_, _, _, c, _) => c end.

(** REVIEWED sites outside the two theorem-backed classes (file, fn, site, class, count). *)
Definition reviewed_sites : list site := [
  (* walks the shards of the container DashMap; since e06d847 (finding F13) the dirty parent rows are refreshed in ascending row order, so the walk order is not observable *)
  ("core-relations/src/containers/mod.rs", "apply_rebuild_incremental", "self.to_id.shards_mut()", CShardedFixed, 1);
  (* same: rows are sorted before the refresh (e06d847) *)
  ("core-relations/src/containers/mod.rs", "apply_rebuild_nonincremental", "self.to_id.shards_mut()", CShardedFixed, 1);
  (* parallel rebuild, only taken with more than one thread *)
  ("core-relations/src/containers/mod.rs", "apply_rebuild_nonincremental_parallel", "self.to_id.shards()", CShardedFixed, 1);
  (* parallel rebuild, only taken with more than one thread *)
  ("core-relations/src/containers/mod.rs", "apply_rebuild_nonincremental_parallel", "self.to_id.shards_mut()", CShardedFixed, 1);
  (* ContainerValues::for_each over the DashMap: no caller in non-test engine code prints in this order (h_repro container family, 1/2-CPU children) *)
  ("core-relations/src/containers/mod.rs", "for_each", "env.to_id.iter()", CShardedFixed, 1);
  (* indexes ONE shard (shards()[target_map]); no walk *)
  ("core-relations/src/containers/mod.rs", "get_container", "self.to_id.shards()", CShardedFixed, 1);
  (* self.keys() is a sorted slice (binary search), not a hash container *)
  ("core-relations/src/free_join/execute.rs", "get_subset", "self.keys()", CUntyped, 1);
  (* field-name collision: binding_info.materializations is an IndexMap (insertion-ordered); the DashMap of the same name belongs to the multi-threaded ScopedMaterializer *)
  ("core-relations/src/free_join/execute.rs", "run_plan", "cover_mat.iter()", CShardedFixed, 3);
  (* dash_rule_reports: multi-threaded branch only, collected into a map; rule_set.plans is a DenseIdMap (id order) *)
  ("core-relations/src/free_join/execute.rs", "run_rule_set", "dash_rule_reports.iter()", CShardedFixed, 1);
  (* dash_rule_reports: multi-threaded branch only, collected into a map; rule_set.plans is a DenseIdMap (id order) *)
  ("core-relations/src/free_join/execute.rs", "run_rule_set", "rule_set.plans.values()", CUntyped, 4);
  (* tables_merging is a DenseIdMap (id order) *)
  ("core-relations/src/free_join/mod.rs", "merge_all", "tables_merging.drain()", CUntyped, 1);
  (* drains a raw hashbrown table to recycle its buffers; order not used *)
  ("core-relations/src/hash_index/mod.rs", "clear", "shard.table.hash.drain()", CRawTable, 1);
  (* raw hashbrown HashTable whose hashes come from the unseeded FxHasher: bucket order = function of (history, hash values, capacity), shard count = thread count = 1 *)
  ("core-relations/src/hash_index/mod.rs", "for_each", "shard.table.hash.iter()", CRawTable, 1);
  (* split is an IdVec (index order) *)
  ("core-relations/src/hash_index/mod.rs", "merge_parallel", "split.drain()", CUntyped, 2);
  (* NOT reproducible: hashbrown::HashMap with its default (per-process seeded) hasher; reaches only the Rust API Read::table_sizes / tables / eclass_enodes, no command output (reported as a finding candidate) *)
  ("egglog-bridge/src/lib.rs", "table_sizes", "self.table_actions.iter()", CLibDefault, 1);
  (* field-name collision: this `vars` is a DenseIdMap (id order); the HashMap named vars lives in macros.rs *)
  ("egglog-bridge/src/rule.rs", "query_state", "self.vars.iter()", CLibDefault, 1);
  (* into_values() of a typed key wrapper (array of values), not a hash container *)
  ("src/exec_state.rs", "add", "inputs.into_values()", CUntyped, 1);
  (* into_values() of a typed key wrapper (array of values), not a hash container *)
  ("src/exec_state.rs", "contains", "key.into_values()", CUntyped, 1);
  (* into_values() of a typed key wrapper (array of values), not a hash container *)
  ("src/exec_state.rs", "eclass_of", "inputs.into_values()", CUntyped, 1);
  (* into_values() of a typed key wrapper (array of values), not a hash container *)
  ("src/exec_state.rs", "lookup", "key.into_values()", CUntyped, 1);
  (* into_values() of a typed key wrapper (array of values), not a hash container *)
  ("src/exec_state.rs", "remove", "key.into_values()", CUntyped, 1);
  (* into_values() of a typed key wrapper (array of values), not a hash container *)
  ("src/exec_state.rs", "set", "key.into_values()", CUntyped, 1);
  (* into_values() of a typed key wrapper (array of values), not a hash container *)
  ("src/exec_state.rs", "subsume", "key.into_values()", CUntyped, 1);
  (* rules is an IndexMap reached through a pattern binding (insertion order) *)
  ("src/lib.rs", "collect_rule_ids", "rules.values()", CUntyped, 1);
  (* order-insensitive in-place map over the values *)
  ("src/proofs/proof_simplification.rs", "map_terms_mut", "substitution.values_mut()", CUntyped, 1);
  (* BTreeMap (key order) *)
  ("src/sort/map.rs", "rebuild_contents", "self.data.values_mut()", CUntyped, 1);
  (* BTreeMap-backed multiset (key order) *)
  ("src/sort/multiset.rs", "intersection", "new_map.values()", CUntyped, 1);
  (* BTreeMap-backed multiset (key order) *)
  ("src/sort/multiset.rs", "pick", "self.0.keys()", CUntyped, 1)
].

Definition site_ok (s : site) : bool :=
  class_det (site_class s) || existsb (site_eqb s) reviewed_sites.

Definition iter_sites_classified : bool := forallb site_ok iter_sites.

Lemma iter_sites_classified_true : iter_sites_classified = true.
Proof. vm_compute. reflexivity. Qed.

Lemma iter_sites_classified_spec : forall s, In s iter_sites ->
  class_det (site_class s) = true \/ In s reviewed_sites.
Proof.
  intros s Hin. pose proof iter_sites_classified_true as H. unfold iter_sites_classified in H.
  rewrite forallb_forall in H. specialize (H _ Hin). unfold site_ok in H.
  apply orb_true_iff in H. destruct H as [H|H]; [left; exact H|right].
  apply existsb_exists in H. destruct H as [r [Hr He]].
  assert (s = r); [|subst; exact Hr].
  destruct s as [[[[f1 g1] w1] c1] n1], r as [[[[f2 g2] w2] c2] n2]. simpl in He.
  repeat (apply andb_true_iff in He; destruct He as [He ?]).
  apply String.eqb_eq in He. apply String.eqb_eq in H2. apply String.eqb_eq in H1.
  apply Nat.eqb_eq in H. subst.
  destruct c1, c2; try discriminate; reflexivity.
Qed.

(** no reviewed entry is stale: each one is a site of the current source *)
Definition reviewed_all_current : bool := forallb (fun r => existsb (site_eqb r) iter_sites) reviewed_sites.
Lemma reviewed_all_current_true : reviewed_all_current = true.
Proof. vm_compute. reflexivity. Qed.

(** every alias of the engine crates resolves to a theorem-backed class or to the fixed-hasher
    sharded map (whose walks are the reviewed sites above) *)
Definition alias_ok (a : string * string * cclass) : bool :=
  match snd a with CInsertionOrdered | CFixedBucket | CShardedFixed => true | _ => false end.
Definition det_aliases_ok : bool := forallb alias_ok det_aliases.
Lemma det_aliases_ok_true : det_aliases_ok = true.
Proof. vm_compute. reflexivity. Qed.

(* ------------------------------------------------------------------------------------------- *)
(** * other sources of run-to-run variation *)

Definition nd_kind_eqb (a b : nd_kind) : bool :=
  match a, b with
  | NdClock, NdClock | NdRng, NdRng | NdHostCpus, NdHostCpus | NdPoolSize, NdPoolSize | NdPtrFmt, NdPtrFmt | NdEnv, NdEnv
  | NdPid, NdPid | NdAddr, NdAddr => true
  | _, _ => false
  end.

Definition nd_eqb (a b : string * nd_kind * nat) : bool :=
  String.eqb (fst (fst a)) (fst (fst b)) && nd_kind_eqb (snd (fst a)) (snd (fst b)) && Nat.eqb (snd a) (snd b).

Fixpoint nd_list_eqb (l1 l2 : list (string * nd_kind * nat)) : bool :=
  match l1, l2 with
  | [], [] => true
  | a :: t1, b :: t2 => nd_eqb a b && nd_list_eqb t1 t2
  | _, _ => false
  end.

(** REVIEWED table: (file, kind, count). No rng, pointer formatting or pid read exists. *)
Definition nd_reviewed : list (string * nd_kind * nat) := [
  (* raw-pointer plumbing of buffers (as_ptr / addr_of / into_raw): addresses are dereferenced, never compared, hashed, ordered or printed *)
  ("concurrency/src/concurrent_vec.rs", NdAddr, 2);
  (* raw-pointer plumbing of buffers (as_ptr / addr_of / into_raw): addresses are dereferenced, never compared, hashed, ordered or printed *)
  ("concurrency/src/lib.rs", NdAddr, 1);
  (* raw-pointer plumbing of buffers (as_ptr / addr_of / into_raw): addresses are dereferenced, never compared, hashed, ordered or printed *)
  ("concurrency/src/parallel_writer.rs", NdAddr, 5);
  (* raw-pointer plumbing of buffers (as_ptr / addr_of / into_raw): addresses are dereferenced, never compared, hashed, ordered or printed *)
  ("concurrency/src/shared_arena.rs", NdAddr, 1);
  (* raw-pointer plumbing of buffers (as_ptr / addr_of / into_raw): addresses are dereferenced, never compared, hashed, ordered or printed *)
  ("core-relations/src/containers/mod.rs", NdAddr, 1);
  (* Instant::now feeding the timing fields of run reports only (compared with durations zeroed) *)
  ("core-relations/src/free_join/execute.rs", NdClock, 4);
  (* TrieCache shard count = current_num_threads (pool size, 1 in the single-threaded configuration), not the host CPU count *)
  ("core-relations/src/free_join/execute.rs", NdPoolSize, 1);
  (* index shard / pool sizing from current_num_threads (= 1) *)
  ("core-relations/src/hash_index/mod.rs", NdPoolSize, 2);
  (* tuning knobs read once (parallelism cut-offs); unset in the single-threaded configuration, and they steer WHEN to parallelise, not results *)
  ("core-relations/src/parallel.rs", NdEnv, 1);
  (* the wrapper over the pool size used by every parallel heuristic *)
  ("core-relations/src/parallel.rs", NdPoolSize, 3);
  (* tuning knobs read once (parallelism cut-offs); unset in the single-threaded configuration, and they steer WHEN to parallelise, not results *)
  ("core-relations/src/parallel_heuristics.rs", NdEnv, 1);
  (* parallelise only when current_num_threads > 1 *)
  ("core-relations/src/parallel_heuristics.rs", NdPoolSize, 1);
  (* raw-pointer plumbing of buffers (as_ptr / addr_of / into_raw): addresses are dereferenced, never compared, hashed, ordered or printed *)
  ("core-relations/src/row_buffer/mod.rs", NdAddr, 5);
  (* raw-pointer plumbing of buffers (as_ptr / addr_of / into_raw): addresses are dereferenced, never compared, hashed, ordered or printed *)
  ("core-relations/src/table/mod.rs", NdAddr, 1);
  (* shard count from current_num_threads (= 1) *)
  ("core-relations/src/table/sharded_hash_table.rs", NdPoolSize, 1);
  (* Instant::now feeding the timing fields of run reports only (compared with durations zeroed) *)
  ("egglog-bridge/src/lib.rs", NdClock, 3);
  (* available_parallelism sizes the DEFAULT thread pool of EGraph construction (the single-threaded configuration fixes the pool to 1), and current_num_threads > 1 gates the parallel rebuild *)
  ("egglog-bridge/src/lib.rs", NdHostCpus, 1);
  (* current_num_threads > 1 gates the parallel rebuild *)
  ("egglog-bridge/src/lib.rs", NdPoolSize, 1)
].

Definition nd_sources_reviewed : bool := nd_list_eqb nd_sources nd_reviewed.
Lemma nd_sources_reviewed_true : nd_sources_reviewed = true.
Proof. vm_compute. reflexivity. Qed.

(** consequences read off the reviewed table: no rng / pointer formatting / pid anywhere, and the
    HOST CPU count ([available_parallelism]) is read in one file only *)
Definition nd_kind_absent (k : nd_kind) : bool :=
  forallb (fun r => negb (nd_kind_eqb (snd (fst r)) k)) nd_sources.
Lemma nd_no_rng_ptrfmt_pid :
  nd_kind_absent NdRng = true /\ nd_kind_absent NdPtrFmt = true /\ nd_kind_absent NdPid = true.
Proof. vm_compute. repeat split. Qed.

(** the HOST CPU count is read in exactly one place: the sizing of the default thread pool *)
Definition host_cpu_reads : list (string * nd_kind * nat) :=
  filter (fun r => nd_kind_eqb (snd (fst r)) NdHostCpus) nd_sources.
Lemma host_cpu_reads_only_pool_default : host_cpu_reads = [("egglog-bridge/src/lib.rs", NdHostCpus, 1)].
Proof. vm_compute. reflexivity. Qed.

Lemma scans_nonempty : 50 <= iter_sites_files_scanned /\ 50 <= nd_sources_files_scanned /\ 50 <= List.length iter_sites.
Proof. vm_compute. repeat split; repeat constructor. Qed.
