//! Extension module (Tier A, C07). Output: coq/gen/ExtractFns.v
//! Contract: return (text of the .v file, report lines). Each report line is one JSON object
//! {"item":"ExtractFns.<name>","file":"<rust file>","ok":true|false[,"error":"..."]}.
//! Fail closed: when a site is not recognised, OMIT the Gallina definition (so dependent proofs stop
//! compiling) and push an ok:false report line.
//!
//! Regenerated from /repo/src/extract.rs (the arithmetic the default extractor really uses):
//!   * `cost_identity`, `cost_unit`, `cost_combine`  <- `macro_rules! cost_impl_int` (the `impl Cost for
//!     $cost` body, instantiated at `u64` = `DefaultCost`; the invocation must list `u64`);
//!   * `tac_fold`                 <- `impl CostModel<DefaultCost> for TreeAdditiveCostModel { fn fold }`;
//!   * `container_cost_default`   <- default method `CostModel::container_cost`;
//!   * `base_value_cost_default`  <- default method `CostModel::base_value_cost`;
//!   * `relax_vacant_updates`, `relax_improves` <- the `match … entry(*target)` inside the closure
//!     `relax_hyperedge` of `Extractor::bellman_ford` (Vacant arm sets `updated`; the comparison of
//!     the Occupied arm, operator and operands);
//!   * `parent_cost_matches`, `rank_guard`, `parent_first_wins` <- the closure `save_best_parent_edge`
//!     (the `Some(best_cost.clone()) == compute_cost_hyperedge(..)` test, the comparison between
//!     `target_topo_rnk` and `compute_topo_rnk_hyperedge(..)`, insertion only into a Vacant entry);
//!   * `rank_init`, `rank_combine`, `rank_prim` <- `compute_topo_rnk_hyperedge` / `compute_topo_rnk_node`
//!     (`fold(0, |ret, ..| usize::max(ret, ..))` in both, `0` for primitives).
//! Expression subset: identifiers bound by the signature / closure, integer literals, `&e`, `*e`,
//! `(e)`, `e.clone()`, `a.combine(b)`, `a.saturating_add(b)`, `a.wrapping_add(b)`, `a + b`,
//! `a.max(b)`, `a.min(b)`, `T::identity()`, `T::unit()`, `usize::max(a, b)`,
//! `xs.iter().fold(init, |s, c| body)`.  Everything else is an error for that item.
use quote::ToTokens;
use std::path::Path;
use syn::{BinOp, Expr, ImplItem, Item, Pat, Stmt, TraitItem};

type R<T> = Result<T, String>;
const FILE: &str = "src/extract.rs";

fn norm<T: ToTokens>(t: &T) -> String {
    t.to_token_stream().to_string().chars().filter(|c| !c.is_whitespace()).collect()
}

fn jesc(s: &str) -> String {
    s.replace('\\', "\\\\").replace('"', "\\\"").replace('\n', " ")
}

// ------------------------------------------------------------------------------ expressions

#[derive(Clone, Copy, PartialEq)]
enum Ty {
    Cost,
    Rank,
}

struct Env {
    vars: Vec<(String, String)>,
    ty: Ty,
}

impl Env {
    fn get(&self, n: &str) -> Option<&str> {
        self.vars.iter().rev().find(|(k, _)| k == n).map(|(_, v)| v.as_str())
    }
}

fn strip(e: &Expr) -> &Expr {
    match e {
        Expr::Paren(p) => strip(&p.expr),
        Expr::Group(g) => strip(&g.expr),
        Expr::Reference(r) => strip(&r.expr),
        Expr::Unary(u) if matches!(u.op, syn::UnOp::Deref(_)) => strip(&u.expr),
        Expr::MethodCall(m) if m.method == "clone" && m.args.is_empty() => strip(&m.receiver),
        _ => e,
    }
}

fn tr(e: &Expr, env: &Env) -> R<String> {
    let e = strip(e);
    match e {
        Expr::Path(p) if p.path.segments.len() == 1 => {
            let n = p.path.segments[0].ident.to_string();
            env.get(&n).map(|s| s.to_string()).ok_or_else(|| format!("unbound name `{n}`"))
        }
        Expr::Lit(l) => match &l.lit {
            syn::Lit::Int(i) => Ok(match env.ty {
                Ty::Cost => format!("{}%N", i.base10_digits()),
                Ty::Rank => format!("{}%nat", i.base10_digits()),
            }),
            _ => Err("unsupported literal".into()),
        },
        Expr::Call(c) => {
            let f = norm(&c.func);
            let last = f.rsplit("::").next().unwrap_or("").to_string();
            if c.args.is_empty() && last == "identity" && env.ty == Ty::Cost {
                Ok("cost_identity".into())
            } else if c.args.is_empty() && last == "unit" && env.ty == Ty::Cost {
                Ok("cost_unit".into())
            } else if f == "usize::max" && c.args.len() == 2 && env.ty == Ty::Rank {
                Ok(format!("(Nat.max {} {})", tr(&c.args[0], env)?, tr(&c.args[1], env)?))
            } else if f == "usize::min" && c.args.len() == 2 && env.ty == Ty::Rank {
                Ok(format!("(Nat.min {} {})", tr(&c.args[0], env)?, tr(&c.args[1], env)?))
            } else {
                Err(format!("unsupported call `{f}`"))
            }
        }
        Expr::Binary(b) if matches!(b.op, BinOp::Add(_)) && env.ty == Ty::Cost => {
            Ok(format!("({} + {})%N", tr(&b.left, env)?, tr(&b.right, env)?))
        }
        Expr::MethodCall(m) => {
            let name = m.method.to_string();
            // xs.iter().fold(init, |s, c| body)
            if name == "fold" && m.args.len() == 2 {
                let recv = match strip(&m.receiver) {
                    Expr::MethodCall(i) if i.method == "iter" && i.args.is_empty() => tr(&i.receiver, env)?,
                    _ => return Err("fold over something that is not `<slice>.iter()`".into()),
                };
                let init = tr(&m.args[0], env)?;
                let cl = match strip(&m.args[1]) {
                    Expr::Closure(c) => c,
                    _ => return Err("fold step is not a closure".into()),
                };
                if cl.inputs.len() != 2 {
                    return Err("fold closure must take two parameters".into());
                }
                let mut names = Vec::new();
                for p in cl.inputs.iter() {
                    match p {
                        Pat::Ident(pi) if pi.by_ref.is_none() && pi.subpat.is_none() => names.push(pi.ident.to_string()),
                        _ => return Err("fold closure parameter is not a plain identifier".into()),
                    }
                }
                let mut vars = env.vars.clone();
                for n in &names {
                    vars.push((n.clone(), format!("{n}_")));
                }
                let body = tr(&cl.body, &Env { vars, ty: env.ty })?;
                return Ok(format!("(fold_left (fun {}_ {}_ => {}) {} {})", names[0], names[1], body, recv, init));
            }
            if m.args.len() != 1 {
                return Err(format!("unsupported method `{name}`"));
            }
            let a = tr(&m.receiver, env)?;
            let b = tr(&m.args[0], env)?;
            match (name.as_str(), env.ty) {
                ("combine", Ty::Cost) => Ok(format!("(cost_combine {a} {b})")),
                ("saturating_add", Ty::Cost) => Ok(format!("(N.min ({a} + {b}) u64_max)")),
                ("wrapping_add", Ty::Cost) => Ok(format!("(N.modulo ({a} + {b}) (N.succ u64_max))")),
                ("max", Ty::Cost) => Ok(format!("(N.max {a} {b})")),
                ("min", Ty::Cost) => Ok(format!("(N.min {a} {b})")),
                ("max", Ty::Rank) => Ok(format!("(Nat.max {a} {b})")),
                ("min", Ty::Rank) => Ok(format!("(Nat.min {a} {b})")),
                _ => Err(format!("unsupported method `{name}`")),
            }
        }
        other => Err(format!("unsupported expression `{}`", norm(other))),
    }
}

/// body of a method: optional `let _x = y;` no-op statements, then one tail expression
fn tail_expr(block: &syn::Block) -> R<&Expr> {
    let n = block.stmts.len();
    for (i, s) in block.stmts.iter().enumerate() {
        match s {
            Stmt::Expr(e, None) if i + 1 == n => return Ok(e),
            Stmt::Local(l) => {
                let ok = matches!(&l.pat, Pat::Ident(pi) if pi.ident.to_string().starts_with('_'))
                    && l.init.as_ref().map_or(false, |init| init.diverge.is_none() && matches!(&*init.expr, Expr::Path(_)));
                if !ok {
                    return Err(format!("unsupported statement `{}`", norm(s)));
                }
            }
            _ => return Err(format!("unsupported statement `{}`", norm(s))),
        }
    }
    Err("no tail expression".into())
}

/// parameters of a signature that carry costs: `&[C]` -> list N, `C` / `DefaultCost` -> N
fn cost_params(sig: &syn::Signature) -> Vec<(String, String)> {
    let mut v = Vec::new();
    for a in sig.inputs.iter() {
        if let syn::FnArg::Typed(pt) = a {
            if let Pat::Ident(pi) = &*pt.pat {
                let t = norm(&pt.ty);
                let coq = match t.as_str() {
                    "&[C]" | "&[DefaultCost]" | "&[u64]" => "list N",
                    "C" | "DefaultCost" | "u64" => "N",
                    _ => continue,
                };
                v.push((pi.ident.to_string(), coq.to_string()));
            }
        }
    }
    v
}

fn def_from_method(name: &str, sig: &syn::Signature, block: &syn::Block) -> R<String> {
    let params = cost_params(sig);
    let env = Env { vars: params.iter().map(|(n, _)| (n.clone(), n.clone())).collect(), ty: Ty::Cost };
    let body = tr(tail_expr(block)?, &env)?;
    let ps: Vec<String> = params.iter().map(|(n, t)| format!("({n} : {t})")).collect();
    Ok(format!("Definition {name} {} : N :=\n  {body}.\n", ps.join(" ")))
}

// ------------------------------------------------------------------------------ macro body

fn subst_dollar(ts: proc_macro2::TokenStream, var: &str, with: &str) -> proc_macro2::TokenStream {
    use proc_macro2::{Group, Ident, Span, TokenTree};
    let toks: Vec<TokenTree> = ts.into_iter().collect();
    let mut out: Vec<TokenTree> = Vec::new();
    let mut i = 0;
    while i < toks.len() {
        match (&toks[i], toks.get(i + 1)) {
            (TokenTree::Punct(p), Some(TokenTree::Ident(id))) if p.as_char() == '$' && id == var => {
                out.push(TokenTree::Ident(Ident::new(with, Span::call_site())));
                i += 2;
            }
            (TokenTree::Group(g), _) => {
                out.push(TokenTree::Group(Group::new(g.delimiter(), subst_dollar(g.stream(), var, with))));
                i += 1;
            }
            (t, _) => {
                out.push(t.clone());
                i += 1;
            }
        }
    }
    out.into_iter().collect()
}

/// `macro_rules! cost_impl_int { ($($cost:ty),*) => {$( impl Cost for $cost {..} )*}; }` -> the impl at u64
fn cost_impl_u64(file: &syn::File) -> R<syn::ItemImpl> {
    use proc_macro2::{Delimiter, TokenTree};
    let mac = file
        .items
        .iter()
        .find_map(|it| match it {
            Item::Macro(m) if m.ident.as_ref().map_or(false, |i| i == "cost_impl_int") => Some(m),
            _ => None,
        })
        .ok_or("macro_rules! cost_impl_int not found")?;
    let toks: Vec<TokenTree> = mac.mac.tokens.clone().into_iter().collect();
    // exactly one rule: (matcher) => { transcriber } ;
    let braces: Vec<&proc_macro2::Group> = toks
        .iter()
        .filter_map(|t| match t {
            TokenTree::Group(g) if g.delimiter() == Delimiter::Brace => Some(g),
            _ => None,
        })
        .collect();
    if braces.len() != 1 {
        return Err("cost_impl_int: expected exactly one rule with a `{..}` transcriber".into());
    }
    let matcher = toks
        .iter()
        .find_map(|t| match t {
            TokenTree::Group(g) if g.delimiter() == Delimiter::Parenthesis => Some(norm(&g.stream())),
            _ => None,
        })
        .unwrap_or_default();
    if matcher != "$($cost:ty),*" {
        return Err(format!("cost_impl_int: unexpected matcher `{matcher}`"));
    }
    let body: Vec<TokenTree> = braces[0].stream().into_iter().collect();
    // $( impl .. )*
    if body.len() != 3 || !matches!(&body[0], TokenTree::Punct(p) if p.as_char() == '$') || !matches!(&body[2], TokenTree::Punct(p) if p.as_char() == '*') {
        return Err("cost_impl_int: transcriber is not a single `$( .. )*` repetition".into());
    }
    let inner = match &body[1] {
        TokenTree::Group(g) if g.delimiter() == Delimiter::Parenthesis => g.stream(),
        _ => return Err("cost_impl_int: transcriber is not a single `$( .. )*` repetition".into()),
    };
    let inst = subst_dollar(inner, "cost", "u64");
    let imp: syn::ItemImpl = syn::parse2(inst).map_err(|e| format!("cost_impl_int body does not parse as an impl: {e}"))?;
    let tr_name = imp.trait_.as_ref().map(|(_, p, _)| norm(p)).unwrap_or_default();
    if tr_name != "Cost" || norm(&imp.self_ty) != "u64" {
        return Err("cost_impl_int body is not `impl Cost for $cost`".into());
    }
    // the invocation must instantiate u64, and DefaultCost must be u64
    let invoked = file.items.iter().any(|it| match it {
        Item::Macro(m) if m.ident.is_none() && norm(&m.mac.path) == "cost_impl_int" => {
            m.mac.tokens.clone().into_iter().any(|t| matches!(&t, TokenTree::Ident(i) if i == "u64"))
        }
        _ => false,
    });
    if !invoked {
        return Err("no `cost_impl_int!(.. u64 ..)` invocation".into());
    }
    let dc = file.items.iter().any(|it| matches!(it, Item::Type(t) if t.ident == "DefaultCost" && norm(&t.ty) == "u64"));
    if !dc {
        return Err("`pub type DefaultCost = u64;` not found".into());
    }
    // no other `impl Cost for u64`
    Ok(imp)
}

fn impl_method<'a>(imp: &'a syn::ItemImpl, name: &str) -> R<&'a syn::ImplItemFn> {
    imp.items
        .iter()
        .find_map(|i| match i {
            ImplItem::Fn(f) if f.sig.ident == name => Some(f),
            _ => None,
        })
        .ok_or_else(|| format!("method `{name}` not found"))
}

// ------------------------------------------------------------------------------ closures of bellman_ford

fn find_closure<'a>(block: &'a syn::Block, name: &str) -> Option<&'a syn::ExprClosure> {
    struct V<'a> {
        name: String,
        found: Option<&'a syn::ExprClosure>,
    }
    impl<'a> syn::visit::Visit<'a> for V<'a> {
        fn visit_local(&mut self, l: &'a syn::Local) {
            if let (Pat::Ident(pi), Some(init)) = (&l.pat, &l.init) {
                if pi.ident == self.name.as_str() {
                    if let Expr::Closure(c) = &*init.expr {
                        if self.found.is_none() {
                            self.found = Some(c);
                        }
                    }
                }
            }
            syn::visit::visit_local(self, l);
        }
    }
    let mut v = V { name: name.to_string(), found: None };
    syn::visit::Visit::visit_block(&mut v, block);
    v.found
}

fn collect_exprs<'a>(e: &'a Expr, pred: &dyn Fn(&Expr) -> bool, out: &mut Vec<&'a Expr>) {
    struct V<'a, 'p> {
        pred: &'p dyn Fn(&Expr) -> bool,
        out: Vec<&'a Expr>,
    }
    impl<'a, 'p> syn::visit::Visit<'a> for V<'a, 'p> {
        fn visit_expr(&mut self, e: &'a Expr) {
            if (self.pred)(e) {
                self.out.push(e);
            }
            syn::visit::visit_expr(self, e);
        }
    }
    let mut v = V { pred, out: Vec::new() };
    syn::visit::Visit::visit_expr(&mut v, e);
    out.append(&mut v.out);
}

fn sets_updated(stmts: &[Stmt]) -> bool {
    stmts.iter().any(|s| norm(s) == "updated=true;")
}

fn cmp_def(op: &BinOp, l: &str, r: &str, nat: bool) -> R<String> {
    let (ltb, leb, eqb) = if nat { ("Nat.ltb", "Nat.leb", "Nat.eqb") } else { ("N.ltb", "N.leb", "N.eqb") };
    Ok(match op {
        BinOp::Lt(_) => format!("{ltb} {l} {r}"),
        BinOp::Le(_) => format!("{leb} {l} {r}"),
        BinOp::Gt(_) => format!("{ltb} {r} {l}"),
        BinOp::Ge(_) => format!("{leb} {r} {l}"),
        BinOp::Eq(_) => format!("{eqb} {l} {r}"),
        BinOp::Ne(_) => format!("negb ({eqb} {l} {r})"),
        _ => return Err("not a comparison operator".into()),
    })
}

/// the relaxation test: (relax_vacant_updates, relax_improves)
fn relax_defs(bf: &syn::ImplItemFn) -> R<String> {
    let cl = find_closure(&bf.block, "relax_hyperedge").ok_or("closure `relax_hyperedge` not found")?;
    let mut ms = Vec::new();
    collect_exprs(
        &cl.body,
        &|e| match e {
            Expr::Match(m) => m.arms.iter().any(|a| norm(&a.pat).starts_with("HEntry::")),
            _ => false,
        },
        &mut ms,
    );
    if ms.len() != 1 {
        return Err(format!("expected exactly one `match .. {{ HEntry::.. }}` in relax_hyperedge, found {}", ms.len()));
    }
    let m = match ms[0] {
        Expr::Match(m) => m,
        _ => unreachable!(),
    };
    if !norm(&m.expr).ends_with(".entry(*target)") || !norm(&m.expr).contains("self.costs") {
        return Err("the match scrutinee is not `self.costs…entry(*target)`".into());
    }
    if m.arms.len() != 2 {
        return Err("expected the two arms Vacant / Occupied".into());
    }
    let mut vacant = None;
    let mut improves = None;
    for a in &m.arms {
        if a.guard.is_some() {
            return Err("match arm with a guard".into());
        }
        let stmts = match &*a.body {
            Expr::Block(b) => &b.block.stmts,
            _ => return Err("match arm body is not a block".into()),
        };
        let p = norm(&a.pat);
        if p == "HEntry::Vacant(e)" {
            let ins = stmts.iter().any(|s| norm(s) == "e.insert(new_cost);");
            if !ins {
                return Err("Vacant arm does not insert new_cost".into());
            }
            vacant = Some(sets_updated(stmts));
        } else if p == "HEntry::Occupied(mute)" {
            if stmts.len() != 1 {
                return Err("Occupied arm is not a single `if`".into());
            }
            let iff = match &stmts[0] {
                Stmt::Expr(Expr::If(i), _) => i,
                _ => return Err("Occupied arm is not a single `if`".into()),
            };
            if iff.else_branch.is_some() {
                return Err("Occupied arm: `if` with else".into());
            }
            if !sets_updated(&iff.then_branch.stmts) || !iff.then_branch.stmts.iter().any(|s| norm(s) == "e.insert(new_cost);") {
                return Err("Occupied arm: then-branch does not set `updated` and insert new_cost".into());
            }
            let b = match strip(&iff.cond) {
                Expr::Binary(b) => b,
                _ => return Err("Occupied arm: condition is not a comparison".into()),
            };
            let role = |e: &Expr| -> R<&'static str> {
                match norm(e).as_str() {
                    "new_cost" => Ok("new_cost"),
                    "*(e.get())" | "*e.get()" => Ok("old_cost"),
                    o => Err(format!("Occupied arm: unexpected operand `{o}`")),
                }
            };
            let (l, r) = (role(&b.left)?, role(&b.right)?);
            if l == r {
                return Err("Occupied arm: both operands are the same".into());
            }
            improves = Some(cmp_def(&b.op, l, r, false)?);
        } else {
            return Err(format!("unexpected arm pattern `{p}`"));
        }
    }
    let vacant = vacant.ok_or("no Vacant arm")?;
    let improves = improves.ok_or("no Occupied arm")?;
    // the stamp: `if updated { ensure_fixpoint = false; self.topo_rnk_cnt += 1; …insert(*target, self.topo_rnk_cnt) }`
    let body = norm(&cl.body);
    if !body.contains("ifupdated{ensure_fixpoint=false;self.topo_rnk_cnt+=1;") || !body.contains(".insert(*target,self.topo_rnk_cnt);") {
        return Err("the `if updated { ensure_fixpoint = false; self.topo_rnk_cnt += 1; … }` stamp was not recognised".into());
    }
    Ok(format!(
        "(* Vacant arm: a class without cost takes the new cost and counts as an update *)\nDefinition relax_vacant_updates : bool := {}.\n(* Occupied arm: the condition of `if <cond> {{ updated = true; e.insert(new_cost); }}`{} *)\nDefinition relax_improves (new_cost old_cost : N) : bool :=\n  {}.\n",
        vacant,
        "",
        improves
    ))
}

/// save_best_parent_edge: (parent_cost_matches, rank_guard, parent_first_wins)
fn parent_defs(bf: &syn::ImplItemFn) -> R<String> {
    let cl = find_closure(&bf.block, "save_best_parent_edge").ok_or("closure `save_best_parent_edge` not found")?;
    let mut ifs = Vec::new();
    collect_exprs(&cl.body, &|e| matches!(e, Expr::If(_)), &mut ifs);
    // rank guard
    let mut guard = None;
    let mut cost_eq = None;
    let mut first_wins = false;
    for i in &ifs {
        let i = match i {
            Expr::If(i) => i,
            _ => unreachable!(),
        };
        let c = norm(&i.cond);
        if c.contains("target_topo_rnk") {
            let b = match strip(&i.cond) {
                Expr::Binary(b) => b,
                _ => return Err("rank guard is not a comparison".into()),
            };
            let role = |e: &Expr| -> R<&'static str> {
                let n = norm(e);
                if n == "target_topo_rnk" {
                    Ok("target_rnk")
                } else if n == "self.compute_topo_rnk_hyperedge(egraph,&row,func)" {
                    Ok("edge_rnk")
                } else {
                    Err(format!("rank guard: unexpected operand `{n}`"))
                }
            };
            let (l, r) = (role(&b.left)?, role(&b.right)?);
            if l == r || guard.is_some() || i.else_branch.is_some() {
                return Err("rank guard: unexpected shape".into());
            }
            guard = Some(cmp_def(&b.op, l, r, true)?);
        } else if c.contains("compute_cost_hyperedge") {
            // `let Some(best_cost) = self.costs…get(target) && Some(best_cost.clone()) == self.compute_cost_hyperedge(..)`
            let b = match &*i.cond {
                Expr::Binary(b) if matches!(b.op, BinOp::And(_)) => b,
                _ => return Err("cost test is not `let Some(best_cost) = .. && ..`".into()),
            };
            let l = norm(&b.left);
            if !(l.starts_with("letSome(best_cost)=self.costs.get(") && l.ends_with(".get(target)")) {
                return Err(format!("cost test: unexpected binding `{l}`"));
            }
            let eq = match strip(&b.right) {
                Expr::Binary(e) => e,
                _ => return Err("cost test: right conjunct is not a comparison".into()),
            };
            if !matches!(eq.op, BinOp::Eq(_)) {
                return Err("cost test: operator is not `==`".into());
            }
            let sides = [norm(&eq.left), norm(&eq.right)];
            let a = "Some(best_cost.clone())";
            let bb = "self.compute_cost_hyperedge(egraph,&row,func)";
            if !((sides[0] == a && sides[1] == bb) || (sides[0] == bb && sides[1] == a)) || cost_eq.is_some() || i.else_branch.is_some() {
                return Err(format!("cost test: unexpected operands `{}` / `{}`", sides[0], sides[1]));
            }
            cost_eq = Some(());
        } else if c.starts_with("letHEntry::Vacant(e)=self.parent_edge") && c.ends_with(".entry(*target)") {
            if i.else_branch.is_none() && norm(&i.then_branch).contains("e.insert((func.decl.name.clone(),row.vals.to_vec()))") {
                first_wins = true;
            }
        } else if c != "!row.subsumed" {
            return Err(format!("save_best_parent_edge: unrecognised condition `{c}`"));
        }
    }
    let guard = guard.ok_or("rank guard not found")?;
    cost_eq.ok_or("cost test not found")?;
    if !first_wins {
        return Err("`if let HEntry::Vacant(e) = self.parent_edge…entry(*target) { e.insert(..) }` not found".into());
    }
    Ok(format!(
        "(* `Some(best_cost.clone()) == self.compute_cost_hyperedge(..)` *)\nDefinition parent_cost_matches (best_cost : N) (edge_cost : option N) : bool :=\n  match edge_cost with Some c => N.eqb best_cost c | None => false end.\n(* the comparison between `target_topo_rnk` and `compute_topo_rnk_hyperedge(..)` *)\nDefinition rank_guard (target_rnk edge_rnk : nat) : bool :=\n  {guard}.\n(* the edge is inserted only into a Vacant entry: the first qualifying row in scan order wins *)\nDefinition parent_first_wins : bool := true.\n"
    ))
}

/// compute_topo_rnk_hyperedge / compute_topo_rnk_node: fold(0, |ret, ..| usize::max(ret, <rank of child>)), primitives 0
fn rank_defs(imp: &syn::ItemImpl) -> R<String> {
    let he = impl_method(imp, "compute_topo_rnk_hyperedge")?;
    let nd = impl_method(imp, "compute_topo_rnk_node")?;
    let mut out = Vec::new();
    for f in [he, nd] {
        let mut folds = Vec::new();
        for s in &f.block.stmts {
            if let Stmt::Expr(e, _) = s {
                collect_exprs(e, &|e| matches!(e, Expr::MethodCall(m) if m.method == "fold"), &mut folds);
            }
        }
        if folds.len() != 1 {
            return Err(format!("{}: expected one fold", f.sig.ident));
        }
        let m = match folds[0] {
            Expr::MethodCall(m) => m,
            _ => unreachable!(),
        };
        if m.args.len() != 2 {
            return Err("fold arity".into());
        }
        let init = norm(&m.args[0]);
        let cl = match &m.args[1] {
            Expr::Closure(c) => c,
            _ => return Err("fold step is not a closure".into()),
        };
        let first = cl.inputs.first().map(norm).unwrap_or_default();
        let body = match strip(&cl.body) {
            Expr::Block(b) if b.block.stmts.len() == 1 => match &b.block.stmts[0] {
                Stmt::Expr(e, None) => e.clone(),
                _ => return Err("fold body".into()),
            },
            e => e.clone(),
        };
        let c = match &body {
            Expr::Call(c) => c,
            _ => return Err(format!("{}: fold body is not a call", f.sig.ident)),
        };
        let fname = norm(&c.func);
        if c.args.len() != 2 || norm(&c.args[0]) != first || !norm(&c.args[1]).starts_with("self.compute_topo_rnk_node(egraph,*value,sort)") {
            return Err(format!("{}: fold body is not `f(ret, self.compute_topo_rnk_node(egraph, *value, sort))`", f.sig.ident));
        }
        out.push((init, fname));
    }
    if out[0] != out[1] {
        return Err("hyperedge and container rank folds differ".into());
    }
    let init: u64 = out[0].0.parse().map_err(|_| format!("rank fold init `{}` is not a literal", out[0].0))?;
    let comb = match out[0].1.as_str() {
        "usize::max" => "Nat.max ret r",
        "usize::min" => "Nat.min ret r",
        o => return Err(format!("rank fold combines with `{o}`")),
    };
    // primitive branch of compute_topo_rnk_node: the final `else { <lit> }`
    let tail = match nd.block.stmts.last() {
        Some(Stmt::Expr(Expr::If(i), None)) => i,
        _ => return Err("compute_topo_rnk_node: body is not an if-chain".into()),
    };
    if norm(&tail.cond) != "sort.is_container_sort()" {
        return Err("compute_topo_rnk_node: first test is not is_container_sort".into());
    }
    let second = match tail.else_branch.as_ref().map(|(_, e)| &**e) {
        Some(Expr::If(i)) if norm(&i.cond) == "sort.is_eq_sort()" => i,
        _ => return Err("compute_topo_rnk_node: second test is not is_eq_sort".into()),
    };
    let prim = match second.else_branch.as_ref().map(|(_, e)| &**e) {
        Some(Expr::Block(b)) => norm(&b.block).trim_matches(|c| c == '{' || c == '}').to_string(),
        _ => return Err("compute_topo_rnk_node: no primitive branch".into()),
    };
    let prim: u64 = prim.parse().map_err(|_| format!("primitive rank `{prim}` is not a literal"))?;
    Ok(format!(
        "(* compute_topo_rnk_hyperedge / compute_topo_rnk_node (container): fold({init}, |ret, ..| {}(ret, rank of child)) *)\nDefinition rank_init : nat := {init}.\nDefinition rank_combine (ret r : nat) : nat := {comb}.\n(* rank of a primitive child *)\nDefinition rank_prim : nat := {prim}.\n",
        out[0].1
    ))
}

// ------------------------------------------------------------------------------ driver

pub fn generate(repo: &Path) -> (String, Vec<String>) {
    let mut text = String::from(
        "(* GENERATED by /verif/translator (x_extract.rs) from /repo/src/extract.rs - do not edit *)\nFrom Coq Require Import List NArith Arith Bool.\nImport ListNotations.\n\nDefinition u64_max : N := 18446744073709551615%N.   (* u64::MAX *)\n\n",
    );
    let mut report = Vec::new();
    let mut push = |name: &str, r: R<String>, text: &mut String| match r {
        Ok(def) => {
            text.push_str(&def);
            text.push('\n');
            report.push(format!("{{\"item\":\"ExtractFns.{name}\",\"file\":\"{FILE}\",\"ok\":true}}"));
        }
        Err(e) => {
            text.push_str(&format!("(* ExtractFns.{name}: NOT REGENERATED: {} *)\n\n", e.replace("*)", "* )")));
            report.push(format!("{{\"item\":\"ExtractFns.{name}\",\"file\":\"{FILE}\",\"ok\":false,\"error\":\"{}\"}}", jesc(&e)));
        }
    };
    let names = ["cost_combine", "tac_fold", "container_cost_default", "base_value_cost_default", "relax_improves", "rank_guard", "rank_combine"];
    let src = match std::fs::read_to_string(repo.join(FILE)) {
        Ok(s) => s,
        Err(e) => {
            for n in names {
                push(n, Err(format!("cannot read {FILE}: {e}")), &mut text);
            }
            return (text, report);
        }
    };
    let file = match syn::parse_file(&src) {
        Ok(f) => f,
        Err(e) => {
            for n in names {
                push(n, Err(format!("{FILE} does not parse: {e}")), &mut text);
            }
            return (text, report);
        }
    };

    // 1. Cost for u64
    let combine = cost_impl_u64(&file).and_then(|imp| {
        let lit = |name: &str| -> R<String> {
            let f = impl_method(&imp, name)?;
            if !f.sig.inputs.is_empty() {
                return Err(format!("`{name}` takes parameters"));
            }
            tr(tail_expr(&f.block)?, &Env { vars: vec![], ty: Ty::Cost })
        };
        let id = lit("identity")?;
        let un = lit("unit")?;
        let c = impl_method(&imp, "combine")?;
        let sig = norm(&c.sig.inputs);
        if sig != "self,other:&Self" {
            return Err(format!("combine: unexpected signature `{sig}`"));
        }
        let env = Env { vars: vec![("self".into(), "a".into()), ("other".into(), "b".into())], ty: Ty::Cost };
        let body = tr(tail_expr(&c.block)?, &env)?;
        Ok(format!(
            "(* impl Cost for u64 (macro cost_impl_int) *)\nDefinition cost_identity : N := {id}.\nDefinition cost_unit : N := {un}.\nDefinition cost_combine (a b : N) : N :=\n  {body}.\n"
        ))
    });
    push("cost_combine", combine, &mut text);

    // 2. TreeAdditiveCostModel::fold
    let fold = (|| -> R<String> {
        let imp = file
            .items
            .iter()
            .find_map(|it| match it {
                Item::Impl(i)
                    if norm(&i.self_ty) == "TreeAdditiveCostModel"
                        && i.trait_.as_ref().map_or(false, |(_, p, _)| norm(p) == "CostModel<DefaultCost>") =>
                {
                    Some(i)
                }
                _ => None,
            })
            .ok_or("impl CostModel<DefaultCost> for TreeAdditiveCostModel not found")?;
        let f = impl_method(imp, "fold")?;
        let ps: Vec<String> = cost_params(&f.sig).into_iter().map(|(n, _)| n).collect();
        if ps != ["children_cost", "head_cost"] {
            return Err(format!("fold: unexpected cost parameters {ps:?}"));
        }
        // container_cost / base_value_cost must not be overridden here (the defaults are translated)
        for i in &imp.items {
            if let ImplItem::Fn(m) = i {
                if m.sig.ident == "container_cost" || m.sig.ident == "base_value_cost" {
                    return Err(format!("TreeAdditiveCostModel overrides `{}`", m.sig.ident));
                }
            }
        }
        // enode_cost = func.extraction_head_cost(egraph)
        let ec = impl_method(imp, "enode_cost")?;
        if norm(tail_expr(&ec.block)?) != "func.extraction_head_cost(egraph)" {
            return Err("enode_cost is not `func.extraction_head_cost(egraph)`".into());
        }
        Ok(format!("(* TreeAdditiveCostModel::fold *)\n{}", def_from_method("tac_fold", &f.sig, &f.block)?))
    })();
    push("tac_fold", fold, &mut text);

    // 3./4. defaults of trait CostModel
    let tr_item = file.items.iter().find_map(|it| match it {
        Item::Trait(t) if t.ident == "CostModel" => Some(t),
        _ => None,
    });
    for (name, method) in [("container_cost_default", "container_cost"), ("base_value_cost_default", "base_value_cost")] {
        let r = (|| -> R<String> {
            let t = tr_item.ok_or("trait CostModel not found")?;
            let f = t
                .items
                .iter()
                .find_map(|i| match i {
                    TraitItem::Fn(f) if f.sig.ident == method => Some(f),
                    _ => None,
                })
                .ok_or_else(|| format!("CostModel::{method} not found"))?;
            let b = f.default.as_ref().ok_or_else(|| format!("CostModel::{method} has no default body"))?;
            Ok(format!("(* default CostModel::{method} *)\n{}", def_from_method(name, &f.sig, b)?))
        })();
        push(name, r, &mut text);
    }

    // 5.-7. Extractor::bellman_ford and the rank functions
    let ext_impl = file.items.iter().find_map(|it| match it {
        Item::Impl(i) if i.trait_.is_none() && norm(&i.self_ty) == "Extractor<C>" => Some(i),
        _ => None,
    });
    let bf = ext_impl.ok_or_else(|| "impl Extractor<C> not found".to_string()).and_then(|i| impl_method(i, "bellman_ford"));
    push("relax_improves", bf.clone().and_then(relax_defs), &mut text);
    push("rank_guard", bf.and_then(parent_defs), &mut text);
    push("rank_combine", ext_impl.ok_or_else(|| "impl Extractor<C> not found".to_string()).and_then(rank_defs), &mut text);

    (text, report)
}
