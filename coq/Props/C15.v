(** C15 — printing and re-parsing is the identity. *)
From Coq Require Import List NArith ZArith.
Import ListNotations.
Require Import Verif.Base.Cases Verif.Syntax.Sexp Verif.Syntax.Ast.

Example c15_example :
  check_case (KLit ([], []) (LStr (s_ "a\b")) [34; 97; 92; 92; 98; 34]%N) = true.
Proof. vm_compute. reflexivity. Qed.
