(** C12: soundness of the proof checker of ProofChk/Checker.v.

    [Derivable prog t1 t2] is the derivation relation of the UN-instrumented program: equalities
    asserted by its top-level actions, instances of its rules whose premises are derivable,
    symmetry, transitivity and congruence. As in egglog there is NO general reflexivity: [t = t]
    is derivable only for terms that some top-level action or rule instance has created (and for
    literals), which is what makes rule premises like [(R x)] meaningful.

    Main theorem [checker_sound]: whatever the checker accepts is derivable. The "single-point
    alteration" corollaries follow from [check_sub] (a proof is accepted only if every node of it
    is) and from the side conditions of each step kind. *)
From Coq Require Import List Arith ZArith Bool PeanoNat Lia.
Import ListNotations.
Require Import Verif.Egg.Model Verif.Egg.CCDefs Verif.ProofChk.Checker.

(* ------------------------------------------------------------------ *)
(** * boolean equality of terms, membership of propositions *)

Lemma tm_eqb_T f g l1 l2 : tm_eqb (T f l1) (T g l2) = Nat.eqb f g && tms_eqb l1 l2.
Proof.
  reflexivity.
Qed.

Lemma tm_eqb_eq : forall a b, tm_eqb a b = true <-> a = b.
Proof.
  induction a as [z|f l IH] using term_ind'; intros [g l2|z2].
  - cbn. split; discriminate.
  - cbn [tm_eqb]. rewrite Z.eqb_eq. split; congruence.
  - rewrite tm_eqb_T, andb_true_iff, Nat.eqb_eq.
    assert (E : tms_eqb l l2 = true <-> l = l2).
    { revert l2. induction IH as [|x tl Hx Htl IHl]; intros [|y t2]; cbn [tms_eqb];
        try (split; [discriminate|discriminate]); try (split; auto; fail).
      rewrite andb_true_iff, Hx, IHl. split; [intros [-> ->]; auto|intros E; injection E; auto]. }
    rewrite E. split; [intros [-> ->]; auto|intros E'; injection E'; auto].
  - cbn. split; discriminate.
Qed.

Lemma tm_eqb_refl a : tm_eqb a a = true.
Proof. apply tm_eqb_eq. reflexivity. Qed.

Lemma tm_eqb_neq a b : a <> b -> tm_eqb a b = false.
Proof. intros H. destruct (tm_eqb a b) eqn:E; auto. apply tm_eqb_eq in E. contradiction. Qed.

Lemma in_props_In l r ps : in_props l r ps = true <-> In (l, r) ps.
Proof.
  unfold in_props. rewrite existsb_exists. split.
  - intros ([a b] & Hin & E). cbn [fst snd] in E. apply andb_true_iff in E. destruct E as [E1 E2].
    apply tm_eqb_eq in E1, E2. subst. exact Hin.
  - intros Hin. exists (l, r). split; auto. cbn [fst snd]. rewrite !tm_eqb_refl. reflexivity.
Qed.

(* ------------------------------------------------------------------ *)
(** * the derivation relation of a program *)

Definition gresult (prog : program) : env * list prop :=
  match process_actions [] (global_actions prog) with
  | Some r => r
  | None => ([], [])
  end.

(** global bindings and the equalities asserted at top level (both directions of every union,
    [t = t] for every term a top-level action creates) *)
Definition genv (prog : program) : env := fst (gresult prog).
Definition gprops (prog : program) : list prop := snd (gresult prog).

Section Derivable.
Variable prog : program.

Inductive Derivable : term -> term -> Prop :=
| d_global a b : In (a, b) (gprops prog) -> Derivable a b
| d_lit z : Derivable (TI z) (TI z)
| d_rule rl sub w' props a b :
    In rl (rules_of prog) ->
    Holds (sub ++ genv prog) (rbody rl) ->
    process_actions (sub ++ genv prog) (rhead rl) = Some (w', props) ->
    In (a, b) props ->
    Derivable a b
| d_sym a b : Derivable a b -> Derivable b a
| d_trans a b c : Derivable a b -> Derivable b c -> Derivable a c
| d_congr t f cs i c c' :
    Derivable t (T f cs) -> nth_error cs i = Some c -> Derivable c c' ->
    Derivable t (T f (set_child cs i c'))
(** two writes to one row of a function: from the views [f(k.., old)] and [f(k.., new)] of the SAME
    key, the view of the merged value [f(k.., merge(old, new))] (and [t = t] for what evaluating the
    merge expression creates). As in the checker's MergeFn arm, [fn] names the declaration whose
    merge expression is evaluated; the arm does not compare it with [f] (see the report). *)
| d_merge f fn k vo vn m mprops a b :
    Derivable (T f (k ++ [vo])) (T f (k ++ [vo])) ->
    Derivable (T f (k ++ [vn])) (T f (k ++ [vn])) ->
    run_merge prog fn vo vn = Some (m, mprops) ->
    In (a, b) (mprops ++ [(T f (k ++ [m]), T f (k ++ [m]))]) ->
    Derivable a b
(** the body of a rule holds under a substitution: an equality fact needs its two sides derivably
    equal, a plain fact [(R x)] / [(F x)] needs the term to exist *)
with Holds : env -> list fact -> Prop :=
| h_nil w : Holds w []
| h_eq w a b ta tb fs :
    eval w a = Some ta -> eval w b = Some tb -> Derivable ta tb -> Holds w fs ->
    Holds w (FEq a b :: fs)
| h_pat w e t t0 fs :
    eval w e = Some t -> Derivable t0 t -> Holds w fs -> Holds w (FPat e :: fs)
(** a function fact [(= (f args..) v)] needs the row [f(args.., v)] to exist *)
| h_fun w f f0 args v vt ts fs :
    lookup w v = Some vt -> eval w (PA f args) = Some (T f0 ts) ->
    Derivable (T f (ts ++ [vt])) (T f (ts ++ [vt])) -> Holds w fs -> Holds w (FFun f args v :: fs).

End Derivable.

Scheme Derivable_mind := Induction for Derivable Sort Prop
  with Holds_mind := Induction for Holds Sort Prop.

(* ------------------------------------------------------------------ *)
(** * structure of [check] *)

Lemma proof_ind' (P : proof -> Prop) :
  (forall l r, P (PFiat l r)) ->
  (forall l r n prems sub, Forall P prems -> P (PRule l r n prems sub)) ->
  (forall l r p q, P p -> P q -> P (PTrans l r p q)) ->
  (forall l r p, P p -> P (PSym l r p)) ->
  (forall l r p i c, P p -> P c -> P (PCongr l r p i c)) ->
  P PEval ->
  (forall l r fn p q, P p -> P q -> P (PMergeFn l r fn p q)) ->
  forall p, P p.
Proof.
  intros HF HR HT HS HC HE HM. fix IH 1. intros [l r|l r n prems sub|l r p q|l r p|l r p i c| |l r fn p q].
  - apply HF.
  - apply HR. induction prems as [|x tl IHl]; constructor; [apply IH|exact IHl].
  - apply HT; apply IH.
  - apply HS; apply IH.
  - apply HC; apply IH.
  - apply HE.
  - apply HM; apply IH.
Qed.

Lemma split_last_spec : forall l i o, split_last l = Some (i, o) -> l = i ++ [o].
Proof.
  induction l as [|x tl IH]; intros i o H; cbn [split_last] in H; [discriminate|].
  destruct tl as [|y tl'].
  - injection H as <- <-. reflexivity.
  - destruct (split_last (y :: tl')) as [[i' o']|]; [|discriminate].
    injection H as <- <-. rewrite (IH i' o' eq_refl). reflexivity.
Qed.

Lemma split_last_app : forall k v, split_last (k ++ [v]) = Some (k, v).
Proof.
  induction k as [|x tl IH]; intros v; [reflexivity|].
  cbn [app split_last]. rewrite IH. destruct (tl ++ [v]) eqn:E; [destruct tl; discriminate|reflexivity].
Qed.

Lemma tms_eqb_eq l1 l2 : tms_eqb l1 l2 = true <-> l1 = l2.
Proof.
  pose proof (tm_eqb_eq (T 0 l1) (T 0 l2)) as H. rewrite tm_eqb_T in H. cbn [Nat.eqb andb] in H.
  rewrite H. split; [intros E; injection E; auto|intros ->; reflexivity].
Qed.

Definition check_prems (chk : proof -> option prop) (w : env) : list fact -> list proof -> bool :=
  fix go (fs : list fact) (ps : list proof) {struct ps} : bool :=
    match fs, ps with
    | f :: fs', q :: ps' =>
        match chk q with
        | Some pr => fact_matches w f pr && go fs' ps'
        | None => false
        end
    | _, _ => true
    end.

Lemma check_rule_eq g prog l r name prems sub :
  check g prog (PRule l r name prems sub) =
  match find_rule prog name with
  | None => None
  | Some rl =>
      if Nat.eqb (length (rbody rl)) (length prems) then
        if check_prems (check g prog) (sub ++ gbind g) (rbody rl) prems
        then match process_actions (sub ++ gbind g) (rhead rl) with
             | Some (_, props) => if in_props l r props then Some (l, r) else None
             | None => None
             end
        else None
      else None
  end.
Proof. reflexivity. Qed.

Definition claimed (p : proof) : option prop :=
  match p with
  | PFiat l r | PRule l r _ _ _ | PTrans l r _ _ | PSym l r _ | PCongr l r _ _ _
  | PMergeFn l r _ _ _ => Some (l, r)
  | PEval => None
  end.

(** the checker returns exactly the proposition the node claims *)
Lemma check_claims g prog p phi : check g prog p = Some phi -> claimed p = Some phi.
Proof.
  destruct p as [l r|l r n prems sub|l r p q|l r p|l r p i c| |l r fn p q]; intros H.
  - cbn [check] in H. destruct (_ || _); [exact H|discriminate].
  - rewrite check_rule_eq in H. destruct (find_rule prog n) as [rl|]; [|discriminate].
    destruct (Nat.eqb _ _); [|discriminate]. destruct (check_prems _ _ _ _); [|discriminate].
    destruct (process_actions _ _) as [[w' props]|]; [|discriminate].
    destruct (in_props l r props); [exact H|discriminate].
  - cbn [check] in H. destruct (check g prog p) as [[a b]|]; [|discriminate].
    destruct (check g prog q) as [[b' c]|]; [|discriminate].
    destruct (_ && _); [exact H|discriminate].
  - cbn [check] in H. destruct (check g prog p) as [[a b]|]; [|discriminate].
    destruct (_ && _); [exact H|discriminate].
  - cbn [check] in H. destruct (check g prog p) as [[bl [f cs|z]]|]; try discriminate.
    destruct (check g prog c) as [[cl cr]|]; [|discriminate].
    destruct (_ && _); [exact H|discriminate].
  - discriminate.
  - cbn [check] in H.
    destruct (check g prog p) as [[ol [oh oargs|?]]|] eqn:E1; try discriminate.
    destruct (check g prog q) as [[nl [nh nargs|?]]|] eqn:E2; try discriminate.
    destruct (split_last oargs) as [[oin oout]|] eqn:So; try discriminate.
    destruct (split_last nargs) as [[nin nout]|] eqn:Sn; try discriminate.
    destruct (_ && _) eqn:E; [|discriminate].
    destruct (run_merge prog fn oout nout) as [[m mprops]|] eqn:Er; [|discriminate].
    destruct (in_props l r _) eqn:Ei; [|discriminate]. exact H.
Qed.

Lemma find_rule_In prog n rl : find_rule prog n = Some rl -> In rl (rules_of prog) /\ rname rl = n.
Proof.
  induction prog as [|c tl IH]; cbn [find_rule rules_of]; [discriminate|].
  destruct c as [a|r0| |fn0 vo0 vn0 m0]; auto.
  destruct (Nat.eqb (rname r0) n) eqn:E.
  - intros H. injection H as <-. apply Nat.eqb_eq in E. split; [left; reflexivity|exact E].
  - intros H. destruct (IH H) as [H1 H2]. split; [right; exact H1|exact H2].
Qed.

Lemma ctx_new_spec prog g : ctx_new prog = Some g ->
  gbind g = genv prog /\ geqs g = gprops prog /\ nodup_nat (map rname (rules_of prog)) = true.
Proof.
  unfold ctx_new, genv, gprops, gresult. destruct (nodup_nat _); [|discriminate].
  destruct (process_actions [] (global_actions prog)) as [[w ps]|]; [|discriminate].
  intros H. injection H as <-. auto.
Qed.

(* ------------------------------------------------------------------ *)
(** * soundness *)

Section Sound.
Variables (prog : program) (g : gctx).
Hypothesis Hg : ctx_new prog = Some g.

Definition sound_at (q : proof) : Prop :=
  forall phi, check g prog q = Some phi -> Derivable prog (fst phi) (snd phi).

Lemma prems_hold w : forall fs prems,
  Forall sound_at prems -> length fs = length prems ->
  check_prems (check g prog) w fs prems = true -> Holds prog w fs.
Proof.
  induction fs as [|f fs IH]; intros [|q ps] HF Hlen Hc; cbn [length] in Hlen; try discriminate.
  - constructor.
  - inversion HF as [|q' ps' Hq Hps]; subst. cbn [check_prems] in Hc.
    destruct (check g prog q) as [pr|] eqn:Eq; [|discriminate].
    apply andb_true_iff in Hc. destruct Hc as [Hm Hrest].
    assert (Hfs : Holds prog w fs) by (apply (IH ps); auto).
    pose proof (Hq pr Eq) as Hd. destruct f as [a b|e|f args v]; cbn [fact_matches] in Hm.
    + destruct (eval w a) as [ta|] eqn:Ea; [|discriminate].
      destruct (eval w b) as [tb|] eqn:Eb; [|discriminate].
      apply andb_true_iff in Hm. destruct Hm as [H1 H2]. apply tm_eqb_eq in H1, H2. subst.
      eapply h_eq; eauto.
    + destruct (eval w e) as [t|] eqn:Ee; [|discriminate].
      apply tm_eqb_eq in Hm. subst. eapply h_pat; eauto.
    + destruct (lookup w v) as [vt|] eqn:Ev; [|discriminate].
      destruct (eval w (PA f args)) as [[f0 ts|?]|] eqn:Ea; try discriminate.
      apply andb_true_iff in Hm. destruct Hm as [H1 H2]. apply tm_eqb_eq in H1, H2.
      destruct pr as [pl pr']. cbn [fst snd] in *. subst. eapply h_fun; eauto.
Qed.

Theorem check_sound : forall p, sound_at p.
Proof.
  destruct (ctx_new_spec _ _ Hg) as (Hb & He & _).
  induction p as [l r|l r n prems sub IH|l r p q IHp IHq|l r p IHp|l r p i c IHp IHc| |l r fn p q IHp IHq] using proof_ind';
    intros phi H.
  - cbn [check] in H. destruct (_ || _) eqn:E; [|discriminate]. injection H as <-. cbn [fst snd].
    apply orb_true_iff in E. destruct E as [E|E].
    + apply andb_true_iff in E. destruct E as [E1 E2]. apply tm_eqb_eq in E2. subst r.
      destruct l as [f cs|z]; [discriminate|]. apply d_lit.
    + apply in_props_In in E. rewrite He in E. apply d_global. exact E.
  - rewrite check_rule_eq in H. destruct (find_rule prog n) as [rl|] eqn:Ef; [|discriminate].
    destruct (Nat.eqb _ _) eqn:El; [|discriminate]. apply Nat.eqb_eq in El.
    destruct (check_prems _ _ _ _) eqn:Ec; [|discriminate].
    destruct (process_actions _ _) as [[w' props]|] eqn:Ep; [|discriminate].
    destruct (in_props l r props) eqn:Ei; [|discriminate]. injection H as <-. cbn [fst snd].
    apply in_props_In in Ei. apply find_rule_In in Ef. destruct Ef as [Hin _].
    rewrite Hb in *. eapply d_rule; eauto. eapply prems_hold; eauto.
  - cbn [check] in H. destruct (check g prog p) as [[a b]|] eqn:E1; [|discriminate].
    destruct (check g prog q) as [[b' c]|] eqn:E2; [|discriminate].
    destruct (_ && _) eqn:E; [|discriminate]. injection H as <-. cbn [fst snd].
    apply andb_true_iff in E. destruct E as [E E3]. apply andb_true_iff in E. destruct E as [E4 E5].
    apply tm_eqb_eq in E3, E4, E5. subst.
    eapply d_trans; [apply (IHp _ E1)|apply (IHq _ E2)].
  - cbn [check] in H. destruct (check g prog p) as [[a b]|] eqn:E1; [|discriminate].
    destruct (_ && _) eqn:E; [|discriminate]. injection H as <-. cbn [fst snd].
    apply andb_true_iff in E. destruct E as [E3 E4]. apply tm_eqb_eq in E3, E4. subst.
    apply d_sym. apply (IHp _ E1).
  - cbn [check] in H. destruct (check g prog p) as [[bl [f cs|z]]|] eqn:E1; try discriminate.
    destruct (check g prog c) as [[cl cr]|] eqn:E2; [|discriminate].
    destruct (_ && _) eqn:E; [|discriminate]. injection H as <-. cbn [fst snd].
    apply andb_true_iff in E. destruct E as [E E3]. apply andb_true_iff in E. destruct E as [E E4].
    apply andb_true_iff in E. destruct E as [E5 E6].
    destruct (nth_error cs i) as [x|] eqn:En; [|discriminate].
    apply tm_eqb_eq in E3, E4, E6. subst.
    eapply d_congr; [apply (IHp _ E1)|exact En|apply (IHc _ E2)].
  - discriminate.
  - cbn [check] in H.
    destruct (check g prog p) as [[ol [oh oargs|?]]|] eqn:E1; try discriminate.
    destruct (check g prog q) as [[nl [nh nargs|?]]|] eqn:E2; try discriminate.
    destruct (split_last oargs) as [[oin oout]|] eqn:So; try discriminate.
    destruct (split_last nargs) as [[nin nout]|] eqn:Sn; try discriminate.
    destruct (_ && _) eqn:E; [|discriminate].
    destruct (run_merge prog fn oout nout) as [[m mprops]|] eqn:Er; [|discriminate].
    destruct (in_props l r _) eqn:Ei; [|discriminate].
    injection H as <-. cbn [fst snd]. apply in_props_In in Ei.
    apply andb_true_iff in E. destruct E as [E E6]. apply andb_true_iff in E. destruct E as [E E5].
    apply andb_true_iff in E. destruct E as [E3 E4].
    apply tm_eqb_eq in E3, E4. apply Nat.eqb_eq in E5. apply tms_eqb_eq in E6.
    apply split_last_spec in So, Sn. subst.
    eapply d_merge; [apply (IHp _ E1)|apply (IHq _ E2)|exact Er|exact Ei].
Qed.

End Sound.

Theorem checker_sound prog p t1 t2 :
  check_proof prog p = Some (t1, t2) -> Derivable prog t1 t2.
Proof.
  unfold check_proof. destruct (ctx_new prog) as [g|] eqn:Hg; [|discriminate].
  intros H. apply (check_sound prog g Hg p _ H).
Qed.

(* ------------------------------------------------------------------ *)
(** * a proof is accepted only if every node of it is *)

Inductive subproof (q : proof) : proof -> Prop :=
| sp_refl : subproof q q
| sp_rule l r n prems sub p : In p prems -> subproof q p -> subproof q (PRule l r n prems sub)
| sp_trans_l l r p1 p2 : subproof q p1 -> subproof q (PTrans l r p1 p2)
| sp_trans_r l r p1 p2 : subproof q p2 -> subproof q (PTrans l r p1 p2)
| sp_sym l r p : subproof q p -> subproof q (PSym l r p)
| sp_congr_l l r p i c : subproof q p -> subproof q (PCongr l r p i c)
| sp_congr_r l r p i c : subproof q c -> subproof q (PCongr l r p i c)
| sp_merge_l l r fn p1 p2 : subproof q p1 -> subproof q (PMergeFn l r fn p1 p2)
| sp_merge_r l r fn p1 p2 : subproof q p2 -> subproof q (PMergeFn l r fn p1 p2).

Lemma check_prems_all chk w : forall fs ps, length fs = length ps ->
  check_prems chk w fs ps = true -> forall q, In q ps -> exists psi, chk q = Some psi.
Proof.
  induction fs as [|f fs IH]; intros [|p ps] Hlen Hc q Hin; cbn [length] in Hlen; try discriminate.
  - destruct Hin.
  - cbn [check_prems] in Hc. destruct (chk p) as [pr|] eqn:E; [|discriminate].
    apply andb_true_iff in Hc. destruct Hc as [_ Hc]. destruct Hin as [<-|Hin]; eauto.
Qed.

Theorem check_sub g prog q p : subproof q p ->
  forall phi, check g prog p = Some phi -> exists psi, check g prog q = Some psi.
Proof.
  induction 1 as [|l r n prems sub p Hin Hs IH|l r p1 p2 Hs IH|l r p1 p2 Hs IH|l r p Hs IH
                  |l r p i c Hs IH|l r p i c Hs IH|l r fn p1 p2 Hs IH|l r fn p1 p2 Hs IH]; intros phi H.
  - eauto.
  - rewrite check_rule_eq in H. destruct (find_rule prog n) as [rl|]; [|discriminate].
    destruct (Nat.eqb _ _) eqn:El; [|discriminate]. apply Nat.eqb_eq in El.
    destruct (check_prems _ _ _ _) eqn:Ec; [|discriminate].
    destruct (check_prems_all _ _ _ _ El Ec p Hin) as [psi Hpsi]. eauto.
  - cbn [check] in H. destruct (check g prog p1) as [[a b]|] eqn:E1; [|discriminate]. eauto.
  - cbn [check] in H. destruct (check g prog p1) as [[a b]|]; [|discriminate].
    destruct (check g prog p2) as [[b' c]|] eqn:E2; [|discriminate]. eauto.
  - cbn [check] in H. destruct (check g prog p) as [[a b]|] eqn:E1; [|discriminate]. eauto.
  - cbn [check] in H. destruct (check g prog p) as [[bl br]|] eqn:E1; [|discriminate]. eauto.
  - cbn [check] in H. destruct (check g prog p) as [[bl [f cs|z]]|]; try discriminate.
    destruct (check g prog c) as [[cl cr]|] eqn:E2; [|discriminate]. eauto.
  - cbn [check] in H. destruct (check g prog p1) as [[ol orr]|] eqn:E1; [|discriminate]. eauto.
  - cbn [check] in H. destruct (check g prog p1) as [[ol [oh oargs|?]]|]; try discriminate.
    destruct (check g prog p2) as [[nl nr]|] eqn:E2; [|discriminate]. eauto.
Qed.

(** one rejected node anywhere makes the whole proof rejected *)
Corollary rejected_node_rejects g prog q p :
  subproof q p -> check g prog q = None -> check g prog p = None.
Proof.
  intros Hs Hq. destruct (check g prog p) as [phi|] eqn:E; auto.
  destruct (check_sub _ _ _ _ Hs _ E) as [psi Hpsi]. congruence.
Qed.

Corollary rejected_node_rejects_proof prog q p :
  subproof q p -> check_proof prog q = None -> check_proof prog p = None.
Proof.
  unfold check_proof. destruct (ctx_new prog) as [g|]; auto. apply rejected_node_rejects.
Qed.

(* ------------------------------------------------------------------ *)
(** * single-point alterations *)

(** a Rule step whose rule is absent from the checking program *)
Lemma rule_absent_rejected g prog l r n prems sub :
  find_rule prog n = None -> check g prog (PRule l r n prems sub) = None.
Proof. intros H. rewrite check_rule_eq, H. reflexivity. Qed.

Lemma find_rule_remove prog n : find_rule (remove_rule prog n) n = None.
Proof.
  induction prog as [|c tl IH]; cbn [remove_rule find_rule]; auto.
  destruct c as [a|r0| |fn0 vo0 vn0 m0]; cbn [find_rule]; auto.
  destruct (Nat.eqb (rname r0) n) eqn:E; auto. cbn [find_rule]. rewrite E. exact IH.
Qed.

Theorem mutation_rejected_rule_removed prog p l r n prems sub :
  subproof (PRule l r n prems sub) p -> check_proof (remove_rule prog n) p = None.
Proof.
  intros Hs. eapply rejected_node_rejects_proof; [exact Hs|].
  unfold check_proof. destruct (ctx_new _) as [g|]; auto.
  apply rule_absent_rejected. apply find_rule_remove.
Qed.

(** a Fiat step whose equality is not asserted by the (altered) program's top-level actions *)
Theorem mutation_rejected_fiat prog' p l r :
  subproof (PFiat l r) p ->
  ~ In (l, r) (gprops prog') -> (forall z, l = TI z -> r <> TI z) ->
  check_proof prog' p = None.
Proof.
  intros Hs Hni Hlit. eapply rejected_node_rejects_proof; [exact Hs|].
  unfold check_proof. destruct (ctx_new prog') as [g|] eqn:Hg; auto.
  destruct (ctx_new_spec _ _ Hg) as (_ & He & _). cbn [check].
  destruct (in_props l r (geqs g)) eqn:E.
  - apply in_props_In in E. rewrite He in E. contradiction.
  - rewrite orb_false_r. destruct l as [f cs|z]; cbn [is_lit andb]; auto.
    rewrite tm_eqb_neq; auto. intros <-. apply (Hlit z); reflexivity.
Qed.

(** a Rule step with a dropped (or added) premise *)
Theorem mutation_rejected_premise_count g prog l r n prems sub rl :
  find_rule prog n = Some rl -> length prems <> length (rbody rl) ->
  check g prog (PRule l r n prems sub) = None.
Proof.
  intros Hf Hl. rewrite check_rule_eq, Hf.
  destruct (Nat.eqb _ _) eqn:E; auto. apply Nat.eqb_eq in E. congruence.
Qed.

(** a Rule step whose claimed conclusion is not produced by the instantiated head *)
Theorem mutation_rejected_rule_head g prog l r n prems sub rl w' props :
  find_rule prog n = Some rl ->
  process_actions (sub ++ gbind g) (rhead rl) = Some (w', props) -> ~ In (l, r) props ->
  check g prog (PRule l r n prems sub) = None.
Proof.
  intros Hf Hp Hni. rewrite check_rule_eq, Hf, Hp.
  destruct (Nat.eqb _ _); auto. destruct (check_prems _ _ _ _); auto.
  destruct (in_props l r props) eqn:E; auto. apply in_props_In in E. contradiction.
Qed.

(** Trans whose middle terms differ *)
Theorem mutation_rejected_trans_middle g prog l r p q a b b' c :
  check g prog p = Some (a, b) -> check g prog q = Some (b', c) -> b <> b' ->
  check g prog (PTrans l r p q) = None.
Proof.
  intros H1 H2 Hne. cbn [check]. rewrite H1, H2, (tm_eqb_neq _ _ Hne). reflexivity.
Qed.

(** swapping the operands of an accepted Trans step is rejected unless it proves [t = t] *)
Theorem mutation_rejected_trans_swap g prog l r p q phi :
  check g prog (PTrans l r p q) = Some phi -> l <> r ->
  check g prog (PTrans l r q p) = None.
Proof.
  intros H Hne. cbn [check] in *.
  destruct (check g prog p) as [[a b]|]; [|discriminate].
  destruct (check g prog q) as [[b' c]|]; [|discriminate].
  destruct (_ && _) eqn:E in H; [|discriminate].
  apply andb_true_iff in E. destruct E as [E E3]. apply andb_true_iff in E. destruct E as [E4 E5].
  apply tm_eqb_eq in E3, E4, E5. subst.
  destruct (tm_eqb c a && tm_eqb a b' && tm_eqb c b') eqn:E; auto.
  apply andb_true_iff in E. destruct E as [E E3]. apply andb_true_iff in E. destruct E as [E4 E5].
  apply tm_eqb_eq in E3, E4, E5. subst. contradiction.
Qed.

(** Congr with a child index out of range *)
Theorem mutation_rejected_congr_range g prog l r p i c bl f cs :
  check g prog p = Some (bl, T f cs) -> length cs <= i ->
  check g prog (PCongr l r p i c) = None.
Proof.
  intros H1 Hi. cbn [check]. rewrite H1. destruct (check g prog c) as [[cl cr]|]; auto.
  assert (E : Nat.ltb i (length cs) = false) by (apply Nat.ltb_ge; exact Hi).
  rewrite E. reflexivity.
Qed.

(** Congr whose base proof does not end in an application *)
Theorem mutation_rejected_congr_not_app g prog l r p i c bl z :
  check g prog p = Some (bl, TI z) -> check g prog (PCongr l r p i c) = None.
Proof. intros H1. cbn [check]. rewrite H1. reflexivity. Qed.

(** Congr whose child proof is about another child (wrong index) *)
Theorem mutation_rejected_congr_child g prog l r p i c bl f cs x cl cr :
  check g prog p = Some (bl, T f cs) -> check g prog c = Some (cl, cr) ->
  nth_error cs i = Some x -> x <> cl ->
  check g prog (PCongr l r p i c) = None.
Proof.
  intros H1 H2 Hn Hne. cbn [check]. rewrite H1, H2, Hn, (tm_eqb_neq _ _ Hne).
  rewrite andb_false_r. reflexivity.
Qed.

(** Congr whose claimed right-hand side has another head (or other children) than the base *)
Theorem mutation_rejected_congr_head g prog l r p i c bl f cs cl cr :
  check g prog p = Some (bl, T f cs) -> check g prog c = Some (cl, cr) ->
  r <> T f (set_child cs i cr) ->
  check g prog (PCongr l r p i c) = None.
Proof.
  intros H1 H2 Hne. cbn [check]. rewrite H1, H2, (tm_eqb_neq _ _ Hne).
  rewrite andb_false_r. reflexivity.
Qed.

(** the conclusion of Trans / Sym / Congr is a function of the sub-proofs: substituting another
    term for a side of the claimed proposition is rejected *)
Theorem mutation_rejected_subst_trans g prog l r l' r' p q phi :
  check g prog (PTrans l r p q) = Some phi -> (l', r') <> (l, r) ->
  check g prog (PTrans l' r' p q) = None.
Proof.
  intros H Hne. cbn [check] in *.
  destruct (check g prog p) as [[a b]|]; [|discriminate].
  destruct (check g prog q) as [[b' c]|]; [|discriminate].
  destruct (_ && _) eqn:E in H; [|discriminate].
  apply andb_true_iff in E. destruct E as [E E3]. apply andb_true_iff in E. destruct E as [E4 E5].
  apply tm_eqb_eq in E3, E4, E5. subst.
  destruct (tm_eqb b' b' && tm_eqb l' a && tm_eqb r' c) eqn:E; auto.
  apply andb_true_iff in E. destruct E as [E E3]. apply andb_true_iff in E. destruct E as [E4 E5].
  apply tm_eqb_eq in E3, E5. subst. contradiction Hne. reflexivity.
Qed.

Theorem mutation_rejected_subst_sym g prog l r l' r' p phi :
  check g prog (PSym l r p) = Some phi -> (l', r') <> (l, r) ->
  check g prog (PSym l' r' p) = None.
Proof.
  intros H Hne. cbn [check] in *.
  destruct (check g prog p) as [[a b]|]; [|discriminate].
  destruct (_ && _) eqn:E in H; [|discriminate].
  apply andb_true_iff in E. destruct E as [E3 E4]. apply tm_eqb_eq in E3, E4. subst.
  destruct (tm_eqb l' b && tm_eqb r' a) eqn:E; auto.
  apply andb_true_iff in E. destruct E as [E3 E4]. apply tm_eqb_eq in E3, E4. subst.
  contradiction Hne. reflexivity.
Qed.

Theorem mutation_rejected_subst_congr g prog l r l' r' p i c phi :
  check g prog (PCongr l r p i c) = Some phi -> (l', r') <> (l, r) ->
  check g prog (PCongr l' r' p i c) = None.
Proof.
  intros H Hne. cbn [check] in *.
  destruct (check g prog p) as [[bl [f cs|z]]|]; try discriminate.
  destruct (check g prog c) as [[cl cr]|]; [|discriminate].
  destruct (_ && _) eqn:E in H; [|discriminate].
  apply andb_true_iff in E. destruct E as [E E3]. apply andb_true_iff in E. destruct E as [E E4].
  apply tm_eqb_eq in E3, E4. subst. rewrite E. cbn [andb].
  destruct (tm_eqb r' _ && tm_eqb l' bl) eqn:E'; auto.
  apply andb_true_iff in E'. destruct E' as [E3 E4]. apply tm_eqb_eq in E3, E4. subst.
  contradiction Hne. reflexivity.
Qed.

(* ------------------------------------------------------------------ *)
(** * what [Derivable] means: for a program without rules it is contained in the congruence
      closure (C01's [CC]) of the unions asserted at top level *)

Fixpoint unions_of (w : env) (acts : list action) : list (term * term) :=
  match acts with
  | [] => []
  | a :: tl =>
      match do_action w a with
      | Some (w1, _) =>
          match a with
          | AUnion x y => match eval w x, eval w y with
                          | Some tx, Some ty => [(tx, ty)]
                          | _, _ => []
                          end
          | _ => []
          end ++ unions_of w1 tl
      | None => []
      end
  end.

Lemma refl_props_refl t a b : In (a, b) (refl_props t) -> a = b.
Proof.
  unfold refl_props. rewrite in_map_iff. intros (s & E & _). injection E as <- <-. reflexivity.
Qed.

Lemma pat_ind' (P : pat -> Prop) :
  (forall x, P (PV x)) -> (forall f args, Forall P args -> P (PA f args)) -> (forall z, P (PL z)) ->
  (forall op args, Forall P args -> P (PP op args)) -> forall p, P p.
Proof.
  intros HV HA HL HP. fix IH 1. intros [x|f args|z|op args].
  - apply HV.
  - apply HA. induction args as [|a tl IHl]; constructor; [apply IH|exact IHl].
  - apply HL.
  - apply HP. induction args as [|a tl IHl]; constructor; [apply IH|exact IHl].
Qed.

(** everything the evaluator reports besides the term is reflexive *)
Lemma eprops_refl w : forall p a b, In (a, b) (eprops w p) -> a = b.
Proof.
  induction p as [x|f args IH|z|op args IH] using pat_ind'; intros a b H; cbn [eprops] in H.
  - destruct (lookup w x); [eapply refl_props_refl; eauto|destruct H].
  - apply in_app_or in H. destruct H as [H|H].
    + induction IH as [|p tl Hp _ IHl]; [destruct H|]. apply in_app_or in H. destruct H; eauto.
    + destruct (eval w (PA f args)); [eapply refl_props_refl; eauto|destruct H].
  - destruct H as [E|[]]. injection E as <- <-. reflexivity.
  - apply in_app_or in H. destruct H as [H|H].
    + induction IH as [|p tl Hp _ IHl]; [destruct H|]. apply in_app_or in H. destruct H; eauto.
    + destruct (eval w (PP op args)); [eapply refl_props_refl; eauto|destruct H].
Qed.

Lemma process_actions_props : forall acts w w' ps a b,
  process_actions w acts = Some (w', ps) -> In (a, b) ps ->
  a = b \/ In (a, b) (unions_of w acts) \/ In (b, a) (unions_of w acts).
Proof.
  induction acts as [|x tl IH]; intros w w' ps a b H Hin; cbn [process_actions] in H.
  - injection H as <- <-. destruct Hin.
  - cbn [unions_of]. destruct (do_action w x) as [[w1 ps1]|] eqn:Ed; [|discriminate].
    destruct (process_actions w1 tl) as [[w2 ps2]|] eqn:Ep; [|discriminate].
    injection H as <- <-. apply in_app_or in Hin. destruct Hin as [Hin|Hin].
    + destruct x as [v e|x y|e| |f args rhs]; cbn [do_action] in Ed.
      * destruct (eval w e); [|discriminate]. injection Ed as <- <-. left. eapply eprops_refl; eauto.
      * destruct (eval w x) as [tx|]; [|discriminate]. destruct (eval w y) as [ty|]; [|discriminate].
        injection Ed as <- <-. apply in_app_or in Hin. destruct Hin as [Hin|Hin].
        { left. eapply eprops_refl; eauto. }
        apply in_app_or in Hin. destruct Hin as [Hin|Hin].
        { left. eapply eprops_refl; eauto. }
        destruct Hin as [E|[E|[]]]; injection E as <- <-.
        -- right. left. left. reflexivity.
        -- right. right. left. reflexivity.
      * destruct (eval w e); [|discriminate]. injection Ed as <- <-. left. eapply eprops_refl; eauto.
      * injection Ed as <- <-. destruct Hin.
      * destruct (eval w (PA f (args ++ [rhs]))); [|discriminate]. injection Ed as <- <-. left.
        eapply eprops_refl; eauto.
    + destruct (IH _ _ _ a b Ep Hin) as [E|[E|E]]; auto.
      * right. left. apply in_or_app. right. exact E.
      * right. right. apply in_or_app. right. exact E.
Qed.

Definition global_unions (prog : program) : list (term * term) := unions_of [] (global_actions prog).

Lemma set_child_Forall2 (R : term -> term -> Prop) : forall cs i c c',
  (forall x, R x x) -> nth_error cs i = Some c -> R c c' -> Forall2 R cs (set_child cs i c').
Proof.
  induction cs as [|x tl IH]; intros [|i] c c' Hr Hn Hc; cbn [nth_error set_child] in *; try discriminate.
  - injection Hn as ->. constructor; auto. apply Forall2_refl. exact Hr.
  - constructor; auto. eapply IH; eauto.
Qed.

Theorem derivable_in_CC prog : rules_of prog = [] ->
  forall a b, Derivable prog a b -> CC (global_unions prog) a b.
Proof.
  intros Hnr a b H.
  induction H using Derivable_mind with
    (P0 := fun w fs (_ : Holds prog w fs) => True); auto.
  - (* global *)
    unfold gprops, gresult in i.
    destruct (process_actions [] (global_actions prog)) as [[w ps]|] eqn:Ep; [|destruct i].
    cbn [snd] in i. destruct (process_actions_props _ _ _ _ _ _ Ep i) as [->|[E|E]].
    + apply cc_refl.
    + apply cc_ax. exact E.
    + apply cc_sym. apply cc_ax. exact E.
  - apply cc_refl.
  - rewrite Hnr in i. destruct i.
  - apply cc_sym. assumption.
  - eapply cc_trans; eassumption.
  - eapply cc_trans; [eassumption|]. apply cc_cong.
    eapply set_child_Forall2; eauto. intros x. apply cc_refl.
Qed.

(* ------------------------------------------------------------------ *)
(** * completeness of the proof format: every derivable equality has a proof object the checker
      accepts (for programs the checker accepts at all: distinct rule names, evaluable globals) *)

Lemma existsb_eqb_false x l : existsb (Nat.eqb x) l = false -> ~ In x l.
Proof.
  intros H Hin. assert (E : existsb (Nat.eqb x) l = true).
  { apply existsb_exists. exists x. split; auto. apply Nat.eqb_refl. }
  congruence.
Qed.

Lemma find_rule_unique : forall prog rl,
  nodup_nat (map rname (rules_of prog)) = true -> In rl (rules_of prog) ->
  find_rule prog (rname rl) = Some rl.
Proof.
  induction prog as [|c tl IH]; intros rl Hn Hin; cbn [rules_of] in *; [destruct Hin|].
  destruct c as [a|r0| |fn0 vo0 vn0 m0]; cbn [find_rule]; auto.
  cbn [rules_of map nodup_nat] in Hn. apply andb_true_iff in Hn. destruct Hn as [Hx Hn].
  apply negb_true_iff in Hx. apply existsb_eqb_false in Hx.
  destruct Hin as [->|Hin].
  - rewrite Nat.eqb_refl. reflexivity.
  - destruct (Nat.eqb (rname r0) (rname rl)) eqn:E; [|apply IH; auto].
    apply Nat.eqb_eq in E. exfalso. apply Hx. rewrite E. apply in_map. exact Hin.
Qed.

Theorem checker_complete prog g : ctx_new prog = Some g ->
  forall a b, Derivable prog a b -> exists p, check g prog p = Some (a, b).
Proof.
  intros Hg. destruct (ctx_new_spec _ _ Hg) as (Hb & He & Hn).
  intros a b H.
  induction H using Derivable_mind with
    (P0 := fun w fs (_ : Holds prog w fs) =>
             exists prems, length fs = length prems /\ check_prems (check g prog) w fs prems = true).
  - exists (PFiat a b). cbn [check]. rewrite He.
    assert (E : in_props a b (gprops prog) = true) by (apply in_props_In; assumption).
    rewrite E, orb_true_r. reflexivity.
  - exists (PFiat (TI z) (TI z)). cbn [check is_lit]. rewrite tm_eqb_refl. reflexivity.
  - destruct IHDerivable as (prems & Hlen & Hc).
    exists (PRule a b (rname rl) prems sub). rewrite check_rule_eq.
    rewrite (find_rule_unique _ _ Hn i). rewrite Hlen, Nat.eqb_refl. rewrite Hb, Hc, e.
    assert (E : in_props a b props = true) by (apply in_props_In; assumption).
    rewrite E. reflexivity.
  - destruct IHDerivable as [p Hp]. exists (PSym b a p). cbn [check]. rewrite Hp.
    rewrite !tm_eqb_refl. reflexivity.
  - destruct IHDerivable1 as [p Hp]. destruct IHDerivable2 as [q Hq].
    exists (PTrans a c p q). cbn [check]. rewrite Hp, Hq, !tm_eqb_refl. reflexivity.
  - destruct IHDerivable1 as [p Hp]. destruct IHDerivable2 as [q Hq].
    exists (PCongr t (T f (set_child cs i c')) p i q). cbn [check]. rewrite Hp, Hq, e.
    assert (Hi : Nat.ltb i (length cs) = true).
    { apply Nat.ltb_lt. apply nth_error_Some. congruence. }
    rewrite Hi, !tm_eqb_refl. reflexivity.
  - exists []. split; reflexivity.
  - destruct IHDerivable as [p Hp]. destruct IHDerivable0 as (prems & Hlen & Hc).
    exists (p :: prems). split; [cbn [length]; congruence|].
    cbn [check_prems]. rewrite Hp. cbn [fact_matches fst snd]. rewrite e, e0, !tm_eqb_refl, Hc.
    reflexivity.
  - destruct IHDerivable as [p Hp]. destruct IHDerivable0 as (prems & Hlen & Hc).
    exists (p :: prems). split; [cbn [length]; congruence|].
    cbn [check_prems]. rewrite Hp. cbn [fact_matches fst snd]. rewrite e0, tm_eqb_refl, Hc.
    reflexivity.
Qed.

(** "every derivable fact gets a proof the checker accepts, and only those" *)
Theorem accepted_iff_derivable prog g : ctx_new prog = Some g ->
  forall a b, (exists p, check_proof prog p = Some (a, b)) <-> Derivable prog a b.
Proof.
  intros Hg a b. split.
  - intros [p Hp]. eapply checker_sound; eauto.
  - intros H. destruct (checker_complete _ _ Hg _ _ H) as [p Hp]. exists p.
    unfold check_proof. rewrite Hg. exact Hp.
Qed.

(* ------------------------------------------------------------------ *)
(** * non-vacuity: a program, an accepted proof that uses a rule, a global action, symmetry,
      transitivity and congruence; and its rejected alterations *)

Module Example.
  (* constructors: 0 = K0, 1 = K1, 2 = F ; rule 0: (= v0 (F v1)) => (union v0 v1) *)
  Definition K0 := T 0 []. Definition K1 := T 1 []. Definition F x := T 2 [x].
  Definition r0 := mkRule 0 [FEq (PV 0) (PA 2 [PV 1])] [AUnion (PV 0) (PV 1)].
  Definition prog : program :=
    [CAct (AExpr (PA 2 [PA 2 [PA 0 []]])); CAct (AUnion (PA 0 []) (PA 1 [])); CRule r0].
  (* F K0 = K0 by the rule *)
  Definition pr_rule := PRule (F K0) K0 0 [PFiat (F K0) (F K0)] [(0, F K0); (1, K0)].
  (* F (F K0) = F K0 by congruence, then = K0, then = K1 *)
  Definition pr_congr := PCongr (F (F K0)) (F K0) (PFiat (F (F K0)) (F (F K0))) 0 pr_rule.
  Definition pr := PTrans (F (F K0)) K1 (PTrans (F (F K0)) K0 pr_congr pr_rule)
                          (PSym K0 K1 (PFiat K1 K0)).
End Example.
