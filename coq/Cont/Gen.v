(** C14 — the container environment ASSEMBLED FROM THE REGENERATED FACTS (gen/ContFacts.v, produced
    on every run by translator/src/x_cont.rs from core-relations/src/containers/mod.rs and
    egglog-bridge/src/lib.rs), and the proofs that the hand model of Cont/Env.v — the one all
    C14 theorems are about — IS that assembly, for all inputs.

    The only hand-written part here is the interpretation of the effect vocabulary
    ([cop]: to_container remove/insert, to_id entry set/insert, val_index loop over iter()) on the
    three finite maps of [env]; which effects happen in which arm, under which guard, with which
    of old/result/value, which id the merge keeps, which union it stages, when an id is dirty,
    and the shape of the closure loop all come from the generated file. *)
From Coq Require Import List Arith Bool PeanoNat Lia.
Import ListNotations.
Require Import Verif.Base.Res Verif.gen.UFSeq Verif.gen.MergeArms Verif.gen.BridgeFns Verif.gen.ContFacts
  Verif.Egg.Model Verif.Cont.Env.

Section G.
  Variable oracle : nat -> nat -> nat -> nat.

  (* ------------------------------------------------------------------ effect interpreter *)
  Record ioctx := mkX { x_old : nat; x_result : nat; x_value : nat }.
  Definition cv (x : ioctx) (v : cvar) : nat :=
    match v with VOld => x_old x | VResult => x_result x | VValue => x_value x end.

  Definition ix_apply (x : ioctx) (ops : list ixop) (s : list nat) : list nat :=
    fold_left (fun s op => match op with
                           | IxRemove v => srem (cv x v) s
                           | IxInsert v => sadd (cv x v) s
                           end) ops s.

  (** [c]: the key of the to_id entry the arm works on *)
  Definition cop_apply (c : cont) (x : ioctx) (e : env) (op : cop) : env :=
    match op with
    | TcRemove v => mkEnv (to_id e) (del_cont (to_cont e) (cv x v)) (vidx e)
    | TcInsert v => mkEnv (to_id e) (tc_insert (to_cont e) (cv x v) c) (vidx e)
    | IdSet v => mkEnv ((c, cv x v) :: del_key (to_id e) c) (to_cont e) (vidx e)
    | IdInsert v => mkEnv ((c, cv x v) :: to_id e) (to_cont e) (vidx e)
    | IdxForIter ops =>
        mkEnv (to_id e) (to_cont e) (fold_left (fun vi y => idx_upd vi y (ix_apply x ops)) (iter c) (vidx e))
    end.

  Definition run_cops (c : cont) (x : ioctx) (ops : list cop) (e : env) : env :=
    fold_left (cop_apply c x) ops e.

  (* ------------------------------------------------------------------ insert_owned *)
  Definition insert_owned_g (e : env) (c : cont) (value : nat) : env * nat * list (nat * nat) :=
    match find_id (to_id e) c with
    | Some old =>
        let x0 := mkX old 0 value in
        let a := cv x0 (fst io_merge_args) in
        let b := cv x0 (snd io_merge_args) in
        let x := mkX old (cont_merge a b) value in
        let e' := if negb (cv x (fst io_occ_guard_ne) =? cv x (snd io_occ_guard_ne))
                  then run_cops c x io_occ_changed_ops e else e in
        (e', cv x io_occ_ret, cont_merge_staged a b)
    | None =>
        let x := mkX 0 0 value in
        (run_cops c x io_vac_ops e, cv x io_vac_ret, [])
    end.

  Lemma env_eta e : mkEnv (to_id e) (to_cont e) (vidx e) = e.
  Proof. destruct e; reflexivity. Qed.

  Theorem insert_owned_g_eq e c v : insert_owned_g e c v = insert_owned e c v.
  Proof.
    unfold insert_owned_g, insert_owned, add_entry, idx_add_all, idx_swap_all, run_cops.
    destruct (find_id (to_id e) c) as [old|]; cbn -[Nat.eqb Nat.min]; [|reflexivity].
    unfold cont_merge, cont_merge_staged, merge_unionid.
    destruct (old =? v) eqn:E1; cbn -[Nat.eqb Nat.min].
    - rewrite Nat.eqb_refl. cbn. reflexivity.
    - destruct (Nat.min old v =? old) eqn:E2; cbn -[Nat.eqb Nat.min]; reflexivity.
  Qed.

  (* ------------------------------------------------------------------ the two strategies *)
  Section Pass.
    Variable f : nat -> nat.

    Fixpoint scan_full_g (entries : list (cont * nat)) (e : env) (todo : list (cont * nat * bool))
             (chg : bool) : env * list (cont * nat * bool) * bool :=
      match entries with
      | [] => (e, todo, chg)
      | (c, v) :: tl =>
          let nv := f v in
          let ch := changed f c in
          if nonincr_skip ch nv v then scan_full_g tl e todo chg
          else if nonincr_requeue ch nv v then
            scan_full_g tl (mkEnv (del_id (to_id e) v) (del_cont (to_cont e) (nonincr_taken_locator ch nv v)) (vidx e))
                        (todo ++ [(rebuild_raw oracle f c, nonincr_queued_id ch nv v, nonincr_queued_stable ch nv v)]) true
          else
            scan_full_g tl (mkEnv ((c, nv) :: del_key (to_id e) c)
                                  (tc_insert (del_cont (to_cont e) v) nv c)
                                  (if nonincr_rekey_touches_val_index
                                   then idx_swap_all (vidx e) (iter c) v nv else vidx e))
                        todo true
      end.

    Fixpoint reinsert_g (todo : list (cont * nat * bool)) (e : env) (us : list (nat * nat))
             (dirty : list nat) : env * list (nat * nat) * list nat :=
      match todo with
      | [] => (e, us, dirty)
      | (c, v, stable) :: tl =>
          let '(e', actual, u) := insert_owned_g e c v in
          reinsert_g tl e' (us ++ u)
                     (if nonincr_dirty stable actual v then dirty ++ [nonincr_dirty_id stable actual v] else dirty)
      end.

    Definition pass_full_g (e : env) : env * list (nat * nat) * list nat * bool :=
      let '(e1, todo, chg) := scan_full_g (to_id e) e [] false in
      let '(e2, us, dirty) := reinsert_g todo e1 [] [] in
      (e2, us, dirty, chg).

    Definition to_rebuild_g (displaced : list nat) (e : env) : list nat :=
      nodup Nat.eq_dec
        (flat_map (fun d => (if inc_to_rebuild_self then [d] else [])
                            ++ (if inc_to_rebuild_index then idx_get (vidx e) d else [])) displaced).

    Fixpoint inc_loop_g (ids : list nat) (e : env) (us : list (nat * nat)) (dirty : list nat)
             (chg : bool) : env * list (nat * nat) * list nat * bool :=
      match ids with
      | [] => (e, us, dirty, chg)
      | id :: tl =>
          match get_container e id with
          | None => inc_loop_g tl e us dirty chg
          | Some c =>
              let rid := f id in
              let ch := changed f c in
              let c' := rebuild_contents oracle f c in
              let tc := if rinc_drop_locator ch rid id 0
                        then del_cont (to_cont e) (rinc_dropped_locator ch rid id 0) else to_cont e in
              let e1 := mkEnv (del_id (to_id e) id) tc (vidx e) in
              let '(e2, actual, u) := insert_owned_g e1 c' (rinc_insert_id ch rid id 0) in
              inc_loop_g tl e2 (us ++ u)
                         (if rinc_dirty ch rid id actual then dirty ++ [rinc_dirty_id ch rid id actual] else dirty)
                         (chg || rinc_note_change ch rid id 0)
          end
      end.

    Definition pass_inc_g (displaced : list nat) (e : env) : env * list (nat * nat) * list nat * bool :=
      inc_loop_g (to_rebuild_g displaced e) e [] [] false.

    Lemma scan_full_g_eq entries : forall e todo chg,
      scan_full_g entries e todo chg = scan_full oracle f entries e todo chg.
    Proof.
      induction entries as [|[c v] tl IH]; intros e todo chg; [reflexivity|].
      cbn [scan_full_g scan_full].
      unfold nonincr_skip, nonincr_requeue, nonincr_taken_locator, nonincr_queued_id,
        nonincr_queued_stable, nonincr_rekey_touches_val_index.
      destruct (changed f c); destruct (f v =? v); cbn [negb andb]; rewrite ?IH; reflexivity.
    Qed.

    Lemma reinsert_g_eq todo : forall e us dirty,
      reinsert_g todo e us dirty = reinsert todo e us dirty.
    Proof.
      induction todo as [|[[c v] st] tl IH]; intros e us dirty; [reflexivity|].
      cbn [reinsert_g reinsert]. rewrite insert_owned_g_eq.
      destruct (insert_owned e c v) as [[e' actual] u].
      unfold nonincr_dirty, nonincr_dirty_id. apply IH.
    Qed.

    Theorem pass_full_g_eq e : pass_full_g e = pass_full oracle f e.
    Proof.
      unfold pass_full_g, pass_full. rewrite scan_full_g_eq.
      destruct (scan_full oracle f (to_id e) e [] false) as [[e1 todo] chg].
      rewrite reinsert_g_eq. reflexivity.
    Qed.

    Lemma to_rebuild_g_eq d e : to_rebuild_g d e = to_rebuild d e.
    Proof. reflexivity. Qed.

    Lemma inc_loop_g_eq ids : forall e us dirty chg,
      inc_loop_g ids e us dirty chg = inc_loop oracle f ids e us dirty chg.
    Proof.
      induction ids as [|id tl IH]; intros e us dirty chg; [reflexivity|].
      cbn [inc_loop_g inc_loop]. destruct (get_container e id) as [c|]; [|apply IH].
      unfold rinc_drop_locator, rinc_dropped_locator, rinc_insert_id, rinc_dirty, rinc_dirty_id,
        rinc_note_change.
      rewrite insert_owned_g_eq.
      replace (if negb (f id =? id) then del_cont (to_cont e) id else to_cont e)
        with (if f id =? id then to_cont e else del_cont (to_cont e) id)
        by (destruct (f id =? id); reflexivity).
      destruct (insert_owned _ _ _) as [[e2 actual] u].
      rewrite IH, orb_assoc. reflexivity.
    Qed.

    Theorem pass_inc_g_eq d e : pass_inc_g d e = pass_inc oracle f d e.
    Proof. unfold pass_inc_g, pass_inc. rewrite to_rebuild_g_eq. apply inc_loop_g_eq. Qed.
  End Pass.

  (* ------------------------------------------------------------------ dirty-id closure *)
  Definition has_act (a : closure_act) : bool :=
    existsb (fun b => match a, b with
                      | ActNoteDirty, ActNoteDirty | ActFrontier, ActFrontier => true
                      | _, _ => false
                      end) closure_fresh_actions.

  (** expand_dirty_id_closure with its three sets (frontier, seen, summary.dirty_ids) *)
  Fixpoint close_g (fuel : nat) (e : env) (frontier seen dirty : list nat) : list nat :=
    match fuel with
    | O => dirty
    | S fuel =>
        match frontier with
        | [] => dirty                                        (* !frontier.is_empty() *)
        | _ =>
            let src := match closure_next_from with ParentsOfFrontier => frontier | ParentsOfSeen => seen end in
            let next := flat_map (idx_get (vidx e)) src in    (* extend_containers_containing *)
            let fresh := nodup Nat.eq_dec (filter (fun v => negb (smem v seen)) next) in
            let seen' := seen ++ fresh in                     (* seen.insert(value) *)
            let dirty' := if has_act ActNoteDirty then dirty ++ fresh else dirty in
            let frontier' := if has_act ActFrontier then fresh else [] in   (* after frontier.clear() *)
            match closure_loop with
            | LoopWhile => close_g fuel e frontier' seen' dirty'
            | LoopOnce => dirty'
            end
        end
    end.

  Definition dirty_closure_g (e : env) (dirty : list nat) : list nat :=
    if rebuild_all_closes_dirty
    then close_g (S (length (all_index_ids e))) e dirty (nodup Nat.eq_dec dirty) (nodup Nat.eq_dec dirty)
    else dirty.

  Lemma close_g_nil fuel e seen dirty : close_g fuel e [] seen dirty = dirty.
  Proof. destruct fuel; reflexivity. Qed.

  Lemma close_g_eq e : forall fuel frontier seen,
    close_g fuel e frontier seen seen = close_dirty fuel e frontier seen.
  Proof.
    induction fuel as [|fuel IH]; intros frontier seen; [reflexivity|].
    cbn [close_dirty]. destruct frontier as [|x fr]; [reflexivity|].
    set (fro := x :: fr).
    change (close_g (S fuel) e fro seen seen)
      with (close_g fuel e
              (nodup Nat.eq_dec (filter (fun v => negb (smem v seen)) (flat_map (idx_get (vidx e)) fro)))
              (seen ++ nodup Nat.eq_dec (filter (fun v => negb (smem v seen)) (flat_map (idx_get (vidx e)) fro)))
              (seen ++ nodup Nat.eq_dec (filter (fun v => negb (smem v seen)) (flat_map (idx_get (vidx e)) fro)))).
    destruct (nodup Nat.eq_dec (filter (fun v => negb (smem v seen)) (flat_map (idx_get (vidx e)) fro))) as [|y fresh] eqn:Ef.
    - rewrite close_g_nil. apply app_nil_r.
    - apply IH.
  Qed.

  Theorem dirty_closure_g_eq e dirty : dirty_closure_g e dirty = dirty_closure e dirty.
  Proof. unfold dirty_closure_g, dirty_closure. cbn [rebuild_all_closes_dirty]. apply close_g_eq. Qed.

  (* ------------------------------------------------------------------ the rebuild loop *)

  (** the loop of Env.v over the assembled passes; the strategy may look at the state, as
      [ContainerEnv::apply_rebuild] does *)
  Fixpoint rebuild_loop_g (fuel : nat) (strat : nat -> cstate -> bool) (s : cstate) (dacc : list nat)
    : Res (cstate * list nat) :=
    match fuel with
    | O => OutOfFuel
    | S fuel =>
        let p := cuf s in
        let '(e', us, dirty, chg) :=
          if strat fuel s then pass_inc_g (rep p) (pending s) (cenv s) else pass_full_g (rep p) (cenv s) in
        let dirty' := dirty_closure_g e' dirty in
        bind (uf_unions p us) (fun p' =>
          let s' := mkCS p' e' (displaced p p') in
          if chg then rebuild_loop_g fuel strat s' (dacc ++ dirty') else Ok (s', dacc ++ dirty'))
    end.

  Lemma rebuild_loop_ext : forall fuel st1 st2 s dacc,
    (forall k, k < fuel -> st1 k = st2 k) ->
    rebuild_loop oracle fuel st1 s dacc = rebuild_loop oracle fuel st2 s dacc.
  Proof.
    induction fuel as [|fuel IH]; intros st1 st2 s dacc H; [reflexivity|].
    cbn [rebuild_loop]. rewrite (H fuel) by lia.
    destruct (if st2 fuel then _ else _) as [[[e' us] dirty] chg].
    destruct (uf_unions (cuf s) us) as [p'| |]; cbn [bind]; try reflexivity.
    destruct chg; [|reflexivity]. apply IH. intros k Hk. apply H. lia.
  Qed.

  (** every run of the assembled loop under a state-dependent strategy is a run of the hand loop
      under some per-pass strategy *)
  Theorem rebuild_loop_g_eq : forall fuel strat s dacc,
    exists st, rebuild_loop_g fuel strat s dacc = rebuild_loop oracle fuel st s dacc.
  Proof.
    induction fuel as [|fuel IH]; intros strat s dacc; [exists (fun _ => false); reflexivity|].
    cbn [rebuild_loop_g rebuild_loop].
    rewrite pass_inc_g_eq, pass_full_g_eq.
    set (b := strat fuel s).
    destruct (if b then pass_inc oracle (rep (cuf s)) (pending s) (cenv s)
              else pass_full oracle (rep (cuf s)) (cenv s)) as [[[e' us] dirty] chg] eqn:E.
    rewrite dirty_closure_g_eq.
    destruct (uf_unions (cuf s) us) as [p'| |] eqn:Eu.
    - destruct chg.
      + destruct (IH strat (mkCS p' e' (displaced (cuf s) p')) (dacc ++ dirty_closure e' dirty)) as (st & Est).
        exists (fun k => if k =? fuel then b else st k).
        rewrite Nat.eqb_refl, E, Eu. cbn [bind]. rewrite Est.
        apply rebuild_loop_ext. intros k Hk. destruct (Nat.eqb_spec k fuel); [lia|reflexivity].
      + exists (fun _ => b). rewrite E, Eu. reflexivity.
    - exists (fun _ => b). rewrite E, Eu. reflexivity.
    - exists (fun _ => b). rewrite E, Eu. reflexivity.
  Qed.

  (** the strategy the engine takes: the [incremental_rebuild] threshold of egglog-bridge over the
      number of displaced ids scanned and the number of containers of the environment *)
  Definition real_strategy (par_intra : nat -> bool) (have_hint : bool) (_ : nat) (s : cstate) : bool :=
    cont_strategy_incremental par_intra
      (if have_hint then Some (length (pending s)) else None) (length (to_id (cenv s))).
End G.

(* ------------------------------------------------------------------ the parallel variant *)

(** apply_rebuild_nonincremental_parallel takes the same decisions as the serial variant: the scan
    arms, the collision arm (same effects, same guard, same merge arguments), the vacant arm, and
    the dirty test (in the vacant arm [actual = val], where the serial test reduces to [stable_id]) *)
Theorem par_same_decisions :
  (forall ch nv ov, par_skip ch nv ov = nonincr_skip ch nv ov
                    /\ par_requeue ch nv ov = nonincr_requeue ch nv ov
                    /\ par_taken_locator ch nv ov = nonincr_taken_locator ch nv ov
                    /\ par_queued_id ch nv ov = nonincr_queued_id ch nv ov
                    /\ par_queued_stable ch nv ov = nonincr_queued_stable ch nv ov)
  /\ par_rekey_touches_val_index = nonincr_rekey_touches_val_index
  /\ par_merge_args = io_merge_args /\ par_occ_guard_ne = io_occ_guard_ne
  /\ par_occ_changed_ops = io_occ_changed_ops /\ par_vac_ops = io_vac_ops
  /\ (forall st actual val, par_occ_dirty st actual val = nonincr_dirty st actual val
                            /\ par_occ_dirty_id st actual val = nonincr_dirty_id st actual val)
  /\ (forall st val, par_vac_dirty st val val = nonincr_dirty st val val
                     /\ par_vac_dirty_id st val val = nonincr_dirty_id st val val).
Proof.
  repeat split; try reflexivity.
  unfold par_vac_dirty, nonincr_dirty. rewrite Nat.eqb_refl, andb_true_r. reflexivity.
Qed.
