(** C19 / ReadOptimizedLock (concurrency/src/lib.rs:47-206): executable definitions only.

    Token protocol, all threads / all interleavings, sequentially consistent.
    - the token is an [ArcSwap<ReadToken>]; every token allocated gets a fresh generation number
      (pointer identity of the Arc: the CAS in [lock] compares pointers, and the loaded guard keeps
      the Arc alive, so there is no ABA);  [tok = (g, true)] is [ReadOk] of generation g,
      [(g, false)] is [WriteOngoing].
    - [token.load()] gives a guard that keeps that token alive (ASSUMED of arc-swap: a Guard keeps
      its Arc alive; debt-list internals are not modelled).
    - a [ReadOk] token fires its [TriggerWhenDone] notification when its last reference goes away:
      the writer's [readers_done.wait()] is enabled exactly when the token is no longer current
      and no thread holds a guard on it.
    - the protected datum is a pair (lo, hi) that a writer updates in two separate steps, and a
      reader reads in two separate steps: a torn read would be [a <> b]. *)
From Coq Require Import List Arith Bool Lia.
Import ListNotations.
Require Import Verif.Base.Res.

Inductive tpc :=
| Idle
| RLoaded (g : nat) (ok : bool)        (* read(): holds a guard on token g; ok = it is ReadOk *)
| RIn (g : nat)                        (* MutexReader alive, guard on ReadOk g *)
| RGot (g : nat) (a : nat)             (* has read lo = a *)
| RObs (g : nat) (a b : nat)           (* has read hi = b too *)
| Blocked (g : nat)                    (* read()/lock(): waiting for WriteOngoing g's notification *)
| WLoaded (g : nat) (ok : bool)        (* lock(): holds a guard on token g *)
| WSwapped (g g' : nat)                (* CAS ReadOk g -> WriteOngoing g' done, guard dropped,
                                          waiting for the readers of g *)
| WIn (g' : nat)                       (* MutexWriter alive *)
| WHalf (g' : nat) (v : nat)           (* wrote lo := v *)
| WFull (g' : nat).                    (* wrote hi := v; about to drop the MutexWriter *)

Record st := mk {
  tok : nat * bool;
  next : nat;                (* next fresh generation *)
  notified : list nat;       (* WriteOngoing generations whose notification fired *)
  lo : nat; hi : nat;
  lastw : nat;               (* ghost: value of the last write whose MutexWriter was dropped *)
  thr : list tpc
}.

Definition init (n : nat) : st := mk (0, true) 1 [] 0 0 0 (repeat Idle n).

Definition pcof (s : st) (t : nat) : tpc := nth t (thr s) Idle.
Definition setpc (s : st) (t : nat) (p : tpc) : list tpc := set_nth (thr s) t p.

(** guard held by a thread: (generation, is ReadOk) *)
Definition holds (p : tpc) : option (nat * bool) :=
  match p with
  | RLoaded g ok | WLoaded g ok => Some (g, ok)
  | RIn g | RGot g _ | RObs g _ _ => Some (g, true)
  | _ => None
  end.

Definition holds_gen (g : nat) (p : tpc) : bool :=
  match holds p with Some (g', _) => Nat.eqb g g' | None => false end.

Fixpoint memn (k : nat) (l : list nat) : bool :=
  match l with [] => false | x :: tl => (Nat.eqb k x || memn k tl)%bool end.

Inductive label :=
| LRLoad (t : nat) | LREnter (t : nat) | LBlock (t : nat) | LWake (t : nat)
| LReadLo (t : nat) | LReadHi (t : nat) | LRLeave (t : nat)
| LWLoad (t : nat) | LCasOk (t : nat) | LCasFail (t : nat)
| LWaitReaders (t : nat) | LWriteLo (t v : nat) | LWriteHi (t : nat) | LRelease (t : nat).

Definition exec (s : st) (l : label) : option st :=
  let upd t p := mk (tok s) (next s) (notified s) (lo s) (hi s) (lastw s) (setpc s t p) in
  match l with
  | LRLoad t =>
      match pcof s t with
      | Idle => if t <? length (thr s) then Some (upd t (RLoaded (fst (tok s)) (snd (tok s)))) else None
      | _ => None end
  | LREnter t =>
      match pcof s t with RLoaded g true => Some (upd t (RIn g)) | _ => None end
  | LBlock t =>
      match pcof s t with
      | RLoaded g false | WLoaded g false => Some (upd t (Blocked g))
      | _ => None end
  | LWake t =>
      match pcof s t with
      | Blocked g => if memn g (notified s) then Some (upd t Idle) else None
      | _ => None end
  | LReadLo t =>
      match pcof s t with RIn g => Some (upd t (RGot g (lo s))) | _ => None end
  | LReadHi t =>
      match pcof s t with RGot g a => Some (upd t (RObs g a (hi s))) | _ => None end
  | LRLeave t =>
      match pcof s t with RObs _ _ _ => Some (upd t Idle) | _ => None end
  | LWLoad t =>
      match pcof s t with
      | Idle => if t <? length (thr s) then Some (upd t (WLoaded (fst (tok s)) (snd (tok s)))) else None
      | _ => None end
  | LCasOk t =>
      match pcof s t with
      | WLoaded g true =>
          if (Nat.eqb g (fst (tok s)) && snd (tok s))%bool then
            Some (mk (next s, false) (S (next s)) (notified s) (lo s) (hi s) (lastw s)
                    (setpc s t (WSwapped g (next s))))
          else None
      | _ => None end
  | LCasFail t =>
      match pcof s t with
      | WLoaded g true =>
          if (Nat.eqb g (fst (tok s)) && snd (tok s))%bool then None else Some (upd t Idle)
      | _ => None end
  | LWaitReaders t =>
      match pcof s t with
      | WSwapped g g' =>
          if existsb (holds_gen g) (thr s) then None else Some (upd t (WIn g'))
      | _ => None end
  | LWriteLo t v =>
      match pcof s t with
      | WIn g' => Some (mk (tok s) (next s) (notified s) v (hi s) (lastw s) (setpc s t (WHalf g' v)))
      | _ => None end
  | LWriteHi t =>
      match pcof s t with
      | WHalf g' v => Some (mk (tok s) (next s) (notified s) (lo s) v (lastw s) (setpc s t (WFull g')))
      | _ => None end
  | LRelease t =>
      match pcof s t with
      | WFull g' =>
          Some (mk (next s, true) (S (next s)) (g' :: notified s) (lo s) (hi s) (hi s) (setpc s t Idle))
      | _ => None end
  end.

(** the transition relation IS the executable stepper: one definition, nothing to keep in sync *)
Definition step (s : st) (l : label) (s' : st) : Prop := exec s l = Some s'.

Inductive reachable (n : nat) : st -> Prop :=
| reach_init : reachable n (init n)
| reach_step s l s' : reachable n s -> step s l s' -> reachable n s'.

Fixpoint exec_all (s : st) (ls : list label) : option st :=
  match ls with
  | [] => Some s
  | l :: tl => match exec s l with Some s' => exec_all s' tl | None => None end
  end.

(** events logged by the harness INSIDE the critical sections of the real lock (ordered by one
    SeqCst counter): a reader logs [ERdIn t] right after [read()] returned and [ERdOut t a b] just
    before dropping the MutexReader, having read the two halves (a, b) in between; a writer logs
    [EWrIn t] right after [lock()] returned and [EWrOut t v] just before dropping the MutexWriter,
    having stored v into both halves in between. *)
Inductive ev := ERdIn (t : nat) | ERdOut (t a b : nat) | EWrIn (t : nat) | EWrOut (t v : nat).

Definition ev_labels (e : ev) : list label :=
  match e with
  | ERdIn t => [LRLoad t; LREnter t]
  | ERdOut t _ _ => [LReadLo t; LReadHi t; LRLeave t]
  | EWrIn t => [LWLoad t; LCasOk t; LWaitReaders t]
  | EWrOut t v => [LWriteLo t v; LWriteHi t; LRelease t]
  end.

Fixpoint replay (s : st) (es : list ev) : option st :=
  match es with
  | [] => Some s
  | e :: tl =>
      match e with
      | ERdOut t a b =>
          (* the values the real reader saw must be the ones the model reader sees *)
          match exec_all s [LReadLo t; LReadHi t] with
          | Some s1 =>
              match pcof s1 t with
              | RObs _ a' b' =>
                  if (Nat.eqb a a' && Nat.eqb b b')%bool then
                    match exec s1 (LRLeave t) with Some s2 => replay s2 tl | None => None end
                  else None
              | _ => None
              end
          | None => None
          end
      | _ => match exec_all s (ev_labels e) with Some s' => replay s' tl | None => None end
      end
  end.

Definition all_idle (s : st) : bool :=
  forallb (fun p => match p with Idle => true | _ => false end) (thr s).

(** a case = (number of threads, initial value of both halves is 0, event log) *)
Definition check_case (c : nat * list ev) : bool :=
  let '(n, es) := c in
  match replay (init n) es with
  | Some s => all_idle s
  | None => false
  end.
