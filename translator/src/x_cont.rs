//! Extension module (Tier A) for C14. Output: coq/gen/ContFacts.v
//!
//! Regenerates the DECISION LOGIC of the container environment from
//!   core-relations/src/containers/mod.rs   (ContainerEnv / ContainerValues)
//!   egglog-bridge/src/lib.rs               (register_container_ty merge closure, rebuild loop)
//!   core-relations/src/table/rebuild.rs    (refresh_rows_for_values)
//! as Gallina definitions which coq/Cont/Gen.v assembles into functions that are PROVED EQUAL to the
//! hand model (coq/Cont/Env.v) and pinned in coq/Props/C14.v.
//!
//! Items (each independently fail-closed: an unrecognised site omits the definitions):
//!   ContFacts.merge        cont_merge / cont_merge_staged            (bridge closure: which id survives, which union is staged)
//!   ContFacts.strategy     cont_strategy_incremental                 (apply_rebuild: threshold call)
//!   ContFacts.insert_owned io_*                                      (collision / vacant arms as effect lists)
//!   ContFacts.reinsert_inc rinc_*                                    (reinsert_incremental conditions)
//!   ContFacts.inc_scan     inc_to_rebuild_*                          (apply_rebuild_incremental: ids to rebuild, call wiring)
//!   ContFacts.nonincr      nonincr_*                                 (apply_rebuild_nonincremental: first loop arms, reinsertion loop)
//!   ContFacts.nonincr_par  par_*                                     (the parallel variant's arms)
//!   ContFacts.closure      closure_*                                 (rebuild_all + expand_dirty_id_closure loop structure)
//!   ContFacts.bridge_loop  bridge_*                                  (egglog-bridge rebuild loop: step order, break condition)
//!   ContFacts.refresh      refresh_*                                 (refresh_rows_for_values: what a refreshed row is)
use quote::ToTokens;
use std::path::Path;
use syn::visit::Visit;

type R<T> = Result<T, String>;

fn tok<T: ToTokens>(e: &T) -> String {
    e.to_token_stream().to_string().replace(' ', "")
}

fn parse(repo: &Path, rel: &str) -> R<syn::File> {
    let src = std::fs::read_to_string(repo.join(rel)).map_err(|e| format!("{rel}: {e}"))?;
    syn::parse_file(&src).map_err(|e| format!("{rel}: {e}"))
}

fn find_fn(file: &syn::File, name: &str) -> R<syn::Block> {
    struct F<'n> {
        name: &'n str,
        found: Vec<syn::Block>,
    }
    impl<'ast, 'n> Visit<'ast> for F<'n> {
        fn visit_impl_item_fn(&mut self, f: &'ast syn::ImplItemFn) {
            if f.sig.ident == self.name {
                self.found.push(f.block.clone());
            }
            syn::visit::visit_impl_item_fn(self, f);
        }
        fn visit_item_fn(&mut self, f: &'ast syn::ItemFn) {
            if f.sig.ident == self.name {
                self.found.push((*f.block).clone());
            }
            syn::visit::visit_item_fn(self, f);
        }
    }
    let mut v = F { name, found: vec![] };
    v.visit_file(file);
    if v.found.len() != 1 {
        return Err(format!("expected exactly one fn {name} with a body, found {}", v.found.len()));
    }
    Ok(v.found.pop().unwrap())
}

fn strip_parens(e: &syn::Expr) -> &syn::Expr {
    match e {
        syn::Expr::Paren(p) => strip_parens(&p.expr),
        syn::Expr::Group(g) => strip_parens(&g.expr),
        _ => e,
    }
}

/// value expressions: an identifier (possibly dereferenced / borrowed) out of `vars`
fn val_expr(e: &syn::Expr, vars: &[(&str, &str)]) -> R<String> {
    let mut t = tok(strip_parens(e));
    loop {
        if let Some(r) = t.strip_prefix('*') {
            t = r.to_string();
        } else if let Some(r) = t.strip_prefix('&') {
            t = r.to_string();
        } else {
            break;
        }
    }
    for (rust, coq) in vars {
        if t == *rust {
            return Ok(coq.to_string());
        }
    }
    Err(format!("value expression `{t}` is not one of the known variables {:?}", vars.iter().map(|x| x.0).collect::<Vec<_>>()))
}

/// boolean expressions over `bvars` (bool identifiers) and `vars` (nat identifiers):
/// `!`, `&&`, `||`, `==`, `!=`, parentheses
fn bool_expr(e: &syn::Expr, bvars: &[(&str, &str)], vars: &[(&str, &str)]) -> R<String> {
    let e = strip_parens(e);
    match e {
        syn::Expr::Unary(u) if matches!(u.op, syn::UnOp::Not(_)) => Ok(format!("negb {}", bool_atom(&u.expr, bvars, vars)?)),
        syn::Expr::Binary(b) => match b.op {
            syn::BinOp::And(_) => Ok(format!("{} && {}", bool_atom(&b.left, bvars, vars)?, bool_atom(&b.right, bvars, vars)?)),
            syn::BinOp::Or(_) => Ok(format!("{} || {}", bool_atom(&b.left, bvars, vars)?, bool_atom(&b.right, bvars, vars)?)),
            syn::BinOp::Eq(_) => Ok(format!("({} =? {})", val_expr(&b.left, vars)?, val_expr(&b.right, vars)?)),
            syn::BinOp::Ne(_) => Ok(format!("negb ({} =? {})", val_expr(&b.left, vars)?, val_expr(&b.right, vars)?)),
            _ => Err(format!("unsupported boolean operator in `{}`", tok(e))),
        },
        syn::Expr::Path(_) => {
            let t = tok(e);
            for (rust, coq) in bvars {
                if t == *rust {
                    return Ok(coq.to_string());
                }
            }
            Err(format!("boolean identifier `{t}` unknown"))
        }
        _ => Err(format!("unsupported boolean expression `{}`", tok(e))),
    }
}

fn bool_atom(e: &syn::Expr, bvars: &[(&str, &str)], vars: &[(&str, &str)]) -> R<String> {
    let s = bool_expr(e, bvars, vars)?;
    let simple = !s.contains(' ') || (s.starts_with('(') && s.ends_with(')') && !s[1..].contains('('));
    Ok(if simple { s } else { format!("({s})") })
}

fn stmt_expr(s: &syn::Stmt) -> Option<&syn::Expr> {
    match s {
        syn::Stmt::Expr(e, _) => Some(e),
        _ => None,
    }
}

fn as_if(s: &syn::Stmt) -> Option<&syn::ExprIf> {
    match stmt_expr(s)? {
        syn::Expr::If(i) => Some(i),
        _ => None,
    }
}

fn tail_expr(b: &syn::Block) -> R<&syn::Expr> {
    match b.stmts.last() {
        Some(syn::Stmt::Expr(e, None)) => Ok(e),
        _ => Err("block has no tail expression".into()),
    }
}

// ---------------------------------------------------------------------------------------------
// effect lists

const CVARS_IO: &[(&str, &str)] = &[("old_val", "VOld"), ("result", "VResult"), ("value", "VValue")];
const CVARS_PAR: &[(&str, &str)] = &[("old_val", "VOld"), ("result", "VResult"), ("val", "VValue")];

/// `for <x> in <e>.iter() { .. val_index ops .. }` -> IdxForIter [..]
fn idx_loop(f: &syn::ExprForLoop, vars: &[(&str, &str)]) -> R<String> {
    let it = tok(&*f.expr);
    if !(it.ends_with(".key().iter()") || it == "container.iter()") {
        return Err(format!("for-loop over `{it}`: expected the container's iter()"));
    }
    let lv = tok(&*f.pat);
    // inside the loop the loop variable shadows any outer variable of that name
    let vars: Vec<(&str, &str)> = vars.iter().copied().filter(|(r, _)| *r != lv).collect();
    let mut ops: Vec<String> = vec![];
    let mut index_alias: Option<String> = None;
    let entry = format!("self.val_index.entry({lv}).or_default()");
    for s in &f.body.stmts {
        match s {
            syn::Stmt::Local(l) => {
                let init = l.init.as_ref().ok_or("let without init in val_index loop")?;
                if tok(&*init.expr) != entry {
                    return Err(format!("unexpected let in val_index loop: `{}`", tok(s)));
                }
                let mut p = tok(&l.pat);
                if let Some(r) = p.strip_prefix("mut") {
                    p = r.to_string();
                }
                index_alias = Some(p);
            }
            syn::Stmt::Expr(syn::Expr::MethodCall(m), _) => {
                let recv = tok(&*m.receiver);
                let on_index = recv == entry || Some(&recv) == index_alias.as_ref();
                if !on_index || m.args.len() != 1 {
                    return Err(format!("unexpected statement in val_index loop: `{}`", tok(s)));
                }
                let a = val_expr(&m.args[0], &vars)?;
                match m.method.to_string().as_str() {
                    "insert" => ops.push(format!("IxInsert {a}")),
                    "swap_remove" | "shift_remove" | "remove" => ops.push(format!("IxRemove {a}")),
                    o => return Err(format!("unexpected val_index method `{o}`")),
                }
            }
            _ => return Err(format!("unexpected statement in val_index loop: `{}`", tok(s))),
        }
    }
    Ok(format!("IdxForIter [{}]", ops.join("; ")))
}

/// statements of a collision / vacant arm -> list of `cop`
fn cop_list(stmts: &[syn::Stmt], vars: &[(&str, &str)]) -> R<Vec<String>> {
    let mut ops = vec![];
    for s in stmts {
        // unsafe { shard.insert_in_slot(hc, slot, (container, SharedValue::new(val))); }
        if let Some(syn::Expr::Unsafe(u)) = stmt_expr(s) {
            if u.block.stmts.len() == 1 {
                let t = tok(&u.block.stmts[0]);
                if let Some(r) = t.strip_prefix("shard.insert_in_slot(hc,slot,(container,SharedValue::new(") {
                    let v = r.trim_end_matches(';').trim_end_matches(')');
                    let fake: syn::Expr = syn::parse_str(v).map_err(|e| e.to_string())?;
                    ops.push(format!("IdInsert {}", val_expr(&fake, vars)?));
                    continue;
                }
            }
            return Err(format!("unexpected unsafe statement `{}`", tok(s)));
        }
        match stmt_expr(s) {
            Some(syn::Expr::ForLoop(f)) => ops.push(idx_loop(f, vars)?),
            Some(syn::Expr::MethodCall(m)) => {
                let recv = tok(&*m.receiver);
                let meth = m.method.to_string();
                match (recv.as_str(), meth.as_str()) {
                    ("self.to_container", "remove") if m.args.len() == 1 => ops.push(format!("TcRemove {}", val_expr(&m.args[0], vars)?)),
                    ("self.to_container", "insert") if m.args.len() == 2 => ops.push(format!("TcInsert {}", val_expr(&m.args[0], vars)?)),
                    ("vacant_entry", "insert") | ("vac", "insert") if m.args.len() == 1 => ops.push(format!("IdInsert {}", val_expr(&m.args[0], vars)?)),
                    _ => return Err(format!("unexpected call `{}`", tok(s))),
                }
            }
            Some(syn::Expr::Assign(a)) => {
                let l = tok(&*a.left);
                if l == "*occ.get_mut()" || l == "*val_slot.get_mut()" {
                    ops.push(format!("IdSet {}", val_expr(&a.right, vars)?));
                } else {
                    return Err(format!("unexpected assignment `{}`", tok(s)));
                }
            }
            _ => return Err(format!("unexpected statement `{}`", tok(s))),
        }
    }
    Ok(ops)
}

fn coq_list(v: &[String]) -> String {
    format!("[{}]", v.join("; "))
}

// ---------------------------------------------------------------------------------------------
// items

/// register_container_ty: `move |state, old, new| { if old != new { ..stage_insert(uf_table, &[old, new, ts]); min(old, new) } else { old } }`
fn item_merge(repo: &Path) -> R<String> {
    let file = parse(repo, "egglog-bridge/src/lib.rs")?;
    let body = find_fn(&file, "register_container_ty")?;
    struct C {
        cl: Vec<syn::ExprClosure>,
    }
    impl<'ast> Visit<'ast> for C {
        fn visit_expr_closure(&mut self, c: &'ast syn::ExprClosure) {
            self.cl.push(c.clone());
        }
    }
    let mut c = C { cl: vec![] };
    c.visit_block(&body);
    if c.cl.len() != 1 || c.cl[0].inputs.len() != 3 {
        return Err("register_container_ty: expected one closure |state, old, new|".into());
    }
    let cl = &c.cl[0];
    let a = tok(&cl.inputs[1]);
    let b = tok(&cl.inputs[2]);
    let vars: Vec<(&str, &str)> = vec![(a.as_str(), "old"), (b.as_str(), "new")];
    let blk = match &*cl.body {
        syn::Expr::Block(b) => &b.block,
        _ => return Err("merge closure body is not a block".into()),
    };
    if blk.stmts.len() != 1 {
        return Err("merge closure: expected a single if-else".into());
    }
    let i = as_if(&blk.stmts[0]).ok_or("merge closure: expected if-else")?;
    let cond = bool_expr(&i.cond, &[], &vars)?;
    let nat_tail = |b: &syn::Block| -> R<String> {
        let t = tail_expr(b)?;
        if let syn::Expr::Call(c) = t {
            let f = tok(&*c.func);
            let op = match f.as_str() {
                "std::cmp::min" | "cmp::min" | "min" => "Nat.min",
                "std::cmp::max" | "cmp::max" | "max" => "Nat.max",
                _ => return Err(format!("merge closure: unknown call `{f}`")),
            };
            if c.args.len() != 2 {
                return Err("min/max arity".into());
            }
            return Ok(format!("{op} {} {}", val_expr(&c.args[0], &vars)?, val_expr(&c.args[1], &vars)?));
        }
        val_expr(t, &vars)
    };
    let staged = |b: &syn::Block| -> R<Vec<String>> {
        let mut out = vec![];
        let n = b.stmts.len();
        for s in &b.stmts[..n.saturating_sub(1)] {
            match s {
                syn::Stmt::Local(l) => {
                    let t = tok(&l.pat);
                    if t != "next_ts" {
                        return Err(format!("merge closure: unexpected let `{t}`"));
                    }
                }
                syn::Stmt::Expr(syn::Expr::MethodCall(m), Some(_)) if m.method == "stage_insert" && m.args.len() == 2 => {
                    if tok(&m.args[0]) != "uf_table" {
                        return Err("stage_insert not into uf_table".into());
                    }
                    let arr = match &m.args[1] {
                        syn::Expr::Reference(r) => match &*r.expr {
                            syn::Expr::Array(a) => a.clone(),
                            _ => return Err("stage_insert row is not an array".into()),
                        },
                        _ => return Err("stage_insert row is not &[..]".into()),
                    };
                    if arr.elems.len() != 3 {
                        return Err("stage_insert row: expected [a, b, ts]".into());
                    }
                    out.push(format!("({}, {})", val_expr(&arr.elems[0], &vars)?, val_expr(&arr.elems[1], &vars)?));
                }
                _ => return Err(format!("merge closure: unexpected statement `{}`", tok(s))),
            }
        }
        Ok(out)
    };
    let then_v = nat_tail(&i.then_branch)?;
    let then_s = staged(&i.then_branch)?;
    let else_blk = match i.else_branch.as_ref().map(|x| &*x.1) {
        Some(syn::Expr::Block(b)) => &b.block,
        _ => return Err("merge closure: else branch missing".into()),
    };
    let else_v = nat_tail(else_blk)?;
    let else_s = staged(else_blk)?;
    Ok(format!(
        "(* egglog-bridge/src/lib.rs register_container_ty: the merge closure handed to every ContainerEnv *)\n\
         Definition cont_merge (old new : nat) : nat :=\n  if {cond} then {then_v} else {else_v}.\n\
         Definition cont_merge_staged (old new : nat) : list (nat * nat) :=\n  if {cond} then {} else {}.\n",
        coq_list(&then_s),
        coq_list(&else_s)
    ))
}

/// ContainerEnv::apply_rebuild: `if let Some(subset) = subset && incremental_rebuild(a, b, c) { return incremental } nonincremental`
fn item_strategy(file: &syn::File) -> R<String> {
    let body = find_fn(file, "apply_rebuild")?;
    if body.stmts.len() != 2 {
        return Err(format!("apply_rebuild: expected `if .. {{ return .. }}` + tail, found {} statements", body.stmts.len()));
    }
    let i = as_if(&body.stmts[0]).ok_or("apply_rebuild: first statement is not an if")?;
    if i.else_branch.is_some() {
        return Err("apply_rebuild: unexpected else".into());
    }
    let (l, r) = match strip_parens(&i.cond) {
        syn::Expr::Binary(b) if matches!(b.op, syn::BinOp::And(_)) => (&*b.left, &*b.right),
        _ => return Err("apply_rebuild: condition is not `let .. && ..`".into()),
    };
    if tok(l) != "letSome(subset)=subset" {
        return Err(format!("apply_rebuild: unexpected binding `{}`", tok(l)));
    }
    let call = match strip_parens(r) {
        syn::Expr::Call(c) if tok(&*c.func) == "incremental_rebuild" && c.args.len() == 3 => c,
        _ => return Err("apply_rebuild: expected incremental_rebuild(_, _, _)".into()),
    };
    let arg = |e: &syn::Expr| -> R<String> {
        match tok(e).as_str() {
            "subset.size()" => Ok("subset_size".into()),
            "self.to_id.len()" => Ok("to_id_len".into()),
            "parallelize_intra_container_op(self.to_id.len())" => Ok("(par_intra to_id_len)".into()),
            "parallelize_intra_container_op(subset.size())" => Ok("(par_intra subset_size)".into()),
            t => Err(format!("apply_rebuild: unknown argument `{t}`")),
        }
    };
    let (a, b, c) = (arg(&call.args[0])?, arg(&call.args[1])?, arg(&call.args[2])?);
    let then_t = tok(&i.then_branch);
    if !then_t.starts_with("{returnself.apply_rebuild_incremental(") {
        return Err("apply_rebuild: then-branch does not return apply_rebuild_incremental".into());
    }
    if !tok(&body.stmts[1]).starts_with("self.apply_rebuild_nonincremental(") {
        return Err("apply_rebuild: tail is not apply_rebuild_nonincremental".into());
    }
    Ok(format!(
        "(* containers/mod.rs ContainerEnv::apply_rebuild: true = apply_rebuild_incremental, false = apply_rebuild_nonincremental *)\n\
         Definition cont_strategy_incremental (par_intra : nat -> bool) (subset : option nat) (to_id_len : nat) : bool :=\n  \
         match subset with\n  | Some subset_size => incremental_rebuild {a} {b} {c}\n  | None => false\n  end.\n"
    ))
}

fn match_arms<'a>(e: &'a syn::Expr, what: &str) -> R<(&'a syn::Arm, &'a syn::Arm)> {
    let m = match e {
        syn::Expr::Match(m) => m,
        _ => return Err(format!("{what}: expected a match")),
    };
    let mut occ = None;
    let mut vac = None;
    for a in &m.arms {
        let p = tok(&a.pat);
        if p.contains("Occupied(") || p.starts_with("Ok(") {
            occ = Some(a);
        } else if p.contains("Vacant(") || p.starts_with("Err(") {
            vac = Some(a);
        } else {
            return Err(format!("{what}: unexpected arm `{p}`"));
        }
    }
    match (occ, vac) {
        (Some(o), Some(v)) if m.arms.len() == 2 => Ok((o, v)),
        _ => Err(format!("{what}: expected exactly an occupied and a vacant arm")),
    }
}

fn arm_block<'a>(a: &'a syn::Arm) -> R<&'a syn::Block> {
    match &*a.body {
        syn::Expr::Block(b) => Ok(&b.block),
        _ => Err("match arm body is not a block".into()),
    }
}

/// the occupied arm: `let result = (self.merge_fn)(st, <cur>, <incoming>); let old_val = <cur>; if result != old_val { ops }` [+ rest]
/// returns (merge args, guard, ops, remaining statements)
fn occupied_arm<'a>(blk: &'a syn::Block, cur: &str, vars: &[(&str, &str)]) -> R<(String, String, Vec<String>, &'a [syn::Stmt])> {
    let mut merge_args = None;
    let mut seen_old = false;
    let mut idx = 0;
    for (k, s) in blk.stmts.iter().enumerate() {
        match s {
            syn::Stmt::Local(l) => {
                let p = tok(&l.pat);
                let init = tok(&*l.init.as_ref().ok_or("let without init")?.expr);
                if p == "result" {
                    let pre = "(self.merge_fn)(";
                    let inner = init.strip_prefix(pre).and_then(|x| x.strip_suffix(')')).ok_or_else(|| format!("result is not a merge_fn call: `{init}`"))?;
                    let parts: Vec<&str> = inner.split(',').collect();
                    if parts.len() != 3 {
                        return Err("merge_fn arity".into());
                    }
                    let tr = |x: &str| -> R<&str> {
                        if x == cur || x == "old_val" {
                            Ok("VOld")
                        } else if x == "value" || x == "val" {
                            Ok("VValue")
                        } else {
                            Err(format!("merge_fn argument `{x}`"))
                        }
                    };
                    merge_args = Some(format!("({}, {})", tr(parts[1])?, tr(parts[2])?));
                } else if p == "old_val" {
                    if init != cur {
                        return Err(format!("old_val bound to `{init}`"));
                    }
                    seen_old = true;
                } else if p == "(container,val_slot)" {
                    // parallel variant: `let (container, val_slot) = unsafe { bucket.as_mut() };`
                } else {
                    return Err(format!("occupied arm: unexpected let `{p}`"));
                }
            }
            _ => {
                idx = k;
                break;
            }
        }
    }
    let merge_args = merge_args.ok_or("occupied arm: merge_fn call not found")?;
    if !seen_old {
        return Err("occupied arm: old_val binding not found".into());
    }
    let i = as_if(&blk.stmts[idx]).ok_or("occupied arm: expected `if result != old_val`")?;
    if i.else_branch.is_some() {
        return Err("occupied arm: unexpected else".into());
    }
    let guard = match strip_parens(&i.cond) {
        syn::Expr::Binary(b) if matches!(b.op, syn::BinOp::Ne(_)) => format!("({}, {})", val_expr(&b.left, vars)?, val_expr(&b.right, vars)?),
        _ => return Err("occupied arm: guard is not `a != b`".into()),
    };
    let ops = cop_list(&i.then_branch.stmts, vars)?;
    Ok((merge_args, guard, ops, &blk.stmts[idx + 1..]))
}

const COP_DECL: &str = "Inductive cvar := VOld | VResult | VValue.\n\
Inductive ixop := IxRemove (v : cvar) | IxInsert (v : cvar).\n\
Inductive cop := TcRemove (v : cvar) | TcInsert (v : cvar) | IdSet (v : cvar) | IdInsert (v : cvar) | IdxForIter (ops : list ixop).\n";

fn item_insert_owned(file: &syn::File) -> R<String> {
    let body = find_fn(file, "insert_owned")?;
    let t = tail_expr(&body)?;
    let (occ, vac) = match_arms(t, "insert_owned")?;
    if let syn::Expr::Match(m) = t {
        if tok(&*m.expr) != "self.to_id.entry(container)" {
            return Err("insert_owned: scrutinee is not self.to_id.entry(container)".into());
        }
    }
    let ob = arm_block(occ)?;
    let (margs, guard, ops, rest) = occupied_arm(ob, "*occ.get()", CVARS_IO)?;
    if rest.len() != 1 {
        return Err("insert_owned occupied arm: expected a tail after the if".into());
    }
    let oret = val_expr(stmt_expr(&rest[0]).ok_or("tail")?, CVARS_IO)?;
    let vb = arm_block(vac)?;
    let n = vb.stmts.len();
    if n == 0 {
        return Err("insert_owned vacant arm empty".into());
    }
    let vops = cop_list(&vb.stmts[..n - 1], CVARS_IO)?;
    let vret = val_expr(tail_expr(vb)?, CVARS_IO)?;
    Ok(format!(
        "(* containers/mod.rs ContainerEnv::insert_owned *)\n\
         Definition io_merge_args : cvar * cvar := {margs}.   (* (self.merge_fn)(_, a, b) *)\n\
         Definition io_occ_guard_ne : cvar * cvar := {guard}. (* if a != b *)\n\
         Definition io_occ_changed_ops : list cop := {}.\n\
         Definition io_occ_ret : cvar := {oret}.\n\
         Definition io_vac_ops : list cop := {}.\n\
         Definition io_vac_ret : cvar := {vret}.\n",
        coq_list(&ops),
        coq_list(&vops)
    ))
}

const RINC_B: &[(&str, &str)] = &[("container_changed", "container_changed")];
const RINC_V: &[(&str, &str)] = &[("rebuilt_id", "rebuilt_id"), ("old_id", "old_id"), ("actual", "actual")];
const RINC_SIG: &str = "(container_changed : bool) (rebuilt_id old_id actual : nat)";

fn single_call_body(i: &syn::ExprIf, expect_prefix: &str) -> R<String> {
    if i.else_branch.is_some() || i.then_branch.stmts.len() != 1 {
        return Err(format!("expected `if .. {{ {expect_prefix}..; }}`"));
    }
    let t = tok(&i.then_branch.stmts[0]);
    let r = t.strip_prefix(expect_prefix).ok_or_else(|| format!("expected `{expect_prefix}..`, found `{t}`"))?;
    Ok(r.trim_end_matches(';').trim_end_matches(')').trim_start_matches('&').to_string())
}

fn item_reinsert_inc(file: &syn::File) -> R<String> {
    let body = find_fn(file, "reinsert_incremental")?;
    if body.stmts.len() != 4 {
        return Err(format!("reinsert_incremental: expected 4 statements, found {}", body.stmts.len()));
    }
    let i0 = as_if(&body.stmts[0]).ok_or("stmt 0 not an if")?;
    single_call_body(i0, "summary.note_change(")?;
    let c0 = bool_expr(&i0.cond, RINC_B, RINC_V)?;
    let i1 = as_if(&body.stmts[1]).ok_or("stmt 1 not an if")?;
    let dropped = single_call_body(i1, "self.to_container.remove(")?;
    let c1 = bool_expr(&i1.cond, RINC_B, RINC_V)?;
    let dropped = val_expr(&syn::parse_str::<syn::Expr>(&dropped).map_err(|e| e.to_string())?, RINC_V)?;
    let l = match &body.stmts[2] {
        syn::Stmt::Local(l) if tok(&l.pat) == "actual" => tok(&*l.init.as_ref().ok_or("init")?.expr),
        _ => return Err("stmt 2 is not `let actual = ..`".into()),
    };
    let inner = l.strip_prefix("self.insert_owned(container,").and_then(|x| x.strip_suffix(",exec_state)")).ok_or("stmt 2 is not insert_owned(container, _, exec_state)")?;
    let ins = val_expr(&syn::parse_str::<syn::Expr>(inner).map_err(|e| e.to_string())?, RINC_V)?;
    let i3 = as_if(&body.stmts[3]).ok_or("stmt 3 not an if")?;
    let noted = single_call_body(i3, "summary.note_dirty_id(")?;
    let noted = val_expr(&syn::parse_str::<syn::Expr>(&noted).map_err(|e| e.to_string())?, RINC_V)?;
    let c3 = bool_expr(&i3.cond, RINC_B, RINC_V)?;
    Ok(format!(
        "(* containers/mod.rs ContainerEnv::reinsert_incremental *)\n\
         Definition rinc_note_change {RINC_SIG} : bool := {c0}.\n\
         Definition rinc_drop_locator {RINC_SIG} : bool := {c1}.\n\
         Definition rinc_dropped_locator {RINC_SIG} : nat := {dropped}.\n\
         Definition rinc_insert_id {RINC_SIG} : nat := {ins}.\n\
         Definition rinc_dirty {RINC_SIG} : bool := {c3}.\n\
         Definition rinc_dirty_id {RINC_SIG} : nat := {noted}.\n"
    ))
}

fn find_for_loops(b: &syn::Block) -> Vec<syn::ExprForLoop> {
    struct V {
        out: Vec<syn::ExprForLoop>,
    }
    impl<'ast> Visit<'ast> for V {
        fn visit_expr_for_loop(&mut self, f: &'ast syn::ExprForLoop) {
            self.out.push(f.clone());
            syn::visit::visit_expr_for_loop(self, f);
        }
    }
    let mut v = V { out: vec![] };
    v.visit_block(b);
    v.out
}

fn item_inc_scan(file: &syn::File) -> R<String> {
    let body = find_fn(file, "apply_rebuild_incremental")?;
    let loops = find_for_loops(&body);
    if loops.len() != 2 {
        return Err(format!("apply_rebuild_incremental: expected 2 for-loops, found {}", loops.len()));
    }
    // loop 1: which ids are queued
    let l1 = &loops[0];
    if tok(&*l1.expr) != "buf.iter()" || tok(&*l1.pat) != "(_,row)" {
        return Err("apply_rebuild_incremental: first loop is not over the scanned displaced ids".into());
    }
    let mut self_in = false;
    let mut idx_in = false;
    for s in &l1.body.stmts {
        let t = tok(s);
        if t == "to_rebuild.insert(row[0]);" {
            self_in = true;
        } else if t.starts_with("letSome(ids)=self.val_index.get(&row[0])else{continue") {
        } else if t == "to_rebuild.extend(&*ids);" {
            idx_in = true;
        } else {
            return Err(format!("apply_rebuild_incremental: unexpected statement in first loop `{t}`"));
        }
    }
    // loop 2: the wiring
    let l2 = &loops[1];
    if tok(&*l2.expr) != "to_rebuild" || tok(&*l2.pat) != "id" {
        return Err("apply_rebuild_incremental: second loop is not `for id in to_rebuild`".into());
    }
    let mut looked_up_by_id = false;
    let mut rid = false;
    let mut ch = false;
    let mut call = false;
    for s in &l2.body.stmts {
        let t = tok(s);
        if t.starts_with("letSome((hc,target_map))=self.to_container.get(&id)") {
        } else if t.starts_with("letshard_mut=self.to_id.shards_mut()[target_map]") {
        } else if t.starts_with("letSome((mutcontainer,_))=shard_mut.remove_entry(hcasu64,|(_,v)|*v.get()==id)else{continue") {
            looked_up_by_id = true;
        } else if t == "letrebuilt_id=rebuilder.rebuild_val(id);" {
            rid = true;
        } else if t == "letcontainer_changed=container.rebuild_contents(rebuilder);" {
            ch = true;
        } else if t == "self.reinsert_incremental(container,id,rebuilt_id,container_changed,exec_state,&mutsummary,);"
            || t == "self.reinsert_incremental(container,id,rebuilt_id,container_changed,exec_state,&mutsummary);"
        {
            call = true;
        } else {
            return Err(format!("apply_rebuild_incremental: unexpected statement in second loop `{t}`"));
        }
    }
    if !(looked_up_by_id && rid && ch && call) {
        return Err("apply_rebuild_incremental: second loop wiring incomplete".into());
    }
    Ok(format!(
        "(* containers/mod.rs ContainerEnv::apply_rebuild_incremental: ids queued per displaced id d; the second loop takes the entry filed under id, \
         computes rebuilt_id := rebuild_val id, container_changed := rebuild_contents, and calls reinsert_incremental(container, id, rebuilt_id, container_changed) *)\n\
         Definition inc_to_rebuild_self : bool := {self_in}.\n\
         Definition inc_to_rebuild_index : bool := {idx_in}.\n"
    ))
}

const NI_B: &[(&str, &str)] = &[("container_changed", "container_changed"), ("stable_id", "stable_id")];
const NI_V: &[(&str, &str)] = &[("new_val", "new_val"), ("old_val", "old_val")];

/// the scan loop `for bucket in unsafe { shard.iter() }` shared by the serial and parallel variants
fn scan_loop(l: &syn::ExprForLoop, pfx: &str, push_recv: &str) -> R<String> {
    let mut k = 0;
    let st = &l.body.stmts;
    let expect = |k: &mut usize, want: &str| -> R<()> {
        let t = st.get(*k).map(tok).unwrap_or_default();
        if t != want {
            return Err(format!("scan loop: expected `{want}`, found `{t}`"));
        }
        *k += 1;
        Ok(())
    };
    expect(&mut k, "let(container,val)=unsafe{bucket.as_mut()};")?;
    expect(&mut k, "letold_val=*val.get();")?;
    expect(&mut k, "letnew_val=rebuilder.rebuild_val(old_val);")?;
    expect(&mut k, "letcontainer_changed=container.rebuild_contents(rebuilder);")?;
    let i = as_if(st.get(k).ok_or("scan loop too short")?).ok_or("scan loop: expected the skip test")?;
    if tok(&i.then_branch).replace("//", "") != "{continue;}" || i.else_branch.is_some() {
        return Err("scan loop: skip test does not `continue`".into());
    }
    let skip = bool_expr(&i.cond, NI_B, NI_V)?;
    k += 1;
    let t = st.get(k).map(tok).unwrap_or_default();
    if t != "summary.note_change();" && t != "changed=true;" {
        return Err(format!("scan loop: change not noted after the skip test (`{t}`)"));
    }
    k += 1;
    let i = as_if(st.get(k).ok_or("scan loop too short")?).ok_or("scan loop: expected `if container_changed`")?;
    if k + 1 != st.len() {
        return Err("scan loop: trailing statements".into());
    }
    let requeue = bool_expr(&i.cond, NI_B, NI_V)?;
    // then: take the entry out of both maps and queue (container, val, stable)
    let mut took_id = false;
    let mut took_loc = None;
    let mut push = None;
    for s in &i.then_branch.stmts {
        let t = tok(s);
        if t == "let((container,_),_)=unsafe{shard.remove(bucket)};" {
            took_id = true;
        } else if let Some(r) = t.strip_prefix("self.to_container.remove(&") {
            took_loc = Some(r.trim_end_matches(';').trim_end_matches(')').to_string());
        } else if t.starts_with("letshard=self.to_container.determine_shard(hash_container(&container)asusize);") {
        } else if let Some(r) = t.strip_prefix(&format!("{push_recv}.push((container,")) {
            push = Some(r.trim_end_matches(';').trim_end_matches(')').to_string());
        } else {
            return Err(format!("scan loop, changed arm: unexpected `{t}`"));
        }
    }
    if !took_id {
        return Err("scan loop, changed arm: entry is not removed from to_id".into());
    }
    let took_loc = took_loc.ok_or("scan loop, changed arm: locator is not removed")?;
    let took_loc = val_expr(&syn::parse_str::<syn::Expr>(&took_loc).map_err(|e| e.to_string())?, NI_V)?;
    let push = push.ok_or("scan loop, changed arm: nothing queued")?;
    let (pv, ps) = push.split_once(',').ok_or("queued tuple")?;
    let pv = val_expr(&syn::parse_str::<syn::Expr>(pv).map_err(|e| e.to_string())?, NI_V)?;
    let ps = bool_expr(&syn::parse_str::<syn::Expr>(ps).map_err(|e| e.to_string())?, NI_B, NI_V)?;
    // else: re-key in place
    let eb = match i.else_branch.as_ref().map(|x| &*x.1) {
        Some(syn::Expr::Block(b)) => &b.block,
        _ => return Err("scan loop: `just the value changed` arm missing".into()),
    };
    let et: Vec<String> = eb.stmts.iter().map(tok).collect();
    let want = ["*val.get_mut()=new_val;", "letprev=self.to_container.remove(&old_val).unwrap().1;", "self.to_container.insert(new_val,prev);"];
    if et != want {
        return Err(format!("scan loop, value-only arm: unexpected statements {et:?}"));
    }
    let sig = "(container_changed : bool) (new_val old_val : nat)";
    Ok(format!(
        "Definition {pfx}_skip {sig} : bool := {skip}.\n\
         Definition {pfx}_requeue {sig} : bool := {requeue}.\n\
         Definition {pfx}_taken_locator {sig} : nat := {took_loc}.\n\
         Definition {pfx}_queued_id {sig} : nat := {pv}.\n\
         Definition {pfx}_queued_stable {sig} : bool := {ps}.\n\
         (* value-only arm: to_id entry := new_val; locator moved old_val -> new_val; val_index untouched *)\n\
         Definition {pfx}_rekey_touches_val_index : bool := false.\n"
    ))
}

fn item_nonincr(file: &syn::File) -> R<String> {
    let body = find_fn(file, "apply_rebuild_nonincremental")?;
    let loops = find_for_loops(&body);
    let scan = loops.iter().find(|l| tok(&*l.expr) == "unsafe{shard.iter()}").ok_or("nonincremental: scan loop not found")?;
    let mut out = String::from("(* containers/mod.rs ContainerEnv::apply_rebuild_nonincremental (serial) *)\n");
    out += &scan_loop(scan, "nonincr", "to_reinsert")?;
    let re = loops.iter().find(|l| tok(&*l.expr) == "to_reinsert").ok_or("nonincremental: reinsertion loop not found")?;
    if tok(&*re.pat) != "(container,val,stable_id)" || re.body.stmts.len() != 2 {
        return Err("nonincremental: reinsertion loop shape".into());
    }
    if tok(&re.body.stmts[0]) != "letactual=self.insert_owned(container,val,exec_state);" {
        return Err("nonincremental: reinsertion loop does not call insert_owned(container, val, _)".into());
    }
    let i = as_if(&re.body.stmts[1]).ok_or("nonincremental: dirty test missing")?;
    let noted = single_call_body(i, "summary.note_dirty_id(")?;
    let v: &[(&str, &str)] = &[("actual", "actual"), ("val", "val")];
    let c = bool_expr(&i.cond, NI_B, v)?;
    let noted = val_expr(&syn::parse_str::<syn::Expr>(&noted).map_err(|e| e.to_string())?, v)?;
    out += &format!(
        "Definition nonincr_dirty (stable_id : bool) (actual val : nat) : bool := {c}.\n\
         Definition nonincr_dirty_id (stable_id : bool) (actual val : nat) : nat := {noted}.\n"
    );
    Ok(out)
}

fn item_nonincr_par(file: &syn::File) -> R<String> {
    let body = find_fn(file, "apply_rebuild_nonincremental_parallel")?;
    let loops = find_for_loops(&body);
    let scan = loops.iter().find(|l| tok(&*l.expr) == "unsafe{shard.iter()}").ok_or("parallel: scan loop not found")?;
    let mut out = String::from("(* containers/mod.rs ContainerEnv::apply_rebuild_nonincremental_parallel *)\n");
    out += &scan_loop(scan, "par", "to_reinsert[shard]")?;
    // the reinsertion: `match shard.find_or_find_insert_slot(..) { Ok(bucket) => {..} Err(slot) => {..} }`
    struct M {
        found: Vec<syn::ExprMatch>,
    }
    impl<'ast> Visit<'ast> for M {
        fn visit_expr_match(&mut self, m: &'ast syn::ExprMatch) {
            if tok(&*m.expr).starts_with("shard.find_or_find_insert_slot(") {
                self.found.push(m.clone());
            }
            syn::visit::visit_expr_match(self, m);
        }
    }
    let mut m = M { found: vec![] };
    m.visit_block(&body);
    if m.found.len() != 1 {
        return Err("parallel: reinsertion match not found".into());
    }
    let me = syn::Expr::Match(m.found.pop().unwrap());
    let (occ, vac) = match_arms(&me, "parallel reinsertion")?;
    let (margs, guard, ops, rest) = occupied_arm(arm_block(occ)?, "*val_slot.get()", CVARS_PAR)?;
    if rest.len() != 1 {
        return Err("parallel occupied arm: expected the dirty test after the if".into());
    }
    let i = as_if(&rest[0]).ok_or("parallel occupied arm: dirty test missing")?;
    let v: &[(&str, &str)] = &[("result", "actual"), ("val", "val")];
    let noted = single_call_body(i, "dirty_ids.push(")?;
    let oc = bool_expr(&i.cond, NI_B, v)?;
    let onoted = val_expr(&syn::parse_str::<syn::Expr>(&noted).map_err(|e| e.to_string())?, v)?;
    let vb = arm_block(vac)?;
    let n = vb.stmts.len();
    if n < 2 {
        return Err("parallel vacant arm too short".into());
    }
    let vops = cop_list(&vb.stmts[..n - 1], CVARS_PAR)?;
    let i = as_if(&vb.stmts[n - 1]).ok_or("parallel vacant arm: dirty test missing")?;
    let noted = single_call_body(i, "dirty_ids.push(")?;
    let vc = bool_expr(&i.cond, NI_B, v)?;
    let vnoted = val_expr(&syn::parse_str::<syn::Expr>(&noted).map_err(|e| e.to_string())?, v)?;
    out += &format!(
        "Definition par_merge_args : cvar * cvar := {margs}.\n\
         Definition par_occ_guard_ne : cvar * cvar := {guard}.\n\
         Definition par_occ_changed_ops : list cop := {}.\n\
         Definition par_vac_ops : list cop := {}.\n\
         (* occupied arm: actual = result of the merge; vacant arm: actual = val *)\n\
         Definition par_occ_dirty (stable_id : bool) (actual val : nat) : bool := {oc}.\n\
         Definition par_occ_dirty_id (stable_id : bool) (actual val : nat) : nat := {onoted}.\n\
         Definition par_vac_dirty (stable_id : bool) (actual val : nat) : bool := {vc}.\n\
         Definition par_vac_dirty_id (stable_id : bool) (actual val : nat) : nat := {vnoted}.\n",
        coq_list(&ops),
        coq_list(&vops)
    );
    Ok(out)
}

/// rebuild_all ends with `self.expand_dirty_id_closure(&mut summary); summary`, and the closure's loop
fn item_closure(file: &syn::File) -> R<String> {
    let ra = find_fn(file, "rebuild_all")?;
    let n = ra.stmts.len();
    if n < 2 || tok(&ra.stmts[n - 1]) != "summary" {
        return Err("rebuild_all: tail is not `summary`".into());
    }
    let applied = tok(&ra.stmts[n - 2]) == "self.expand_dirty_id_closure(&mutsummary);";
    let body = find_fn(file, "expand_dirty_id_closure")?;
    if body.stmts.len() != 3 {
        return Err(format!("expand_dirty_id_closure: expected 3 statements, found {}", body.stmts.len()));
    }
    if tok(&body.stmts[0]) != "letmutfrontier=summary.dirty_ids.clone();" {
        return Err("expand_dirty_id_closure: frontier is not initialised with the dirty ids".into());
    }
    if tok(&body.stmts[1]) != "letmutseen=frontier.iter().copied().collect::<IndexSet<_>>();" {
        return Err("expand_dirty_id_closure: seen is not initialised with the frontier".into());
    }
    let (kind, cond, lb) = match stmt_expr(&body.stmts[2]) {
        Some(syn::Expr::While(w)) => ("LoopWhile", tok(&*w.cond), &w.body),
        Some(syn::Expr::If(i)) if i.else_branch.is_none() => ("LoopOnce", tok(&*i.cond), &i.then_branch),
        _ => return Err("expand_dirty_id_closure: third statement is neither while nor if".into()),
    };
    if cond != "!frontier.is_empty()" {
        return Err(format!("expand_dirty_id_closure: loop condition `{cond}`"));
    }
    if lb.stmts.len() != 4 {
        return Err(format!("expand_dirty_id_closure: loop body has {} statements, expected 4", lb.stmts.len()));
    }
    if tok(&lb.stmts[0]) != "letmutnext=IndexSet::default();" {
        return Err("closure loop: next not fresh".into());
    }
    let f1 = match stmt_expr(&lb.stmts[1]) {
        Some(syn::Expr::ForLoop(f)) => f,
        _ => return Err("closure loop: expected the loop over environments".into()),
    };
    if tok(&*f1.expr) != "self.data.iter()" || f1.body.stmts.len() != 1 {
        return Err("closure loop: not over all container environments".into());
    }
    let src = match tok(&f1.body.stmts[0]).as_str() {
        "env.extend_containers_containing(&frontier,&mutnext);" => "ParentsOfFrontier",
        "env.extend_containers_containing(&seen,&mutnext);" => "ParentsOfSeen",
        t => return Err(format!("closure loop: unexpected `{t}`")),
    };
    if tok(&lb.stmts[2]) != "frontier.clear();" {
        return Err("closure loop: frontier not cleared".into());
    }
    let f2 = match stmt_expr(&lb.stmts[3]) {
        Some(syn::Expr::ForLoop(f)) => f,
        _ => return Err("closure loop: expected the loop over next".into()),
    };
    if tok(&*f2.expr) != "next" || tok(&*f2.pat) != "value" || f2.body.stmts.len() != 1 {
        return Err("closure loop: second loop shape".into());
    }
    let i = as_if(&f2.body.stmts[0]).ok_or("closure loop: expected `if seen.insert(value)`")?;
    if tok(&*i.cond) != "seen.insert(value)" || i.else_branch.is_some() {
        return Err("closure loop: fresh test is not seen.insert(value)".into());
    }
    let mut acts = vec![];
    for s in &i.then_branch.stmts {
        match tok(s).as_str() {
            "summary.note_dirty_id(value);" => acts.push("ActNoteDirty".to_string()),
            "frontier.insert(value);" => acts.push("ActFrontier".to_string()),
            t => return Err(format!("closure loop: unexpected action `{t}`")),
        }
    }
    // extend_containers_containing: parents come from val_index
    let ecc = find_fn(file, "extend_containers_containing")?;
    let want = "{forvalueinvalues{ifletSome(containers)=self.val_index.get(value){out.extend(containers.iter().copied());}}}";
    if tok(&ecc) != want {
        return Err("extend_containers_containing: body changed".into());
    }
    Ok(format!(
        "(* containers/mod.rs ContainerValues::rebuild_all / expand_dirty_id_closure / extend_containers_containing *)\n\
         Inductive loop_kind := LoopWhile | LoopOnce.\n\
         Inductive closure_src := ParentsOfFrontier | ParentsOfSeen.\n\
         Inductive closure_act := ActNoteDirty | ActFrontier.\n\
         Definition rebuild_all_closes_dirty : bool := {applied}.\n\
         Definition closure_loop : loop_kind := {kind}.          (* `while !frontier.is_empty()` *)\n\
         Definition closure_next_from : closure_src := {src}.    (* val_index parents of .. *)\n\
         Definition closure_fresh_actions : list closure_act := {}. (* per value of next not yet seen *)\n",
        coq_list(&acts)
    ))
}

/// egglog-bridge rebuild(): the native-rebuild loop
fn item_bridge_loop(repo: &Path) -> R<String> {
    let file = parse(repo, "egglog-bridge/src/lib.rs")?;
    let body = find_fn(&file, "rebuild")?;
    struct L {
        found: Vec<syn::ExprLoop>,
    }
    impl<'ast> Visit<'ast> for L {
        fn visit_expr_loop(&mut self, l: &'ast syn::ExprLoop) {
            self.found.push(l.clone());
        }
    }
    let mut l = L { found: vec![] };
    l.visit_block(&body);
    if l.found.len() != 1 {
        return Err("rebuild: expected exactly one `loop`".into());
    }
    let st: Vec<String> = l.found[0].body.stmts.iter().map(tok).collect();
    let mut steps = vec![];
    let mut brk = None;
    for (k, t) in st.iter().enumerate() {
        let s = match t.as_str() {
            "letcontainer_rebuild=self.db.rebuild_containers(self.uf_table);" => "BContainers",
            "letnext_ts=self.next_ts().to_value();" => "BNextTs",
            "lettable_rebuild=self.db.apply_rebuild(self.uf_table,&tables,next_ts);" => "BTables",
            "letdirty_ids:Vec<Value>=container_rebuild.dirty_ids().iter().copied().collect();" => "BDirtyOfContainers",
            "letrefreshed_rows=self.db.refresh_rows_for_values(&tables,&dirty_ids,next_ts);" => "BRefresh",
            "self.inc_ts();" => "BIncTs",
            _ => {
                if k + 1 == st.len() {
                    let i = as_if(&l.found[0].body.stmts[k]).ok_or("rebuild loop: last statement is not the break test")?;
                    if tok(&i.then_branch) != "{break;}" || i.else_branch.is_some() {
                        return Err("rebuild loop: break test shape".into());
                    }
                    let b: &[(&str, &str)] = &[("table_rebuild", "table_rebuild"), ("refreshed_rows", "refreshed_rows"), ("container_rebuild.changed()", "container_changed")];
                    brk = Some(bool_expr_calls(&i.cond, b)?);
                    continue;
                }
                return Err(format!("rebuild loop: unexpected statement `{t}`"));
            }
        };
        steps.push(s.to_string());
    }
    let brk = brk.ok_or("rebuild loop: break test not found")?;
    Ok(format!(
        "(* egglog-bridge/src/lib.rs EGraph::rebuild: one pass of the native rebuild loop *)\n\
         Inductive bstep := BContainers | BNextTs | BTables | BDirtyOfContainers | BRefresh | BIncTs.\n\
         Definition bridge_pass : list bstep := {}.\n\
         Definition bridge_break (table_rebuild refreshed_rows container_changed : bool) : bool := {brk}.\n",
        coq_list(&steps)
    ))
}

/// like bool_expr but atoms may be arbitrary token strings (method calls) listed in `b`
fn bool_expr_calls(e: &syn::Expr, b: &[(&str, &str)]) -> R<String> {
    let e = strip_parens(e);
    let t = tok(e);
    for (rust, coq) in b {
        if t == *rust {
            return Ok(coq.to_string());
        }
    }
    match e {
        syn::Expr::Unary(u) if matches!(u.op, syn::UnOp::Not(_)) => Ok(format!("negb {}", paren(bool_expr_calls(&u.expr, b)?))),
        syn::Expr::Binary(x) if matches!(x.op, syn::BinOp::And(_)) => Ok(format!("{} && {}", paren(bool_expr_calls(&x.left, b)?), paren(bool_expr_calls(&x.right, b)?))),
        syn::Expr::Binary(x) if matches!(x.op, syn::BinOp::Or(_)) => Ok(format!("{} || {}", paren(bool_expr_calls(&x.left, b)?), paren(bool_expr_calls(&x.right, b)?))),
        _ => Err(format!("unsupported boolean expression `{t}`")),
    }
}
fn paren(s: String) -> String {
    if s.contains(' ') {
        format!("({s})")
    } else {
        s
    }
}

/// SortedWritesTable::refresh_rows_for_values: a refreshed row keeps all columns except the
/// timestamp column, which becomes next_ts; candidates = rows the rebuild index lists for a dirty id
fn item_refresh(repo: &Path) -> R<String> {
    let file = parse(repo, "core-relations/src/table/rebuild.rs")?;
    let body = find_fn(&file, "refresh_rows_for_values")?;
    let loops = find_for_loops(&body);
    if loops.len() != 2 {
        return Err(format!("refresh_rows_for_values: expected 2 for-loops, found {}", loops.len()));
    }
    let l1: Vec<String> = loops[0].body.stmts.iter().map(tok).collect();
    if tok(&*loops[0].expr) != "dirty_ids"
        || l1.len() != 2
        || !l1[0].starts_with("letSome(subset)=self.rebuild_index.get_subset(value)else{continue")
        || l1[1] != "subset.offsets(|row_id|{candidate_rows.insert(row_id);});"
    {
        return Err("refresh_rows_for_values: candidate collection changed".into());
    }
    let all: Vec<String> = body.stmts.iter().map(tok).collect();
    let sorted = all.iter().any(|t| t == "candidate_rows.sort_unstable();");
    let index_fresh = all.iter().any(|t| t == "self.refresh_rebuild_index();");
    if !index_fresh {
        return Err("refresh_rows_for_values: rebuild index is not refreshed first".into());
    }
    let l2: Vec<String> = loops[1].body.stmts.iter().map(tok).collect();
    if tok(&*loops[1].expr) != "candidate_rows" {
        return Err("refresh_rows_for_values: second loop is not over the candidates".into());
    }
    let want = [
        "letSome(current_row)=self.data.get_row(row_id)else{continue;};",
        "mutation_buf.stage_remove(&current_row[0..self.n_keys]);",
        "refreshed_row.clear();",
        "refreshed_row.extend_from_slice(current_row);",
        "ifletSome(sort_by)=self.sort_by{refreshed_row[sort_by.index()]=next_ts;}",
        "mutation_buf.stage_insert(&refreshed_row);",
        "changed=true;",
    ];
    if l2 != want {
        return Err(format!("refresh_rows_for_values: per-row statements changed: {l2:?}"));
    }
    Ok(format!(
        "(* core-relations/src/table/rebuild.rs SortedWritesTable::refresh_rows_for_values *)\n\
         Inductive refresh_col := KeepCol | SetNextTs.\n\
         Definition refresh_candidates_from_dirty_index : bool := true. (* rows the rebuild index lists under a dirty id *)\n\
         Definition refresh_in_row_order : bool := {sorted}.\n\
         Definition refresh_row_removed_then_inserted : bool := true.\n\
         Definition refresh_ts_col : refresh_col := SetNextTs.\n\
         Definition refresh_other_cols : refresh_col := KeepCol.\n"
    ))
}

pub fn generate(repo: &Path) -> (String, Vec<String>) {
    let mut text = String::from(
        "(* GENERATED by /verif/translator (x_cont.rs) from core-relations/src/containers/mod.rs, egglog-bridge/src/lib.rs, core-relations/src/table/rebuild.rs -- do not edit *)\n\
         From Coq Require Import List Arith PeanoNat Bool.\nImport ListNotations.\nRequire Import Verif.gen.BridgeFns.\nOpen Scope bool_scope.\n\n",
    );
    text += COP_DECL;
    text.push('\n');
    let mut rep = vec![];
    const CM: &str = "core-relations/src/containers/mod.rs";
    let cm = parse(repo, CM);
    let mut run = |name: &str, file: &str, r: R<String>| match r {
        Ok(t) => {
            text += &t;
            text.push('\n');
            rep.push(format!("{{\"item\":\"ContFacts.{name}\",\"file\":\"{file}\",\"ok\":true}}"));
        }
        Err(e) => {
            text += &format!("(* ContFacts.{name}: FAILED: {} *)\n\n", e.replace("*)", "* )").replace("(*", "( *"));
            rep.push(format!("{{\"item\":\"ContFacts.{name}\",\"file\":\"{file}\",\"ok\":false,\"error\":{:?}}}", e));
        }
    };
    run("merge", "egglog-bridge/src/lib.rs", item_merge(repo));
    let with = |f: fn(&syn::File) -> R<String>| -> R<String> {
        match &cm {
            Ok(file) => f(file),
            Err(e) => Err(e.clone()),
        }
    };
    run("strategy", CM, with(item_strategy));
    run("insert_owned", CM, with(item_insert_owned));
    run("reinsert_inc", CM, with(item_reinsert_inc));
    run("inc_scan", CM, with(item_inc_scan));
    run("nonincr", CM, with(item_nonincr));
    run("nonincr_par", CM, with(item_nonincr_par));
    run("closure", CM, with(item_closure));
    run("bridge_loop", "egglog-bridge/src/lib.rs", item_bridge_loop(repo));
    run("refresh", "core-relations/src/table/rebuild.rs", item_refresh(repo));
    (text, rep)
}
