(** C06 — Results do not depend on the number of threads.
    Theorem-backed: the logical effect of sharded table merges and of splitting one iteration's
    matches among workers, for every sharding function and every processing order (the scheduling
    oracle is universally quantified). Real OS interleavings, memory ordering and the `unsafe`
    disjoint-write arguments cannot be exhibited by a Gallina model: they are exercised by the
    correspondence check (same sessions, 1 thread vs N threads with all parallel cut-offs 0). *)
From Coq Require Import List ZArith Bool Permutation.
Import ListNotations.
Require Import Verif.gen.SourceFacts Verif.Egg.Model Verif.Egg.Merge Verif.Par.Shards.

Theorem c06_shard_merge : forall (h : list val -> nat) m t ws k order,
  NoDup order -> In (h k) order ->
  tab_get (insert_all m t (flat_map (fun i => shard h i ws) order)) k
  = tab_get (insert_all m t ws) k.
Proof. exact shard_merge_eq_serial. Qed.
Print Assumptions c06_shard_merge.

Theorem c06_worker_partition : forall m t k (ws ws' : list (list val * Z)),
  lattice m -> int_table t -> Permutation ws ws' ->
  int_get (insert_all m t (mk_rows ws)) k = int_get (insert_all m t (mk_rows ws')) k.
Proof. exact worker_partition_irrelevant. Qed.
Print Assumptions c06_worker_partition.

(** the hypothesis of [c06_shard_merge] holds of the source as written now: `hash_code` hashes the
    key columns only and the shard id is derived from that hash alone (regenerated fact) *)
Theorem c06_source_shards_by_key : shard_hash_input = ShardByKey.
Proof. exact source_shard_is_by_key. Qed.
Print Assumptions c06_source_shards_by_key.

(** ... and it is needed: a shard function that looks at the value column makes the result depend
    on the order in which shards are processed *)
Theorem c06_value_dependent_shard_refuted :
  let ws := [mkRow [VId 0] (VInt 5) false; mkRow [VId 0] (VInt 3) false] in
  let hr := fun w => match rret w with VInt 5%Z => 1 | _ => 0 end in
  tab_get (insert_all MNew [] (flat_map (fun i => shard_row hr i ws) [0; 1])) [VId 0] = Some (VInt 5)
  /\ tab_get (insert_all MNew [] ws) [VId 0] = Some (VInt 3).
Proof. exact value_dependent_shard_refuted. Qed.
Print Assumptions c06_value_dependent_shard_refuted.

Example c06_example :
  let ws := [mkRow [VId 0] (VInt 5) false; mkRow [VId 1] (VInt 1) false; mkRow [VId 0] (VInt 3) false] in
  let h := fun k => match k with [VId i] => i | _ => 0 end in
  tab_get (insert_all MNew [] (flat_map (fun i => shard h i ws) [1; 0])) [VId 0] = Some (VInt 3)
  /\ tab_get (insert_all MNew [] ws) [VId 0] = Some (VInt 3).
Proof. split; vm_compute; reflexivity. Qed.
