//! Rust -> Gallina translator for a deliberately small imperative subset (Tier A of DESIGN.md).
//!
//! usage: verif-translator <repo-root> <out-dir>
//!
//! Each *item* is translated independently; an item that leaves the supported subset is reported
//! in `<out-dir>/translator_report.json` and its `.v` file is replaced by a file that does not
//! define the expected names, so that the proofs depending on it stop compiling (a broken link,
//! never a silently stale model).
//!
//! Two kinds of items:
//!  * function-level (`fn_items`): whole method bodies -> Gallina functions over `Res` (see
//!    coq/Base/Res.v), loops become fuel-recursive fixpoints, `v[i]` becomes `idx v i` (Panic when
//!    out of bounds), early `return`/`break` are handled by continuation duplication;
//!  * expression-level facts (`facts`): the operator / constant / call found at a named site,
//!    emitted as a Gallina definition the hand-written models use.

mod facts;
mod fnlevel;
mod purefn;
mod sched;
mod x_extract;
mod x_matches;
mod x_counts;
mod x_table;
mod x_syntax;
mod x_plans;
mod x_semi;
mod x_proofchk;
mod x_enc;
mod x_serialize;
mod x_schema;
mod x_session;
mod x_snap;
mod x_det;
mod x_schedrun;
mod x_cont;
mod x_par;
mod x_ufconc;

use std::{fs, path::Path};

fn main() {
    let args: Vec<String> = std::env::args().collect();
    if args.len() != 3 {
        eprintln!("usage: verif-translator <repo-root> <out-dir>");
        std::process::exit(2);
    }
    let repo = Path::new(&args[1]);
    let out = Path::new(&args[2]);
    fs::create_dir_all(out).unwrap();
    let mut report: Vec<String> = Vec::new();

    // ---- function-level items -------------------------------------------------------------
    for item in fnlevel::items() {
        let src_path = repo.join(item.file);
        let res = fs::read_to_string(&src_path)
            .map_err(|e| format!("cannot read {}: {e}", src_path.display()))
            .and_then(|src| fnlevel::translate_item(&item, &src));
        let target = out.join(format!("{}.v", item.module));
        match res {
            Ok(text) => {
                write_if_changed(&target, &text);
                report.push(format!(
                    "{{\"item\":\"{}\",\"file\":\"{}\",\"ok\":true}}",
                    item.module, item.file
                ));
            }
            Err(e) => {
                let text = format!(
                    "(* GENERATED: translation of {} FAILED: {} *)\n",
                    item.file,
                    e.replace("*)", "* )")
                );
                write_if_changed(&target, &text);
                report.push(format!(
                    "{{\"item\":\"{}\",\"file\":\"{}\",\"ok\":false,\"error\":{:?}}}",
                    item.module, item.file, e
                ));
            }
        }
    }

    // ---- C10: the schedule interpreter (its own translation scheme, see sched.rs) -------------
    {
        let target = out.join("SchedFns.v");
        match sched::generate(repo) {
            Ok(text) => {
                write_if_changed(&target, &text);
                report.push("{\"item\":\"SchedFns\",\"file\":\"src/lib.rs + egglog-reports/src/lib.rs\",\"ok\":true}".to_string());
            }
            Err(e) => {
                write_if_changed(&target, &format!("(* GENERATED: translation of the schedule interpreter FAILED: {} *)\n", e.replace("*)", "* )")));
                report.push(format!("{{\"item\":\"SchedFns\",\"file\":\"src/lib.rs + egglog-reports/src/lib.rs\",\"ok\":false,\"error\":{:?}}}", e));
            }
        }
    }

    // ---- expression-level facts -------------------------------------------------------------
    let (text, mut rep) = facts::generate(repo);
    write_if_changed(&out.join("SourceFacts.v"), &text);
    report.append(&mut rep);

    // ---- purefn: integer / slice routines over N (index construction, subset search) ----------
    let (text, mut rep) = purefn::generate(repo);
    write_if_changed(&out.join("PureFns.v"), &text);
    report.append(&mut rep);

    // ---- extension modules (one per work area; each owns its own output file) ----------------
    let ext: Vec<(&str, fn(&Path) -> (String, Vec<String>))> = vec![
        ("ExtractFns.v", x_extract::generate),
        ("MatchesFns.v", x_matches::generate),
        ("CountsFns.v", x_counts::generate),
        ("TableFns.v", x_table::generate),
        ("SyntaxFacts.v", x_syntax::generate),
        ("PlanFacts.v", x_plans::generate),
        ("SemiFacts.v", x_semi::generate),
        ("ProofChkFacts.v", x_proofchk::generate),
        ("EncFacts.v", x_enc::generate),
        ("SerializeFacts.v", x_serialize::generate),
        ("SchemaFns.v", x_schema::generate),
        ("SessionFacts.v", x_session::generate),
        ("SnapFacts.v", x_snap::generate),
        ("DetFacts.v", x_det::generate),
        ("SchedRunFacts.v", x_schedrun::generate),
        ("ContFacts.v", x_cont::generate),
        ("ParFacts.v", x_par::generate),
        ("UFConcFacts.v", x_ufconc::generate),
    ];
    for (file, gen) in ext {
        let (text, mut rep) = gen(repo);
        write_if_changed(&out.join(file), &text);
        report.append(&mut rep);
    }

    let rep_text = format!("[\n{}\n]\n", report.join(",\n"));
    fs::write(out.join("translator_report.json"), rep_text).unwrap();
}

/// Keep mtimes stable when nothing changed so `make` does not rebuild the proofs.
fn write_if_changed(path: &Path, text: &str) {
    if let Ok(old) = fs::read_to_string(path) {
        if old == text {
            return;
        }
    }
    fs::write(path, text).unwrap();
}
