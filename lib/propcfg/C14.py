"""C14 configuration for bin/check."""

PAR_ENV = {"EGGLOG_PARALLEL_INTER_CONTAINER_CUTOFF": "0", "EGGLOG_PARALLEL_INTRA_CONTAINER_CUTOFF": "0"}

CFG = {
    "tier_a": ["UFSeq", "MergeArms", "BridgeFns", "ContFacts.merge", "ContFacts.strategy", "ContFacts.insert_owned",
               "ContFacts.reinsert_inc", "ContFacts.inc_scan", "ContFacts.nonincr", "ContFacts.nonincr_par",
               "ContFacts.closure", "ContFacts.bridge_loop", "ContFacts.refresh"],
    "model_targets": ["Cont/Env.vo", "Egg/Rules.vo"],
    "proof_targets": ["Props/C14.vo"],
    "harness": [
        # nested containers of depth 2-4 with alternating kinds and all kind-declaration orders,
        # rewritten in place: semi-naive vs naive engine in lockstep (the family of h_egg)
        {"bin": "h_egg", "name": "h_egg_nested", "prefix": "cases_egg", "extra": ["--prop", "C14", "--cases", "12"]},
        # serial engine, default cut-offs: sessions + model cases
        {"bin": "h_cont", "name": "h_cont", "sub": "cont", "prefix": "cases_cont"},
        # 4 threads, container cut-offs 0: parallel inter-container map and the parallel
        # non-incremental variant; same sessions, the model cases are compared with this run too
        {"bin": "h_cont", "name": "h_cont_par", "sub": "cont-par", "prefix": "cases_cont",
         "extra": ["--threads", "4"], "env": PAR_ENV},
        # > 1000 containers per Rust container type: the incremental strategy is chosen
        {"bin": "h_cont", "name": "h_cont_big", "sub": "cont-big", "extra": ["--big"]},
        {"bin": "h_cont", "name": "h_cont_big_par", "sub": "cont-big-par",
         "extra": ["--big", "--threads", "4"], "env": PAR_ENV},
    ],
    "corr_is_violation": True,
    "trusted": [
        "translator /verif/translator: gen/UFSeq.v (union-find, representative = least id), gen/MergeArms.v, gen/BridgeFns.v "
        "(incremental_rebuild) and gen/ContFacts.v (x_cont.rs): the merge closure of register_container_ty (cont_merge / "
        "cont_merge_staged), the strategy call of ContainerEnv::apply_rebuild, insert_owned's occupied/vacant arms as effect "
        "lists with guard and merge arguments, the conditions of reinsert_incremental, the queue of apply_rebuild_incremental, "
        "the scan arms and reinsertion loop of apply_rebuild_nonincremental and of its parallel variant, rebuild_all + "
        "expand_dirty_id_closure's loop shape, the step order and break test of EGraph::rebuild's loop, and the per-row "
        "statements of refresh_rows_for_values; each item fails closed",
        "coq/Cont/Gen.v: the interpretation of the effect vocabulary (to_container remove/insert, to_id entry set/insert, "
        "val_index loop over iter()) on the three finite maps, and the assembly of the regenerated facts into functions",
        "hand-written Gallina model coq/Cont/Env.v of core-relations/src/containers/mod.rs and of "
        "rebuild_contents/iter of src/sort/{vec,set,multiset,pair,map}.rs, tied to the engine by the "
        "correspondence cases (h_cont, serial and 4 threads) and by the seeded mutations",
        "hook H0 EGraph::verif_canon_id (read-only) for canonical ids",
    ],
    "theorem_backed": "ContainerEnv as three finite maps over the translated union-find, for all reachable states "
                      "(fresh classes, hash-consing insertions, unions of e-classes, rebuilds with ANY per-pass choice "
                      "of strategy): to_id injective both ways and get_container its exact inverse, val_index complete, "
                      "every live container id is a union-find root (hence suspect S3's branch is dead; witness that the "
                      "branch would break val_index otherwise); the rebuild loop terminates within the stated fuel; at the "
                      "fixpoint every stored id is canonical and containers equal after canonicalisation share one id; "
                      "after one pass (either strategy) every container is filed under its canonicalised contents with an id in the class of its old id, so containers equal modulo the current equalities end in one class; every container changed in place is in the dirty set, which is closed under containment; TIER A (c14_model_is_regenerated): insert_owned, pass_full, pass_inc and dirty_closure of the hand model are EQUAL for all inputs to the functions assembled from gen/ContFacts.v (so min->max, a dropped to_container/val_index update in the collision arm, a changed dirty test, a one-level closure break a pinned theorem); c14_merge_keeps_min; c14_regenerated_loop_canonical: the loop over the regenerated passes with a state-dependent strategy (incl. the translated threshold real_strategy) terminates and is canonical; c14_parallel_same_decisions: the parallel non-incremental variant takes the same decisions as the serial one; c14_refresh_restamps: after one pass of the bridge loop (containers, tables, refresh) every row is the old row canonicalised, rows whose columns changed and rows mentioning a container whose meaning changed in place AT ANY NESTING DEPTH (deep_changed) carry next_ts; c14_bridge_pass_order pins the regenerated step order / break test / refresh facts",
    "link_only": "that the interpretation of the effect vocabulary and of rebuild_contents/iter per sort is the code (correspondence cases: container histories under full / incremental / "
                 "alternating strategies vs the engine, serial and parallel); rows keyed by containers merge (table "
                 "rebuild; predicate (b) on dumps + harness closure + (check (= e1 e2))); the merge of table rows whose keys collide after canonicalisation and the rebuild index that finds the candidate rows (the per-row effect of refresh is now proved: c14_refresh_restamps); "
                 "semi-naive = naive after every command (lockstep engines, 26 rule "
                 "templates); parallel get_or_insert races; which strategy the engine picks is regenerated (cont_strategy_incremental over incremental_rebuild) but the theorems hold for every strategy; on the engine it is observed only "
                 "through the Big sessions (incl. fixed two-step union chains per kind and interning order) and the inc_no_val_index / rt_c14 mutations; Map key collisions excluded by the generator",
    "assumptions": [
        "ids are unbounded nat; hash buckets are modelled by a perfect hash (locator = contents at filing time)",
        "container ids are never unioned by the user (container sorts are not eq-sorts): R_union requires non-container classes",
        "contents inserted between rebuilds mention canonical ids or ids displaced since the last container pass "
        "(true in egglog: values come from canonical tables; unions are applied at the end of an iteration)",
        "Map key collisions: surviving value left to an oracle in the theorems; the generator never makes two keys collide",
    ],
}
