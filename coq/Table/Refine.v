(** C16: the physical SortedWritesTable model refines the map specification, for every operation
    sequence; scans return live rows exactly once; the offsets invariant makes timestamp-range
    subsets exact; rehash preserves the abstraction. *)
From Coq Require Import List Arith PeanoNat Bool Lia Sorted.
Import ListNotations.
Require Import Verif.Base.Res Verif.Base.Cases Verif.Table.Model Verif.Table.MapSpec.

(* ------------------------------------------------------------------------------------------ *)
(** * generic list facts *)

Lemma list_eqb_nat_eq : forall a b : list nat, list_eqb Nat.eqb a b = true <-> a = b.
Proof.
  induction a as [|x a IH]; intros [|y b]; simpl; split; intros H; try discriminate; auto.
  - apply andb_true_iff in H. destruct H as [H1 H2]. apply Nat.eqb_eq in H1. apply IH in H2. congruence.
  - inversion H; subst. apply andb_true_iff. split; [apply Nat.eqb_refl | apply IH; auto].
Qed.

Lemma keyb_eq a b : keyb a b = true <-> a = b.
Proof. apply list_eqb_nat_eq. Qed.

Lemma keyb_refl a : keyb a a = true.
Proof. apply keyb_eq. reflexivity. Qed.

Lemma keyb_neq a b : a <> b -> keyb a b = false.
Proof. intros H. destruct (keyb a b) eqn:E; auto. apply keyb_eq in E. contradiction. Qed.

Lemma nth_error_set_nth {A} (l : list A) : forall i v j,
  nth_error (set_nth l i v) j =
  if j =? i then (if i <? length l then Some v else None) else nth_error l j.
Proof.
  induction l as [|h tl IH]; intros i v j; simpl.
  - destruct (j =? i); destruct j; reflexivity.
  - destruct i as [|i]; destruct j as [|j]; simpl; auto.
    rewrite IH. destruct (j =? i); auto.
Qed.

Lemma NoDup_map_inj_on {A B} (f : A -> B) (l : list A) :
  NoDup l -> (forall x y, In x l -> In y l -> f x = f y -> x = y) -> NoDup (map f l).
Proof.
  induction 1 as [|a l Hn Hd IH]; intros Hinj; simpl; constructor.
  - intros Hin. apply in_map_iff in Hin. destruct Hin as (y & Hy & Hyl).
    assert (y = a) by (apply Hinj; simpl; auto). subst. contradiction.
  - apply IH. intros x y Hx Hy. apply Hinj; simpl; auto.
Qed.

Lemma NoDup_app_one_aux {A} (l : list A) x : NoDup l -> ~ In x l -> NoDup (l ++ [x]).
Proof.
  induction 1 as [|a l Hn Hd IH]; intros Hx; simpl.
  - constructor; [intros []|constructor].
  - constructor.
    + rewrite in_app_iff. simpl. intros [H|[H|[]]]; [contradiction|subst; apply Hx; simpl; auto].
    + apply IH. intros H. apply Hx. simpl; auto.
Qed.

Lemma SS_app_one {A} (R : A -> A -> Prop) l y :
  StronglySorted R l -> (forall x, In x l -> R x y) -> StronglySorted R (l ++ [y]).
Proof.
  induction 1 as [|a l Hs IH Hf]; intros Hall; simpl.
  - constructor; constructor.
  - constructor.
    + apply IH. intros x Hx. apply Hall. simpl; auto.
    + apply Forall_app. split; auto. constructor; [apply Hall; simpl; auto | constructor].
Qed.

(* ------------------------------------------------------------------------------------------ *)
(** * live rows *)

Lemma live_at_lt rs i r : live_at rs i = Some r -> i < length rs.
Proof.
  unfold live_at. destruct (nth_error rs i) eqn:E; [|discriminate].
  intros _. apply nth_error_Some. congruence.
Qed.

Lemma live_at_app rs r i :
  live_at (rs ++ [Some r]) i = if i =? length rs then Some r else live_at rs i.
Proof.
  unfold live_at. destruct (Nat.eqb_spec i (length rs)) as [E|N].
  - subst. rewrite nth_error_app2 by lia. rewrite Nat.sub_diag. reflexivity.
  - destruct (Nat.lt_ge_cases i (length rs)).
    + rewrite nth_error_app1 by auto. reflexivity.
    + assert (H1 : nth_error (rs ++ [Some r]) i = None).
      { apply nth_error_None. rewrite app_length. simpl. lia. }
      assert (H2 : nth_error rs i = None) by (apply nth_error_None; lia).
      rewrite H1, H2. reflexivity.
Qed.

Lemma live_at_set_stale rs i j :
  live_at (set_nth rs i None) j = if j =? i then None else live_at rs j.
Proof.
  unfold live_at. rewrite nth_error_set_nth.
  destruct (j =? i); auto. destruct (i <? length rs); auto.
Qed.

Lemma live_rows_app rs r : live_rows (rs ++ [Some r]) = live_rows rs ++ [r].
Proof. induction rs as [|[x|] tl IH]; simpl; auto. rewrite IH. reflexivity. Qed.

Lemma live_rows_set_stale_len rs : forall i r, live_at rs i = Some r ->
  S (length (live_rows (set_nth rs i None))) = length (live_rows rs).
Proof.
  induction rs as [|x tl IH]; intros i r H.
  - apply live_at_lt in H. simpl in H. lia.
  - destruct i as [|i].
    + unfold live_at in H. simpl in H. destruct x; [|discriminate]. reflexivity.
    + assert (H' : live_at tl i = Some r) by exact H.
      specialize (IH i r H'). destruct x; simpl; rewrite <- IH; reflexivity.
Qed.

Lemma live_rows_length_le rs : length (live_rows rs) <= length rs.
Proof. induction rs as [|[x|] tl IH]; simpl; lia. Qed.

(** scan = the live rows with their ids *)
Lemma scan_from_In rs : forall b i r, In (i, r) (scan_from b rs) <-> b <= i /\ live_at rs (i - b) = Some r.
Proof.
  induction rs as [|x tl IH]; intros b i r; simpl.
  - split; [tauto|]. intros [_ H]. unfold live_at in H. destruct (i - b); discriminate.
  - assert (Hstep : forall j, S b <= j -> live_at (x :: tl) (j - b) = live_at tl (j - S b)).
    { intros j Hj. replace (j - b) with (S (j - S b)) by lia. reflexivity. }
    destruct x as [r0|].
    + simpl. rewrite IH. split.
      * intros [E | [H1 H2]].
        -- inversion E; subst. split; [lia|]. rewrite Nat.sub_diag. reflexivity.
        -- split; [lia|]. rewrite Hstep by lia. exact H2.
      * intros [H1 H2]. destruct (Nat.eq_dec i b) as [E|N].
        -- subst. rewrite Nat.sub_diag in H2. unfold live_at in H2. simpl in H2. left. congruence.
        -- right. split; [lia|]. rewrite <- Hstep by lia. exact H2.
    + rewrite IH. split.
      * intros [H1 H2]. split; [lia|]. rewrite Hstep by lia. exact H2.
      * intros [H1 H2]. destruct (Nat.eq_dec i b) as [E|N].
        -- subst. rewrite Nat.sub_diag in H2. unfold live_at in H2. simpl in H2. discriminate.
        -- split; [lia|]. rewrite <- Hstep by lia. exact H2.
Qed.

Lemma scan_from_ids_lb rs : forall b i, In i (map fst (scan_from b rs)) -> b <= i.
Proof.
  intros b i H. apply in_map_iff in H. destruct H as ((j, r) & E & H). simpl in E. subst.
  apply scan_from_In in H. tauto.
Qed.

Lemma scan_from_NoDup rs : forall b, NoDup (map fst (scan_from b rs)).
Proof.
  induction rs as [|[r|] tl IH]; intros b; simpl; [constructor| |apply IH].
  constructor; [|apply IH]. intros H. apply scan_from_ids_lb in H. lia.
Qed.

Lemma scan_all_In t i r : In (i, r) (scan_all t) <-> live_at (rows t) i = Some r.
Proof. unfold scan_all. rewrite scan_from_In. rewrite Nat.sub_0_r. split; [tauto|]. split; [lia|auto]. Qed.

(* ------------------------------------------------------------------------------------------ *)
(** * the hash invariant and [get_row] *)

Definition HInv (c : cfg) (rs : list (option row)) (h : list nat) : Prop :=
  NoDup h /\
  (forall i, In i h <-> exists r, live_at rs i = Some r) /\
  (forall i j r r', live_at rs i = Some r -> live_at rs j = Some r' ->
     key_of c r = key_of c r' -> i = j).

Lemma hfind_sound c rs h k : forall i r, hfind c rs h k = Some (i, r) ->
  In i h /\ live_at rs i = Some r /\ key_of c r = k.
Proof.
  induction h as [|x tl IH]; intros i r H; simpl in H; [discriminate|].
  destruct (live_at rs x) as [r0|] eqn:E.
  - destruct (keyb (key_of c r0) k) eqn:K.
    + inversion H; subst. apply keyb_eq in K. simpl; auto.
    + destruct (IH _ _ H) as (H1 & H2 & H3). simpl; auto.
  - destruct (IH _ _ H) as (H1 & H2 & H3). simpl; auto.
Qed.

Lemma hfind_none c rs h k : hfind c rs h k = None ->
  forall i r, In i h -> live_at rs i = Some r -> key_of c r <> k.
Proof.
  induction h as [|x tl IH]; intros H i r Hin Hl; simpl in *; [tauto|].
  destruct (live_at rs x) as [r0|] eqn:E.
  - destruct (keyb (key_of c r0) k) eqn:K; [discriminate|].
    destruct Hin as [Heq|Hin]; [subst; rewrite E in Hl; inversion Hl; subst|eauto].
    intros Hk. apply keyb_eq in Hk. congruence.
  - destruct Hin as [Heq|Hin]; [subst; congruence|eauto].
Qed.

Lemma hfind_complete c rs h k i r :
  HInv c rs h -> live_at rs i = Some r -> key_of c r = k -> hfind c rs h k = Some (i, r).
Proof.
  intros (Hnd & Hmem & Huniq) Hl Hk.
  destruct (hfind c rs h k) as [(j, r')|] eqn:E.
  - apply hfind_sound in E. destruct E as (_ & Hl' & Hk').
    assert (j = i) by (eapply Huniq; eauto; congruence). subst. congruence.
  - exfalso. eapply hfind_none; eauto. apply Hmem. eauto.
Qed.

(** the abstraction: the map holds [k -> r] iff some live row [r] has key [k] *)
Definition Abs (c : cfg) (rs : list (option row)) (m : smap) : Prop :=
  forall k r, m k = Some r <-> exists i, live_at rs i = Some r /\ key_of c r = k.

Lemma abs_get c rs h m k : HInv c rs h -> Abs c rs m -> option_map snd (hfind c rs h k) = m k.
Proof.
  intros HI HA. destruct (hfind c rs h k) as [(i, r)|] eqn:E; simpl.
  - apply hfind_sound in E. destruct E as (_ & Hl & Hk). symmetry. apply HA. eauto.
  - destruct (m k) as [r|] eqn:Em; auto. apply HA in Em. destruct Em as (i & Hl & Hk).
    rewrite (hfind_complete c rs h k i r HI Hl Hk) in E. discriminate.
Qed.

Lemma HInv_nil c : HInv c [] [].
Proof.
  split; [constructor|]. split.
  - intros i. split; [intros []|]. intros (r & H). unfold live_at in H. destruct i; discriminate.
  - intros i j r r' H. unfold live_at in H. destruct i; discriminate.
Qed.

Lemma Abs_nil c : Abs c [] sempty.
Proof.
  intros k r. split; [discriminate|]. intros (i & H & _). unfold live_at in H. destruct i; discriminate.
Qed.

(** ** P1: a row with a fresh key is appended *)
Lemma HInv_fresh c rs h q :
  HInv c rs h -> hfind c rs h (key_of c q) = None ->
  HInv c (rs ++ [Some q]) (h ++ [length rs]).
Proof.
  intros (Hnd & Hmem & Huniq) Hnone.
  assert (Hlt : forall i, In i h -> i < length rs).
  { intros i Hi. apply Hmem in Hi. destruct Hi as (r & Hr). eapply live_at_lt; eauto. }
  assert (Hfresh : forall i r, live_at rs i = Some r -> key_of c r <> key_of c q).
  { intros i r Hl. eapply hfind_none; eauto. apply Hmem; eauto. }
  split; [|split].
  - apply NoDup_app_one_aux.
    + exact Hnd.
    + intros Hin. apply Hlt in Hin. lia.
  - intros i. rewrite in_app_iff, live_at_app. simpl. destruct (Nat.eqb_spec i (length rs)) as [E|N].
    + split; eauto.
    + rewrite Hmem. split; [intros [H|[H|[]]]; [auto|congruence]|auto].
  - intros i j r r'. rewrite !live_at_app.
    destruct (Nat.eqb_spec i (length rs)); destruct (Nat.eqb_spec j (length rs)); intros H1 H2 Hk; subst; auto.
    + inversion H1; subst. exfalso. eapply Hfresh; eauto.
    + inversion H2; subst. exfalso. eapply Hfresh; eauto.
    + eapply Huniq; eauto.
Qed.

Lemma Abs_fresh c rs h m q :
  HInv c rs h -> Abs c rs m -> hfind c rs h (key_of c q) = None ->
  Abs c (rs ++ [Some q]) (supd m (key_of c q) q).
Proof.
  intros (Hnd & Hmem & Huniq) HA Hnone.
  assert (Hfresh : forall i r, live_at rs i = Some r -> key_of c r <> key_of c q).
  { intros i r Hl. eapply hfind_none; eauto. apply Hmem; eauto. }
  intros k r. unfold supd. destruct (keyb k (key_of c q)) eqn:K.
  - apply keyb_eq in K. subst k. split.
    + intros E. inversion E; subst. exists (length rs). rewrite live_at_app, Nat.eqb_refl. auto.
    + intros (i & Hl & Hk). rewrite live_at_app in Hl. destruct (i =? length rs); [congruence|].
      exfalso. eapply Hfresh; eauto.
  - rewrite (HA k r). split; intros (i & Hl & Hk); exists i; split; auto.
    + rewrite live_at_app. pose proof (live_at_lt _ _ _ Hl).
      destruct (Nat.eqb_spec i (length rs)); [lia|auto].
    + rewrite live_at_app in Hl. destruct (i =? length rs); auto.
      inversion Hl; subst. rewrite keyb_refl in K. discriminate.
Qed.

(** ** P2: the row of a live key is superseded by a merged row *)
Lemma live_at_overwrite rs i mr j :
  live_at (set_nth (rs ++ [Some mr]) i None) j =
  if j =? i then None else if j =? length rs then Some mr else live_at rs j.
Proof. rewrite live_at_set_stale, live_at_app. reflexivity. Qed.

Lemma HInv_overwrite c rs h i cur mr :
  HInv c rs h -> live_at rs i = Some cur -> key_of c mr = key_of c cur ->
  HInv c (set_nth (rs ++ [Some mr]) i None) (hreplace i (length rs) h).
Proof.
  intros (Hnd & Hmem & Huniq) Hi Hk.
  assert (Hlt : forall x, In x h -> x < length rs).
  { intros x Hx. apply Hmem in Hx. destruct Hx as (r & Hr). eapply live_at_lt; eauto. }
  pose proof (live_at_lt _ _ _ Hi) as Hil.
  assert (Hih : In i h) by (apply Hmem; eauto).
  split; [|split].
  - unfold hreplace. apply NoDup_map_inj_on; auto.
    intros x y Hx Hy. apply Hlt in Hx. apply Hlt in Hy.
    destruct (Nat.eqb_spec x i); destruct (Nat.eqb_spec y i); intros; subst; auto; lia.
  - intros j. unfold hreplace. rewrite in_map_iff, live_at_overwrite. split.
    + intros (x & Hf & Hx). destruct (Nat.eqb_spec x i).
      * subst. destruct (Nat.eqb_spec (length rs) i); [lia|]. rewrite Nat.eqb_refl. eauto.
      * subst. pose proof (Hlt _ Hx). destruct (Nat.eqb_spec j i); [contradiction|].
        destruct (Nat.eqb_spec j (length rs)); [lia|]. apply Hmem; auto.
    + destruct (Nat.eqb_spec j i); [intros (r & Hr); discriminate|].
      destruct (Nat.eqb_spec j (length rs)).
      * intros _. exists i. rewrite Nat.eqb_refl. auto.
      * intros Hr. exists j. split; [|apply Hmem; auto]. destruct (Nat.eqb_spec j i); [contradiction|auto].
  - intros a b r r'. rewrite !live_at_overwrite.
    destruct (Nat.eqb_spec a i) as [|Nai]; [discriminate|]. destruct (Nat.eqb_spec b i) as [|Nbi]; [discriminate|].
    destruct (Nat.eqb_spec a (length rs)); destruct (Nat.eqb_spec b (length rs)); intros H1 H2 Hkk; subst; auto.
    + inversion H1; subst. exfalso. apply Nbi. eapply Huniq; eauto. congruence.
    + inversion H2; subst. exfalso. apply Nai. eapply Huniq; eauto. congruence.
    + eapply Huniq; eauto.
Qed.

Lemma Abs_overwrite c rs h m i cur mr :
  HInv c rs h -> Abs c rs m -> live_at rs i = Some cur -> key_of c mr = key_of c cur ->
  Abs c (set_nth (rs ++ [Some mr]) i None) (supd m (key_of c cur) mr).
Proof.
  intros (Hnd & Hmem & Huniq) HA Hi Hk.
  pose proof (live_at_lt _ _ _ Hi) as Hil.
  intros k r. unfold supd. destruct (keyb k (key_of c cur)) eqn:K.
  - apply keyb_eq in K. subst k. split.
    + intros E. inversion E; subst. exists (length rs). rewrite live_at_overwrite.
      destruct (Nat.eqb_spec (length rs) i); [lia|]. rewrite Nat.eqb_refl. auto.
    + intros (j & Hl & Hkj). rewrite live_at_overwrite in Hl.
      destruct (Nat.eqb_spec j i) as [|Nji]; [discriminate|]. destruct (j =? length rs); [congruence|].
      exfalso. apply Nji. eapply Huniq; eauto.
  - rewrite (HA k r). split; intros (j & Hl & Hkj); exists j; split; auto.
    + rewrite live_at_overwrite. pose proof (live_at_lt _ _ _ Hl).
      destruct (Nat.eqb_spec j i).
      * subst. rewrite Hi in Hl. inversion Hl; subst. rewrite keyb_refl in K. discriminate.
      * destruct (Nat.eqb_spec j (length rs)); [lia|auto].
    + rewrite live_at_overwrite in Hl. destruct (j =? i); [discriminate|].
      destruct (j =? length rs); auto. inversion Hl; subst. rewrite Hk, keyb_refl in K. discriminate.
Qed.

(** ** P3: the row of a live key is removed *)
Lemma HInv_delete c rs h i cur :
  HInv c rs h -> live_at rs i = Some cur -> HInv c (set_nth rs i None) (hremove i h).
Proof.
  intros (Hnd & Hmem & Huniq) Hi. split; [|split].
  - apply NoDup_filter. auto.
  - intros j. unfold hremove. rewrite filter_In, live_at_set_stale, Hmem.
    destruct (Nat.eqb_spec j i); simpl; split; try tauto.
    + intros [_ H]. discriminate.
    + intros (r & H). discriminate.
  - intros a b r r'. rewrite !live_at_set_stale.
    destruct (a =? i); [discriminate|]. destruct (b =? i); [discriminate|]. apply Huniq.
Qed.

Lemma Abs_delete c rs h m i cur :
  HInv c rs h -> Abs c rs m -> live_at rs i = Some cur ->
  Abs c (set_nth rs i None) (sdel m (key_of c cur)).
Proof.
  intros (Hnd & Hmem & Huniq) HA Hi.
  intros k r. unfold sdel. destruct (keyb k (key_of c cur)) eqn:K.
  - apply keyb_eq in K. subst k. split; [discriminate|].
    intros (j & Hl & Hkj). rewrite live_at_set_stale in Hl.
    destruct (Nat.eqb_spec j i) as [|Nji]; [discriminate|]. exfalso. apply Nji. eapply Huniq; eauto.
  - rewrite (HA k r). split; intros (j & Hl & Hkj); exists j; split; auto.
    + rewrite live_at_set_stale. destruct (Nat.eqb_spec j i); auto.
      subst. rewrite Hi in Hl. inversion Hl; subst. rewrite keyb_refl in K. discriminate.
    + rewrite live_at_set_stale in Hl. destruct (j =? i); [discriminate|auto].
Qed.

(** removing a key that is not present changes nothing *)
Lemma Abs_delete_absent c rs h m k :
  HInv c rs h -> Abs c rs m -> hfind c rs h k = None -> Abs c rs (sdel m k).
Proof.
  intros HI HA Hnone k' r. unfold sdel. destruct (keyb k' k) eqn:K; [|apply HA].
  apply keyb_eq in K. subst k'. split; [discriminate|].
  intros (j & Hl & Hkj). rewrite (hfind_complete c rs h k j r HI Hl Hkj) in Hnone. discriminate.
Qed.

(* ------------------------------------------------------------------------------------------ *)
(** * compaction ([rehash]) *)

Lemma live_at_cons x tl i : live_at (x :: tl) (S i) = live_at tl i.
Proof. reflexivity. Qed.

Lemma rank_live rs : forall o r, live_at rs o = Some r ->
  live_at (map Some (live_rows rs)) (rank rs o) = Some r.
Proof.
  induction rs as [|x tl IH]; intros o r H.
  - apply live_at_lt in H. simpl in H. lia.
  - destruct o as [|o].
    + unfold live_at in H. simpl in H. destruct x; [|discriminate]. inversion H; subst. reflexivity.
    + rewrite live_at_cons in H. destruct x; simpl; [rewrite live_at_cons|]; apply IH; auto.
Qed.

Lemma rank_surj rs : forall n r, live_at (map Some (live_rows rs)) n = Some r ->
  exists o, live_at rs o = Some r /\ rank rs o = n.
Proof.
  induction rs as [|x tl IH]; intros n r H.
  - apply live_at_lt in H. simpl in H. lia.
  - destruct x as [r0|]; simpl in H.
    + destruct n as [|n].
      * exists 0. unfold live_at in *. simpl in *. auto.
      * rewrite live_at_cons in H. destruct (IH _ _ H) as (o & Ho & Hr).
        exists (S o). rewrite live_at_cons. simpl. auto.
    + destruct (IH _ _ H) as (o & Ho & Hr). exists (S o). rewrite live_at_cons. simpl. auto.
Qed.

Lemma rank_inj rs : forall o o' r r', live_at rs o = Some r -> live_at rs o' = Some r' ->
  rank rs o = rank rs o' -> o = o'.
Proof.
  induction rs as [|x tl IH]; intros o o' r r' H H' E.
  - apply live_at_lt in H. simpl in H. lia.
  - destruct o as [|o]; destruct o' as [|o']; auto.
    + unfold live_at in H. simpl in H. destruct x; [|discriminate]. simpl in E. discriminate.
    + unfold live_at in H'. simpl in H'. destruct x; [|discriminate]. simpl in E. discriminate.
    + rewrite live_at_cons in H, H'. f_equal. destruct x; simpl in E; [inversion E|]; eapply IH; eauto.
Qed.

Lemma rank_mono rs : forall o o' r r', live_at rs o = Some r -> live_at rs o' = Some r' ->
  o < o' -> rank rs o < rank rs o'.
Proof.
  induction rs as [|x tl IH]; intros o o' r r' H H' Hlt.
  - apply live_at_lt in H. simpl in H. lia.
  - destruct o' as [|o']; [lia|]. rewrite live_at_cons in H'. destruct o as [|o].
    + unfold live_at in H. simpl in H. destruct x; [|discriminate]. simpl. lia.
    + rewrite live_at_cons in H. assert (o < o') by lia.
      destruct x; simpl; [apply -> Nat.succ_lt_mono|]; eapply IH; eauto.
Qed.

Lemma HInv_rehash c rs h :
  HInv c rs h -> HInv c (map Some (live_rows rs)) (map (rank rs) h).
Proof.
  intros (Hnd & Hmem & Huniq). split; [|split].
  - apply NoDup_map_inj_on; auto. intros x y Hx Hy E.
    apply Hmem in Hx. apply Hmem in Hy. destruct Hx as (r & Hr). destruct Hy as (r' & Hr').
    eapply rank_inj; eauto.
  - intros n. rewrite in_map_iff. split.
    + intros (o & E & Ho). apply Hmem in Ho. destruct Ho as (r & Hr). subst. exists r. apply rank_live. auto.
    + intros (r & Hr). apply rank_surj in Hr. destruct Hr as (o & Ho & E). exists o. split; auto. apply Hmem. eauto.
  - intros a b r r' Ha Hb Hk. apply rank_surj in Ha. apply rank_surj in Hb.
    destruct Ha as (o & Ho & Ea). destruct Hb as (o' & Ho' & Eb). subst.
    f_equal. eapply Huniq; eauto.
Qed.

Lemma Abs_rehash c rs m : Abs c rs m -> Abs c (map Some (live_rows rs)) m.
Proof.
  intros HA k r. rewrite (HA k r). split; intros (i & Hl & Hk).
  - exists (rank rs i). split; auto. apply rank_live. auto.
  - apply rank_surj in Hl. destruct Hl as (o & Ho & _). eauto.
Qed.

Lemma live_ids_In rs : forall b i, In i (live_ids b rs) <-> b <= i /\ exists r, live_at rs (i - b) = Some r.
Proof.
  intros b i. assert (H : In i (live_ids b rs) <-> In i (map fst (scan_from b rs))).
  { revert b. induction rs as [|[r|] tl IH]; intros b; simpl; [tauto| |apply IH]. rewrite IH. tauto. }
  rewrite H, in_map_iff. split.
  - intros ((j, r) & E & Hin). simpl in E. subst. apply scan_from_In in Hin. destruct Hin; eauto.
  - intros (Hb & r & Hr). exists (i, r). split; auto. apply scan_from_In. auto.
Qed.

(** the [expect("non-stale entry not mapped in hash")] of [rehash_impl] cannot fire *)
Lemma rehash_check_ok c rs h : HInv c rs h ->
  forallb (fun i => existsb (Nat.eqb i) h) (live_ids 0 rs) = true.
Proof.
  intros (_ & Hmem & _). apply forallb_forall. intros i Hi. apply live_ids_In in Hi.
  rewrite Nat.sub_0_r in Hi. destruct Hi as (_ & Hr). apply Hmem in Hr.
  apply existsb_exists. exists i. split; auto. apply Nat.eqb_refl.
Qed.

(* ------------------------------------------------------------------------------------------ *)
(** * the offsets invariant *)

Definition offR (a b : nat * nat) : Prop := fst a < fst b /\ snd a < snd b.

(** [offsets] is strictly increasing in both components; an entry [(v, s)] splits the live rows:
    exactly those with a sort value below [v] lie before [s]; every live sort value has an entry *)
Definition SInv (sc : nat) (rs : list (option row)) (o : list (nat * nat)) : Prop :=
  StronglySorted offR o /\
  (forall v s, In (v, s) o ->
     s < length rs /\ forall i r, live_at rs i = Some r -> (i < s <-> col r sc < v)) /\
  (forall i r, live_at rs i = Some r -> In (col r sc) (map fst o)).

Lemma last_In {A} (l : list A) d : l <> [] -> In (last l d) l.
Proof.
  induction l as [|a tl IH]; intros H; [contradiction|].
  destruct tl as [|b tl']; [simpl; auto|]. right. apply IH. discriminate.
Qed.

Lemma SS_last_max o d : StronglySorted offR o -> forall x, In x o -> fst x <= fst (last o d).
Proof.
  induction 1 as [|a tl Hs IH Hf]; intros x Hx; [destruct Hx|].
  destruct tl as [|b tl'].
  - destruct Hx as [E|[]]. subst. simpl. lia.
  - assert (Hl : In (last (b :: tl') d) (b :: tl')) by (apply last_In; discriminate).
    change (last (a :: b :: tl') d) with (last (b :: tl') d).
    destruct Hx as [E|Hx]; [|apply IH; auto].
    subst. rewrite Forall_forall in Hf. destruct (Hf _ Hl). lia.
Qed.

Lemma SInv_nil sc : SInv sc [] [].
Proof.
  split; [constructor|]. split; [intros v s []|].
  intros i r H. apply live_at_lt in H. simpl in H. lia.
Qed.

(** S1: appending a row whose sort value passed [serial_insert]'s assertion *)
Lemma SInv_push sc rs o v o' r' :
  SInv sc rs o -> push_off o v (length rs) = Ok o' -> col r' sc = v ->
  SInv sc (rs ++ [Some r']) o'.
Proof.
  intros (Hss & Hent & Hval) Hpush Hv.
  assert (Hlen : length (rs ++ [Some r']) = S (length rs)) by (rewrite app_length; simpl; lia).
  unfold push_off in Hpush. destruct o as [|a tl] eqn:Eo.
  - inversion Hpush; subst o'. clear Hpush.
    assert (Hno : forall i r, live_at rs i = Some r -> False) by (intros i r H; apply (Hval i r H)).
    split; [constructor; constructor|]. split.
    + intros w s [E|[]]. inversion E; subst w s. split; [lia|].
      intros i r. rewrite live_at_app. destruct (Nat.eqb_spec i (length rs)).
      * intros E'. inversion E'; subst. lia.
      * intros H. exfalso. eauto.
    + intros i r. rewrite live_at_app. destruct (i =? length rs).
      * intros E'. inversion E'; subst. simpl. auto.
      * intros H. exfalso. eauto.
  - rewrite <- Eo in *. assert (Hne : o <> []) by (subst; discriminate).
    set (L := fst (last o (0, 0))) in *.
    assert (HL : forall x, In x o -> fst x <= L) by (apply SS_last_max; auto).
    assert (HLin : In L (map fst o)) by (apply in_map, last_In; auto).
    assert (Hvals : forall i r, live_at rs i = Some r -> col r sc <= L).
    { intros i r H. apply Hval in H. apply in_map_iff in H. destruct H as (x & E & Hx). rewrite <- E. auto. }
    clear Eo. destruct (Nat.ltb_spec v L) as [Hlt|Hge]; [discriminate|].
    destruct (Nat.ltb_spec L v) as [Hgt|Hle]; inversion Hpush; subst o'; clear Hpush.
    + split; [|split].
      * apply SS_app_one; auto. intros (w, s) Hx. pose proof (HL _ Hx). destruct (Hent _ _ Hx).
        split; simpl in *; lia.
      * intros w s Hin. apply in_app_iff in Hin. destruct Hin as [Hin|[E|[]]].
        -- destruct (Hent _ _ Hin) as (Hs & Hsplit). pose proof (HL _ Hin). simpl in *. split; [lia|].
           intros i r. rewrite live_at_app. destruct (Nat.eqb_spec i (length rs)).
           ++ intros E'. inversion E'; subst. lia.
           ++ apply Hsplit.
        -- inversion E; subst w s. split; [lia|].
           intros i r. rewrite live_at_app. destruct (Nat.eqb_spec i (length rs)).
           ++ intros E'. inversion E'; subst. lia.
           ++ intros H. pose proof (live_at_lt _ _ _ H). pose proof (Hvals _ _ H). lia.
      * intros i r. rewrite live_at_app, map_app, in_app_iff. destruct (i =? length rs).
        -- intros E'. inversion E'; subst. right. simpl. auto.
        -- intros H. left. eauto.
    + assert (v = L) by lia. subst v. split; [auto|]. split.
      * intros w s Hin. destruct (Hent _ _ Hin) as (Hs & Hsplit). pose proof (HL _ Hin). simpl in *. split; [lia|].
        intros i r. rewrite live_at_app. destruct (Nat.eqb_spec i (length rs)).
        -- intros E'. inversion E'; subst. lia.
        -- apply Hsplit.
      * intros i r. rewrite live_at_app. destruct (i =? length rs).
        -- intros E'. inversion E'; subst. rewrite H. auto.
        -- eauto.
Qed.

(** S2: marking a row stale *)
Lemma SInv_set_stale sc rs o i : SInv sc rs o -> SInv sc (set_nth rs i None) o.
Proof.
  intros (Hss & Hent & Hval).
  assert (Hsub : forall j r, live_at (set_nth rs i None) j = Some r -> live_at rs j = Some r).
  { intros j r. rewrite live_at_set_stale. destruct (j =? i); [discriminate|auto]. }
  split; auto. split.
  - intros v s Hin. destruct (Hent _ _ Hin) as (Hs & Hsplit). rewrite length_set_nth. split; auto.
  - intros j r H. eauto.
Qed.

(** live rows are ordered by their sort value *)
Lemma SInv_sorted sc rs o : SInv sc rs o ->
  forall i j r r', live_at rs i = Some r -> live_at rs j = Some r' -> i < j -> col r sc <= col r' sc.
Proof.
  intros (Hss & Hent & Hval) i j r r' Hi Hj Hlt.
  destruct (Nat.le_gt_cases (col r sc) (col r' sc)) as [|Hgt]; auto. exfalso.
  pose proof (Hval _ _ Hi) as Hin. apply in_map_iff in Hin. destruct Hin as ((w, s) & E & Hin).
  simpl in E. subst w. destruct (Hent _ _ Hin) as (_ & Hsplit).
  pose proof (proj2 (Hsplit _ _ Hj) Hgt). pose proof (Hsplit _ _ Hi). lia.
Qed.

Lemma In_live_rows rs : forall r, In r (live_rows rs) -> exists j, live_at rs j = Some r.
Proof.
  induction rs as [|[r0|] tl IH]; intros r H; simpl in H; [contradiction| |].
  - destruct H as [E|H]; [subst; exists 0; reflexivity|].
    destruct (IH _ H) as (j & Hj). exists (S j). auto.
  - destruct (IH _ H) as (j & Hj). exists (S j). auto.
Qed.

Lemma live_rows_sorted (P : row -> row -> Prop) rs :
  (forall i j r r', live_at rs i = Some r -> live_at rs j = Some r' -> i < j -> P r r') ->
  StronglySorted P (live_rows rs).
Proof.
  induction rs as [|x tl IH]; intros H; simpl; [constructor|].
  assert (Htl : StronglySorted P (live_rows tl)).
  { apply IH. intros i j r r' Hi Hj Hlt. apply (H (S i) (S j)); auto. lia. }
  destruct x as [r0|]; auto. constructor; auto.
  apply Forall_forall. intros r' Hr'. apply In_live_rows in Hr'. destruct Hr' as (j & Hj).
  apply (H 0 (S j)); auto. lia.
Qed.

Lemma SS_app_before {A} (R : A -> A -> Prop) l1 x l2 :
  StronglySorted R (l1 ++ x :: l2) -> forall y, In y l1 -> R y x.
Proof.
  induction l1 as [|a l1 IH]; intros H y Hy; [destruct Hy|].
  simpl in H. inversion H as [|? ? Hs Hf]; subst. destruct Hy as [E|Hy]; [|apply IH; auto].
  subst. rewrite Forall_forall in Hf. apply Hf. apply in_app_iff. right. simpl. auto.
Qed.

Lemma push_nochk_ok o v n :
  (forall d, o <> [] -> fst (last o d) <= v) -> push_off o v n = Ok (push_nochk o v n).
Proof.
  intros H. unfold push_off, push_nochk. destruct o as [|a tl]; auto.
  assert (Hle : fst (last (a :: tl) (0, 0)) <= v) by (apply H; discriminate).
  destruct (Nat.ltb_spec v (fst (last (a :: tl) (0, 0)))); [lia|].
  destruct (fst (last (a :: tl) (0, 0)) <? v); reflexivity.
Qed.

Lemma push_nochk_vals o v n w : In w (map fst (push_nochk o v n)) -> In w (map fst o) \/ w = v.
Proof.
  unfold push_nochk. destruct o as [|a tl]; [simpl; intuition|].
  destruct (fst (last (a :: tl) (0, 0)) <? v); auto.
  rewrite map_app, in_app_iff. simpl. intuition.
Qed.

(** S3: the offsets rebuilt by [rehash_impl] *)
Lemma build_offs_inv sc : forall todo done o,
  SInv sc (map Some done) o ->
  (forall v, In v (map fst o) -> exists r, In r done /\ col r sc = v) ->
  StronglySorted (fun r r' => col r sc <= col r' sc) (done ++ todo) ->
  SInv sc (map Some (done ++ todo)) (build_offs sc todo (length done) o).
Proof.
  induction todo as [|r tl IH]; intros done o HS Hv Hsorted; simpl.
  - rewrite app_nil_r. auto.
  - assert (Hlen : S (length done) = length (done ++ [r])) by (rewrite app_length; simpl; lia).
    rewrite Hlen. replace (done ++ r :: tl) with ((done ++ [r]) ++ tl) by (rewrite <- app_assoc; reflexivity).
    apply IH.
    + rewrite map_app. simpl. replace (length done) with (length (map Some done)) by apply map_length.
      eapply SInv_push; eauto. rewrite map_length. apply push_nochk_ok.
      intros d Hne. assert (Hin : In (fst (last o d)) (map fst o)) by (apply in_map, last_In; auto).
      destruct (Hv _ Hin) as (r0 & Hr0 & E). rewrite <- E.
      apply (SS_app_before _ _ _ _ Hsorted). auto.
    + intros v Hin. apply push_nochk_vals in Hin. destruct Hin as [Hin|E].
      * destruct (Hv _ Hin) as (r0 & Hr0 & E). exists r0. split; auto. apply in_app_iff. auto.
      * exists r. split; auto. apply in_app_iff. simpl. auto.
    + rewrite <- app_assoc. exact Hsorted.
Qed.

Lemma SInv_rehash sc rs o :
  SInv sc rs o -> SInv sc (map Some (live_rows rs)) (build_offs sc (live_rows rs) 0 []).
Proof.
  intros HS. apply (build_offs_inv sc (live_rows rs) [] []).
  - apply SInv_nil.
  - intros v [].
  - simpl. apply live_rows_sorted. intros i j r r'. apply (SInv_sorted sc rs o HS).
Qed.

(* ------------------------------------------------------------------------------------------ *)
(** * the whole table *)

Definition TInv (c : cfg) (t : T) : Prop :=
  HInv c (rows t) (hash t) /\
  (forall sc, sortc c = Some sc -> SInv sc (rows t) (offs t)) /\
  stale t + length (live_rows (rows t)) = length (rows t).

Lemma TInv_empty c : TInv c empty.
Proof. split; [apply HInv_nil|]. split; [intros; apply SInv_nil|reflexivity]. Qed.

Lemma append_ok c t q r t' :
  append c t q r = Ok t' ->
  (forall sc, sortc c = Some sc -> col r sc = col q sc) ->
  rows t' = rows t ++ [Some r] /\ hash t' = hash t /\ stale t' = stale t /\ gen t' = gen t /\
  pins t' = pins t /\ prem t' = prem t /\
  (forall sc, sortc c = Some sc -> SInv sc (rows t) (offs t) -> SInv sc (rows t') (offs t')).
Proof.
  unfold append. intros H Hcol. destruct (sortc c) as [sc|] eqn:Es.
  - destruct (push_off (offs t) (col q sc) (length (rows t))) as [o| |] eqn:Ep; try discriminate.
    simpl in H. inversion H; subst t'; simpl. repeat (split; [reflexivity|]).
    intros sc' E HS. inversion E; subst sc'. eapply SInv_push; eauto.
  - inversion H; subst t'; simpl. repeat (split; [reflexivity|]). intros sc' E. discriminate.
Qed.

Lemma Abs_lookup_some c rs m i r : Abs c rs m -> live_at rs i = Some r -> m (key_of c r) = Some r.
Proof. intros HA H. apply HA. eauto. Qed.

Lemma Abs_lookup_none c rs h m k : HInv c rs h -> Abs c rs m -> hfind c rs h k = None -> m k = None.
Proof. intros HI HA H. rewrite <- (abs_get c rs h m k HI HA), H. reflexivity. Qed.

Lemma insert_one_ok c mf t q t' m :
  mf_ok c mf -> TInv c t -> Abs c (rows t) m -> insert_one c mf t q = Ok t' ->
  TInv c t' /\ Abs c (rows t') (s_insert c mf m q) /\
  pins t' = pins t /\ prem t' = prem t /\ gen t' = gen t.
Proof.
  intros Hmf (HH & HS & Hst) HA Hins. unfold insert_one in Hins. unfold s_insert.
  destruct (hfind c (rows t) (hash t) (key_of c q)) as [(i, cur)|] eqn:Ef.
  - destruct (hfind_sound _ _ _ _ _ _ Ef) as (Hih & Hil & Hik).
    pose proof (Abs_lookup_some _ _ _ _ _ HA Hil) as Hm. rewrite Hik in Hm. rewrite Hm.
    destruct (mf cur q) as [mr|] eqn:Em.
    + destruct (Hmf _ _ _ Em) as (Hkey & Hsort).
      destruct (append c t q mr) as [t1| |] eqn:Ea; try discriminate.
      destruct (append_ok _ _ _ _ _ Ea Hsort) as (Er & Eh & Est & Eg & Epi & Epr & HS1).
      simpl in Hins. inversion Hins; subst t'; simpl. clear Hins.
      assert (Hk' : key_of c mr = key_of c cur) by congruence.
      rewrite Er, Eh. split; [|split].
      * split; [apply HInv_overwrite with (cur := cur); auto|]. split.
        -- intros sc Es. apply SInv_set_stale. rewrite <- Er. apply HS1; auto.
        -- simpl. rewrite length_set_nth, app_length. simpl.
           assert (Hl : live_at (rows t ++ [Some mr]) i = Some cur).
           { rewrite live_at_app. pose proof (live_at_lt _ _ _ Hil).
             destruct (Nat.eqb_spec i (length (rows t))); [lia|auto]. }
           pose proof (live_rows_set_stale_len _ _ _ Hl) as Hlen.
           rewrite live_rows_app, app_length in Hlen. simpl in Hlen. lia.
      * rewrite <- Hik. apply Abs_overwrite with (h := hash t); auto.
      * auto.
    + inversion Hins; subst t'. repeat (split; auto).
  - rewrite (Abs_lookup_none _ _ _ _ _ HH HA Ef).
    destruct (append c t q q) as [t1| |] eqn:Ea; try discriminate.
    destruct (append_ok _ _ _ _ _ Ea (fun _ _ => eq_refl)) as (Er & Eh & Est & Eg & Epi & Epr & HS1).
    simpl in Hins. inversion Hins; subst t'; simpl. clear Hins.
    rewrite Er, Eh. split; [|split].
    + split; [apply HInv_fresh; auto|]. split.
      * intros sc Es. rewrite <- Er. apply HS1; auto.
      * simpl. rewrite live_rows_app, !app_length. simpl. lia.
    + apply Abs_fresh with (h := hash t); auto.
    + auto.
Qed.

Lemma delete_one_ok c t k m :
  TInv c t -> Abs c (rows t) m ->
  TInv c (delete_one c t k) /\ Abs c (rows (delete_one c t k)) (sdel m k) /\
  pins (delete_one c t k) = pins t /\ prem (delete_one c t k) = prem t /\
  gen (delete_one c t k) = gen t.
Proof.
  intros (HH & HS & Hst) HA. unfold delete_one.
  destruct (hfind c (rows t) (hash t) k) as [(i, cur)|] eqn:Ef; simpl.
  - destruct (hfind_sound _ _ _ _ _ _ Ef) as (Hih & Hil & Hik). split; [|split].
    + split; [eapply HInv_delete; eauto|]. split.
      * intros sc Es. apply SInv_set_stale. auto.
      * simpl. rewrite length_set_nth. pose proof (live_rows_set_stale_len _ _ _ Hil). lia.
    + rewrite <- Hik. eapply Abs_delete; eauto.
    + auto.
  - split; [split; auto|]. split; auto. eapply Abs_delete_absent; eauto.
Qed.

Lemma delete_all_ok c : forall ks t m,
  TInv c t -> Abs c (rows t) m ->
  TInv c (fold_left (delete_one c) ks t) /\
  Abs c (rows (fold_left (delete_one c) ks t)) (fold_left sdel ks m) /\
  pins (fold_left (delete_one c) ks t) = pins t /\ prem (fold_left (delete_one c) ks t) = prem t /\
  gen (fold_left (delete_one c) ks t) = gen t.
Proof.
  induction ks as [|k tl IH]; intros t m HT HA; simpl; [auto|].
  destruct (delete_one_ok c t k m HT HA) as (HT1 & HA1 & E1 & E2 & E3).
  destruct (IH _ _ HT1 HA1) as (HT2 & HA2 & E4 & E5 & E6).
  repeat (split; auto); congruence.
Qed.

Lemma insert_all_ok c mf : mf_ok c mf -> forall qs t m t',
  TInv c t -> Abs c (rows t) m -> insert_all c mf t qs = Ok t' ->
  TInv c t' /\ Abs c (rows t') (fold_left (s_insert c mf) qs m) /\
  pins t' = pins t /\ prem t' = prem t /\ gen t' = gen t.
Proof.
  intros Hmf. induction qs as [|q tl IH]; intros t m t' HT HA H; simpl in *.
  - inversion H; subst. auto.
  - destruct (insert_one c mf t q) as [t1| |] eqn:E1; try discriminate. simpl in H.
    destruct (insert_one_ok c mf t q t1 m Hmf HT HA E1) as (HT1 & HA1 & E2 & E3 & E4).
    destruct (IH _ _ _ HT1 HA1 H) as (HT2 & HA2 & E5 & E6 & E7).
    repeat (split; auto); congruence.
Qed.

(** [rehash] never hits its [expect], preserves the abstraction, and bumps the generation *)
Lemma rehash_ok c t m : TInv c t -> Abs c (rows t) m ->
  exists t', rehash c t = Ok t' /\ TInv c t' /\ Abs c (rows t') m /\
    pins t' = pins t /\ prem t' = prem t /\ gen t' = S (gen t) /\ stale t' = 0.
Proof.
  intros (HH & HS & Hst) HA. unfold rehash. rewrite (rehash_check_ok c _ _ HH).
  eexists. split; [reflexivity|]. simpl. split; [|split].
  - split; [apply HInv_rehash; auto|]. split.
    + intros sc Es. rewrite Es. eapply SInv_rehash. eauto.
    + simpl. rewrite map_length. clear. induction (live_rows (rows t)) as [|r l IH]; simpl; auto.
  - apply Abs_rehash. auto.
  - auto.
Qed.

Lemma maybe_rehash_ok c t m : TInv c t -> Abs c (rows t) m ->
  exists t', maybe_rehash c t = Ok t' /\ TInv c t' /\ Abs c (rows t') m /\
    pins t' = pins t /\ prem t' = prem t /\
    (stale t <= Nat.max 16 (length (rows t) / 2) -> t' = t) /\
    (Nat.max 16 (length (rows t) / 2) < stale t -> gen t' = S (gen t) /\ stale t' = 0).
Proof.
  intros HT HA. unfold maybe_rehash, TableFns.maybe_rehash_skip.
  destruct (Nat.leb_spec (stale t) (Nat.max 16 (length (rows t) / 2))) as [Hle|Hgt].
  - exists t. split; [reflexivity|]. split; [exact HT|]. split; [exact HA|].
    split; [reflexivity|]. split; [reflexivity|]. split; [reflexivity|]. intros; lia.
  - destruct (rehash_ok c t m HT HA) as (t' & E & HT' & HA' & E1 & E2 & E3 & E4).
    exists t'. split; [exact E|]. split; [exact HT'|]. split; [exact HA'|].
    split; [exact E1|]. split; [exact E2|]. split; [intros; lia|]. intros; split; assumption.
Qed.

(** the relation between a physical state and a spec state *)
Definition Ref (c : cfg) (t : T) (s : Spec) : Prop :=
  Abs c (rows t) (sm s) /\ pins t = s_ins s /\ prem t = s_rem s.

Lemma merge_ok c mf t s t' :
  mf_ok c mf -> TInv c t -> Ref c t s -> merge c mf t = Ok t' ->
  TInv c t' /\ Ref c t' (s_step c mf s OMerge).
Proof.
  intros Hmf HT (HA & Ei & Er) H. unfold merge in H.
  destruct (do_insert c mf (do_delete c t)) as [t2| |] eqn:E2; try discriminate. simpl in H.
  unfold do_insert, do_delete in E2.
  set (t0 := mkT (rows t) (stale t) (hash t) (offs t) (gen t) (pins t) []) in *.
  assert (HT0 : TInv c t0) by (destruct HT as (A & B & C); split; auto).
  destruct (delete_all_ok c (prem t) t0 (sm s) HT0 HA) as (HT1 & HA1 & E3 & E4 & E5).
  set (t1 := fold_left (delete_one c) (prem t) t0) in *.
  set (t1' := mkT (rows t1) (stale t1) (hash t1) (offs t1) (gen t1) [] (prem t1)) in *.
  assert (HT1' : TInv c t1') by (destruct HT1 as (A & B & C); split; auto).
  assert (Epins : pins t1 = pins t) by (rewrite E3; reflexivity).
  rewrite Epins in E2.
  destruct (insert_all_ok c mf Hmf (pins t) t1' _ t2 HT1' HA1 E2) as (HT2 & HA2 & E6 & E7 & E8).
  destruct (maybe_rehash_ok c t2 _ HT2 HA2) as (t3 & E9 & HT3 & HA3 & E10 & E11 & _).
  rewrite E9 in H. inversion H; subst t3. split; auto.
  split; [|split]; simpl.
  - rewrite <- Ei, <- Er. exact HA3.
  - rewrite E10, E6. reflexivity.
  - rewrite E11, E7. simpl. rewrite E4. reflexivity.
Qed.

Lemma clear_ok c t : TInv c t -> TInv c (clear t) /\ Ref c (clear t) s_init.
Proof.
  intros (HH & HS & Hst). unfold clear. destruct (rows t) as [|x tl] eqn:E.
  - split.
    + split; [exact HH|]. split; [exact HS|exact Hst].
    + split; [apply Abs_nil|auto].
  - split.
    + split; [apply HInv_nil|]. split; [intros; apply SInv_nil|reflexivity].
    + split; [apply Abs_nil|auto].
Qed.

Lemma step_ok c mf t s o t' :
  mf_ok c mf -> TInv c t -> Ref c t s -> step c mf t o = Ok t' ->
  TInv c t' /\ Ref c t' (s_step c mf s o).
Proof.
  intros Hmf HT HR H. destruct o; simpl in H; try (inversion H; subst t'; auto; fail).
  - inversion H; subst t'. destruct HT as (A & B & C). destruct HR as (D & E & F).
    split; [split; auto|]. split; [|split]; simpl; auto. congruence.
  - inversion H; subst t'. destruct HT as (A & B & C). destruct HR as (D & E & F).
    split; [split; auto|]. split; [|split]; simpl; auto. congruence.
  - eapply merge_ok; eauto.
  - inversion H; subst t'. apply clear_ok. auto.
Qed.

(** ** the refinement theorem: every op sequence *)
Theorem run_refines c mf : mf_ok c mf -> forall ops t s t',
  TInv c t -> Ref c t s -> run c mf t ops = Ok t' ->
  TInv c t' /\ Ref c t' (s_run c mf s ops).
Proof.
  intros Hmf. induction ops as [|o tl IH]; intros t s t' HT HR H; simpl in *.
  - inversion H; subst. auto.
  - destruct (step c mf t o) as [t1| |] eqn:E; try discriminate. simpl in H.
    destruct (step_ok c mf t s o t1 Hmf HT HR E) as (HT1 & HR1). eauto.
Qed.

Lemma Ref_init c : Ref c empty s_init.
Proof. split; [apply Abs_nil|auto]. Qed.

(** what every read answers in a state that satisfies the invariant *)
Theorem reads_as_map c t s : TInv c t -> Ref c t s ->
  (forall k, option_map snd (get c t k) = sm s k) /\
  (forall i r, In (i, r) (scan_all t) <-> get c t (key_of c r) = Some (i, r)) /\
  (forall r, In r (map snd (scan_all t)) <-> sm s (key_of c r) = Some r) /\
  NoDup (map fst (scan_all t)) /\
  NoDup (map (fun p => key_of c (snd p)) (scan_all t)) /\
  (forall cs i r, In (i, r) (scan_cs t cs) <-> In (i, r) (scan_all t) /\ eval_cs cs r = true) /\
  length (rows t) - stale t = length (scan_all t).
Proof.
  intros (HH & HS & Hst) (HA & _ & _).
  assert (Hscan : forall i r, In (i, r) (scan_all t) <-> get c t (key_of c r) = Some (i, r)).
  { intros i r. rewrite scan_all_In. unfold get. split.
    - intros Hl. apply hfind_complete; auto.
    - intros Hg. apply hfind_sound in Hg. tauto. }
  split; [intros k; apply abs_get; auto|]. split; [exact Hscan|]. split; [|split; [|split; [|split]]].
  - intros r. rewrite in_map_iff. split.
    + intros ((i, r') & E & Hin). simpl in E. subst r'. apply scan_all_In in Hin. eapply Abs_lookup_some; eauto.
    + intros Hm. apply HA in Hm. destruct Hm as (i & Hl & _). exists (i, r). split; auto. apply scan_all_In. auto.
  - apply scan_from_NoDup.
  - destruct HH as (_ & _ & Huniq). unfold scan_all.
    assert (Hgen : forall rs b, (forall i j r r', live_at rs i = Some r -> live_at rs j = Some r' ->
                     key_of c r = key_of c r' -> i = j) ->
                   NoDup (map (fun p => key_of c (snd p)) (scan_from b rs))).
    { clear. induction rs as [|x tl IH]; intros b Hu; simpl; [constructor|].
      assert (Htl : NoDup (map (fun p => key_of c (snd p)) (scan_from (S b) tl))).
      { apply IH. intros i j r r' Hi Hj Hk. assert (S i = S j) by (eapply Hu; eauto). lia. }
      destruct x as [r0|]; auto. simpl. constructor; auto.
      intros Hin. apply in_map_iff in Hin. destruct Hin as ((j, r') & E & Hin). simpl in E.
      apply scan_from_In in Hin. destruct Hin as (Hb & Hl).
      assert (0 = S (j - S b)) by (apply (Hu 0 (S (j - S b)) r0 r'); [reflexivity|exact Hl|symmetry; exact E]). lia. }
    apply Hgen. exact Huniq.
  - intros cs i r. unfold scan_cs. rewrite filter_In. simpl. tauto.
  - unfold scan_all. assert (Hl : forall rs b, length (scan_from b rs) = length (live_rows rs)).
    { clear. induction rs as [|[r|] tl IH]; intros b; simpl; auto. }
    rewrite Hl. lia.
Qed.

(* ------------------------------------------------------------------------------------------ *)
(** * [fast_subset_spec] on the sort column is exact *)

Definition cut_lt sc rs v c := forall i r, live_at rs i = Some r -> (i < c <-> col r sc < v).
Definition cut_le sc rs v c := forall i r, live_at rs i = Some r -> (i < c <-> col r sc <= v).

Lemma SS_app_after {A} (R : A -> A -> Prop) l1 x l2 :
  StronglySorted R (l1 ++ x :: l2) -> forall y, In y l2 -> R x y.
Proof.
  induction l1 as [|a l1 IH]; intros H y Hy; simpl in H; inversion H as [|? ? Hs Hf]; subst.
  - rewrite Forall_forall in Hf. auto.
  - apply IH; auto.
Qed.

Lemma bsearch_cut sc rs v : forall suf pre,
  SInv sc rs (pre ++ suf) -> (forall x, In x pre -> fst x < v) ->
  match bsearch suf v (length rs) with
  | BOk f b => cut_lt sc rs v f /\ cut_le sc rs v b
  | BErr x => cut_lt sc rs v x /\ cut_le sc rs v x
  end.
Proof.
  induction suf as [|(w, s) tl IH]; intros pre HS Hpre; simpl.
  - destruct HS as (_ & _ & Hval). rewrite app_nil_r in Hval.
    assert (Hlt : forall i r, live_at rs i = Some r -> col r sc < v).
    { intros i r H. apply Hval in H. apply in_map_iff in H. destruct H as (x & E & Hx). rewrite <- E. auto. }
    split; intros i r H; pose proof (live_at_lt _ _ _ H); pose proof (Hlt _ _ H); lia.
  - destruct (Nat.ltb_spec w v) as [Hwv|Hvw].
    + apply (IH (pre ++ [(w, s)])).
      * rewrite <- app_assoc. exact HS.
      * intros x Hx. apply in_app_iff in Hx. destruct Hx as [Hx|[E|[]]]; [auto|subst; auto].
    + destruct HS as (Hss & Hent & Hval).
      assert (Htl : forall y, In y tl -> w < fst y).
      { intros y Hy. apply (SS_app_after _ _ _ _ Hss) in Hy. destruct Hy. auto. }
      assert (Hcls : forall i r, live_at rs i = Some r ->
                col r sc < v \/ col r sc = w \/ In (col r sc) (map fst tl)).
      { intros i r H. apply Hval in H. rewrite map_app, in_app_iff in H. simpl in H.
        destruct H as [H|[H|H]]; auto. left. apply in_map_iff in H. destruct H as (x & E & Hx).
        rewrite <- E. auto. }
      assert (Hws : forall i r, live_at rs i = Some r -> (i < s <-> col r sc < w)).
      { apply (Hent w s). apply in_app_iff. right. simpl. auto. }
      destruct (Nat.eqb_spec w v) as [Heq|Hne].
      * subst w. split; [exact Hws|].
        destruct tl as [|(w', s') tl'].
        -- intros i r H. pose proof (live_at_lt _ _ _ H). destruct (Hcls _ _ H) as [?|[?|[]]]; lia.
        -- assert (Hw' : v < w') by (apply (Htl (w', s')); simpl; auto).
           assert (Htl' : forall y, In y tl' -> w' < fst y).
           { intros y Hy. replace (pre ++ (v, s) :: (w', s') :: tl') with ((pre ++ [(v, s)]) ++ (w', s') :: tl') in Hss
               by (rewrite <- app_assoc; reflexivity).
             apply (SS_app_after _ _ _ _ Hss) in Hy. destruct Hy. auto. }
           assert (Hs' : forall i r, live_at rs i = Some r -> (i < s' <-> col r sc < w')).
           { apply (Hent w' s'). apply in_app_iff. right. simpl. auto. }
           intros i r H. rewrite (Hs' _ _ H). destruct (Hcls _ _ H) as [?|[?|Hin]]; [lia|lia|].
           simpl in Hin. destruct Hin as [E|Hin]; [lia|].
           apply in_map_iff in Hin. destruct Hin as (y & E & Hy). apply Htl' in Hy. lia.
      * assert (Hgt : v < w) by lia.
        split; intros i r H; rewrite (Hws _ _ H); (destruct (Hcls _ _ H) as [?|[?|Hin]]; [lia|lia|]);
          apply in_map_iff in Hin; destruct Hin as (y & E & Hy); apply Htl in Hy; lia.
Qed.

Theorem fast_subset_exact c t sc cn lo hi :
  TInv c t -> sortc c = Some sc -> fast_subset_spec c t cn = Some (lo, hi) ->
  forall i r, live_at (rows t) i = Some r -> (lo <= i < hi <-> eval_c cn r = true).
Proof.
  intros (_ & HS & _) Es Hf i r Hl. specialize (HS sc Es).
  pose proof (live_at_lt _ _ _ Hl) as Hlt.
  unfold fast_subset_spec in Hf. rewrite Es in Hf.
  destruct cn as [l r'|cl v|cl v|cl v|cl v|cl v]; try discriminate;
    (destruct (Nat.eqb_spec cl sc) as [Ecl|]; [subst cl|discriminate]);
    pose proof (bsearch_cut sc (rows t) v (offs t) [] HS (fun x (H : In x []) => match H with end)) as Hb;
    destruct (bsearch (offs t) v (length (rows t))) as [f b|x];
    destruct Hb as (Hclt & Hcle); pose proof (Hclt _ _ Hl); pose proof (Hcle _ _ Hl);
    inversion Hf; subst lo hi; simpl;
    rewrite ?Nat.eqb_eq, ?Nat.ltb_lt, ?Nat.leb_le; lia.
Qed.

(** so scanning the dense range returned by [fast_subset_spec] = scanning under the constraint *)
Corollary fast_subset_scan c t sc cn lo hi :
  TInv c t -> sortc c = Some sc -> fast_subset_spec c t cn = Some (lo, hi) ->
  scan_range t lo hi = scan_cs t [cn].
Proof.
  intros HT Es Hf. unfold scan_range, scan_cs. apply filter_ext_in. intros (i, r) Hin.
  apply scan_all_In in Hin. pose proof (fast_subset_exact c t sc cn lo hi HT Es Hf i r Hin) as Hex.
  simpl. rewrite andb_true_r. destruct (eval_c cn r).
  - assert (lo <= i < hi) by (apply Hex; auto). apply andb_true_iff. rewrite Nat.leb_le, Nat.ltb_lt. lia.
  - apply andb_false_iff. destruct (Nat.leb_spec lo i); auto. destruct (Nat.ltb_spec i hi); auto.
    assert (false = true) by (apply Hex; lia). discriminate.
Qed.

(** constraints that are not on the sort column are never answered by [fast_subset_spec] *)
Lemma fast_subset_only_sort c t cn lo hi : fast_subset_spec c t cn = Some (lo, hi) ->
  exists sc, sortc c = Some sc /\
    match cn with CEq _ _ => False | CEqC cl _ | CLt cl _ | CGt cl _ | CLe cl _ | CGe cl _ => cl = sc end.
Proof.
  unfold fast_subset_spec. destruct (sortc c) as [sc|]; [|discriminate]. intros H. exists sc. split; auto.
  destruct cn; try discriminate; destruct (Nat.eqb_spec c0 sc); auto; discriminate.
Qed.

(* ------------------------------------------------------------------------------------------ *)
(** * the merge functions installed by the harness satisfy the contract *)

Lemma firstn_mapi_from {A} (f : nat -> A -> A) : forall l b n,
  (forall i x, b <= i < b + n -> f i x = x) -> firstn n (mapi_from f b l) = firstn n l.
Proof.
  induction l as [|a tl IH]; intros b n H; simpl; [destruct n; reflexivity|].
  destruct n as [|n]; [reflexivity|]. simpl. rewrite H by lia. f_equal.
  apply IH. intros i x Hi. apply H. lia.
Qed.

Lemma mf_of_ok c m : mf_ok c (mf_of c m).
Proof.
  intros cur q r H.
  assert (Hmerged : key_of c (merged c m cur q) = key_of c q /\
                    (forall sc, sortc c = Some sc -> col (merged c m cur q) sc = col q sc)).
  { split.
    - unfold key_of, merged, mapi. apply firstn_mapi_from. intros i x Hi.
      destruct (Nat.ltb_spec i (nk c)); [reflexivity|lia].
    - intros sc Es. unfold col, merged, mapi. destruct (Nat.lt_ge_cases sc (length q)) as [Hlt|Hge].
      + rewrite (nth_mapi_from _ q 0 sc 0 0 Hlt). simpl. unfold is_sort. rewrite Es, Nat.eqb_refl, orb_true_r. reflexivity.
      + rewrite !nth_overflow; auto. rewrite length_mapi_from. auto. }
  destruct m; simpl in H; try discriminate;
    try (destruct (list_eqb Nat.eqb _ _); [discriminate|]; inversion H; subst r; exact Hmerged).
  inversion H; subst r. split; auto.
Qed.

(* ------------------------------------------------------------------------------------------ *)
(** * statements over whole histories (what Props/C16.v pins) *)

Theorem table_answers_as_map c mf ops t :
  mf_ok c mf -> run c mf empty ops = Ok t ->
  let s := s_run c mf s_init ops in
  (forall k, option_map snd (get c t k) = sm s k) /\
  (forall r, In r (map snd (scan_all t)) <-> sm s (key_of c r) = Some r) /\
  NoDup (map fst (scan_all t)) /\
  NoDup (map (fun p => key_of c (snd p)) (scan_all t)) /\
  (forall cs i r, In (i, r) (scan_cs t cs) <-> In (i, r) (scan_all t) /\ eval_cs cs r = true) /\
  length (rows t) - stale t = length (scan_all t) /\
  pins t = s_ins s /\ prem t = s_rem s.
Proof.
  intros Hmf Hrun s.
  destruct (run_refines c mf Hmf ops empty s_init t (TInv_empty c) (Ref_init c) Hrun) as (HT & HR).
  destruct (reads_as_map c t _ HT HR) as (H1 & _ & H3 & H4 & H5 & H6 & H7).
  destruct HR as (_ & Hp & Hr). repeat (split; auto).
Qed.

Theorem table_fast_subset_exact c mf ops t sc cn lo hi :
  mf_ok c mf -> run c mf empty ops = Ok t ->
  sortc c = Some sc -> fast_subset_spec c t cn = Some (lo, hi) ->
  (forall i r, In (i, r) (scan_all t) -> (lo <= i < hi <-> eval_c cn r = true)) /\
  scan_range t lo hi = scan_cs t [cn].
Proof.
  intros Hmf Hrun Es Hf.
  destruct (run_refines c mf Hmf ops empty s_init t (TInv_empty c) (Ref_init c) Hrun) as (HT & _).
  split.
  - intros i r Hin. apply scan_all_In in Hin. eapply fast_subset_exact; eauto.
  - eapply fast_subset_scan; eauto.
Qed.

Theorem table_offsets_inv c mf ops t sc :
  mf_ok c mf -> run c mf empty ops = Ok t -> sortc c = Some sc -> SInv sc (rows t) (offs t).
Proof.
  intros Hmf Hrun Es.
  destruct (run_refines c mf Hmf ops empty s_init t (TInv_empty c) (Ref_init c) Hrun) as ((_ & HS & _) & _).
  auto.
Qed.

Theorem table_rehash_preserves c mf ops t :
  mf_ok c mf -> run c mf empty ops = Ok t ->
  exists t', rehash c t = Ok t' /\
    (forall k, option_map snd (get c t' k) = option_map snd (get c t k)) /\
    (forall r, In r (map snd (scan_all t')) <-> In r (map snd (scan_all t))) /\
    gen t' = S (gen t) /\ stale t' = 0 /\ length (rows t') = length (scan_all t).
Proof.
  intros Hmf Hrun.
  destruct (run_refines c mf Hmf ops empty s_init t (TInv_empty c) (Ref_init c) Hrun) as (HT & HR).
  destruct HR as (HA & Hp & Hr).
  destruct (rehash_ok c t _ HT HA) as (t' & E & HT' & HA' & E1 & E2 & E3 & E4).
  exists t'. split; auto.
  set (s := s_run c mf s_init ops) in *.
  assert (HR : Ref c t s) by (split; auto).
  assert (HR' : Ref c t' (mkS (sm s) (pins t') (prem t'))) by (split; auto).
  destruct (reads_as_map c t s HT HR) as (H1 & _ & H3 & _ & _ & _ & H7).
  destruct (reads_as_map c t' _ HT' HR') as (H1' & _ & H3' & _ & _ & _ & H7').
  split; [intros k; rewrite H1, H1'; reflexivity|].
  split; [intros r; rewrite H3, H3'; reflexivity|].
  split; auto. split; auto.
  unfold rehash in E. destruct (forallb _ _); [|discriminate]. inversion E; subst t'. simpl.
  rewrite map_length. unfold scan_all. clear.
  generalize 0. induction (rows t) as [|[r|] tl IH]; intros b; simpl; auto.
Qed.

Lemma merge_rehash_threshold c mf t t' :
  merge c mf t = Ok t' ->
  exists t2, do_insert c mf (do_delete c t) = Ok t2 /\
    (stale t2 <= Nat.max 16 (length (rows t2) / 2) -> t' = t2) /\
    (Nat.max 16 (length (rows t2) / 2) < stale t2 -> rehash c t2 = Ok t').
Proof.
  unfold merge. destruct (do_insert c mf (do_delete c t)) as [t2| |]; try discriminate. cbn [bind].
  intros H. exists t2. split; auto. unfold maybe_rehash, TableFns.maybe_rehash_skip in H.
  set (m := Nat.max 16 (length (rows t2) / 2)) in *.
  destruct (Nat.leb_spec (stale t2) m) as [Hle|Hgt].
  - inversion H; subst t'. split; intros; [reflexivity|lia].
  - split; intros; [lia|exact H].
Qed.

Lemma clear_bumps t : rows t <> [] ->
  gen (clear t) = S (gen t) /\ rows (clear t) = [] /\ pins (clear t) = [] /\ prem (clear t) = [].
Proof. unfold clear. destruct (rows t); [contradiction|simpl; auto]. Qed.

Lemma run_obs_step c mf t o tl t' : step c mf t o = Ok t' ->
  run_obs c mf t (o :: tl) = (match read c t o with Some b => [b] | None => [] end) ++ run_obs c mf t' tl.
Proof. intros H. simpl. rewrite H. reflexivity. Qed.
