//! `purefn`: translation of small integer / slice routines into Gallina over `N` (binary naturals).
//!
//! Output: `gen/PureFns.v`. One report line per item (`PureFns.<fn>`); an item that leaves the
//! supported subset is reported `ok:false` and its definitions are OMITTED from the file (only a
//! comment naming the reason is left), so everything that depends on it stops compiling.
//!
//! Supported subset (anything else is an error, never a guess):
//!  * parameters / locals of unsigned integer type or id newtypes listed in `ID_TYPES` (-> `N`),
//!    `&self` of a slice wrapper whose `.inner()` is the slice (-> `list N`);
//!  * integer literals (underscores, suffixes), `u8::MAX`/`u16::MAX`/`u32::MAX`/`usize::MAX`
//!    (optionally `as <wider uint>`), `lit << lit` (emitted as `N.shiftl`, folded by Coq, not here);
//!  * comparisons `< <= > >= == !=`, short-circuit `&& || !`;
//!  * `a + b`, `a - b` on usize quantities only (checked: `uadd`/`usub` of Index/Prelude.v panic on
//!    usize overflow / underflow; arithmetic mentioning a 32-bit variable or a slice element is
//!    rejected), `a.saturating_mul(b)`, `s.len()`, `s[i]` (panics out of bounds), `s[a..b]`,
//!    `s[a..]` (panic unless `a <= b <= len`);
//!  * `let [mut] x = e;`, `x = e;`, `x += e;`, `x -= e;`, `if c {..} [else ..]`, `return e`,
//!    `loop {..}` with `break v`, `while c {..}`, `let x = loop {..};`,
//!    `match a.cmp(&b) { Less/Equal/Greater => .. }`,
//!    `match s.binary_search(&t) { Ok([mut] i) => .., Err(x) => .. }` — the standard library's
//!    binary search is NOT translated: it becomes the Section variable `std_binary_search`, about
//!    which the proofs assume only the documented contract;
//!  * `Ok(e)` / `Err(e)` of a `Result<usize, usize>` (-> `ROk` / `RErr`).
//!
//! Scheme: continuation-passing. A loop becomes a fuel-recursive `Fixpoint <fn>_loop<k>` over all
//! variables in scope; what follows the loop becomes `Definition <fn>_after<k>` (a join point, so
//! `break` / loop exit do not duplicate code); mutation is shadowing (`let x := .. in`), which is
//! sound because the continuation text is always nested inside the binder; shadowing by a *new*
//! `let` of a name already in scope is rejected. Functions without any effect (no checked
//! arithmetic, indexing, loop) are emitted as plain `N`-valued definitions, all others return
//! `Res _` (Base/Res.v) and take `fuel : nat`.
use std::rc::Rc;
use syn::{spanned::Spanned, BinOp, Expr, FnArg, ImplItem, Item as SynItem, Lit, Pat, ReturnType, Stmt, Type, UnOp};

pub struct Item {
    pub file: &'static str,
    /// "" = free function at the top level of the file
    pub impl_type: &'static str,
    pub fname: &'static str,
}

pub fn items() -> Vec<Item> {
    vec![
        Item { file: "core-relations/src/hash_index/mod.rs", impl_type: "", fname: "radix_passes_for" },
        Item { file: "core-relations/src/offsets/mod.rs", impl_type: "SortedOffsetSlice", fname: "binary_search_from" },
        Item { file: "core-relations/src/offsets/mod.rs", impl_type: "SortedOffsetSlice", fname: "scan_for_offset" },
    ]
}

/// newtypes over u32 that are compared through their representation (numeric-id `define_id!`)
const ID_TYPES: &[&str] = &["RowId", "Value"];
const UINT_TYPES: &[&str] = &["u8", "u16", "u32", "u64", "usize"];

type R<T> = Result<T, String>;

fn err<T, S: Spanned>(s: &S, msg: &str) -> R<T> {
    let sp = s.span().start();
    Err(format!("line {}: {}", sp.line, msg))
}

#[derive(Clone, Copy, PartialEq, Debug)]
enum Ty {
    N,
    ListN,
    Bool,
    UResult,
}

impl Ty {
    fn coq(self) -> &'static str {
        match self {
            Ty::N => "N",
            Ty::ListN => "list N",
            Ty::Bool => "bool",
            Ty::UResult => "UResult",
        }
    }
}

type Scope = Vec<(String, Ty)>;

#[derive(Clone)]
enum K<'a> {
    /// end of the function: the value is the result
    Ret,
    /// statement position: drop the (unit) value, continue with the remaining statements
    Stmts(&'a [Stmt], Scope, Rc<K<'a>>),
    /// `let x = <control expression>;`
    Let(String, &'a [Stmt], Scope, Rc<K<'a>>),
    /// end of a loop body: next iteration
    LoopBack(String, Vec<String>),
    /// call a join point (optionally with the value as last argument)
    Jump(String, Vec<String>, bool),
}

struct LoopCtx {
    after: String,
    vars: Vec<String>,
    takes_val: bool,
}

struct Gen {
    fname: String,
    ret: Ty,
    pure_mode: bool,
    aux: Vec<String>,
    tmp: usize,
    loops: usize,
    effectful: bool,
    uses_bs: bool,
    loop_stack: Vec<LoopCtx>,
    /// variables of a 32-bit type (u32 / id newtypes): checked arithmetic is modelled for usize only
    narrow: Vec<String>,
}

fn coq_name(s: &str) -> String {
    match s {
        "self" => "self_".into(),
        // Gallina keywords / names we use ourselves
        "fuel" | "bind" | "fun" | "end" | "in" | "let" | "match" | "with" | "if" | "then" | "else" | "as" | "at"
        | "return" | "fix" | "forall" | "exists" | "Type" | "Prop" | "Set" | "brk" => format!("{s}_"),
        _ => s.to_string(),
    }
}

/// source names that could collide with generated ones are rejected
fn check_name(name: &str) -> R<()> {
    let is_tmp = name.len() > 1 && name.starts_with('t') && name[1..].chars().all(|c| c.is_ascii_digit());
    if is_tmp || name.ends_with('_') || name == "std_binary_search" {
        return Err(format!("variable name {name} may collide with a generated name"));
    }
    Ok(())
}

fn lookup(scope: &Scope, name: &str) -> Option<Ty> {
    scope.iter().rev().find(|(n, _)| n == name).map(|(_, t)| *t)
}

fn wrap(prefix: Vec<(String, String)>, body: String) -> String {
    prefix
        .into_iter()
        .rev()
        .fold(body, |acc, (n, e)| format!("bind ({e}) (fun {n} =>\n{acc})"))
}

fn path_last(p: &syn::Path) -> String {
    p.segments.last().map(|s| s.ident.to_string()).unwrap_or_default()
}

fn type_name(t: &Type) -> Option<String> {
    match t {
        Type::Path(p) if p.qself.is_none() => Some(path_last(&p.path)),
        _ => None,
    }
}

fn is_uint_like(t: &Type) -> bool {
    type_name(t).map(|n| UINT_TYPES.contains(&n.as_str()) || ID_TYPES.contains(&n.as_str())).unwrap_or(false)
}

/// does the expression mention a 32-bit variable or a slice element (elements are 32-bit ids)?
fn mentions_narrow(e: &Expr, narrow: &[String]) -> bool {
    struct V<'n> {
        narrow: &'n [String],
        found: bool,
    }
    impl<'ast, 'n> syn::visit::Visit<'ast> for V<'n> {
        fn visit_expr_path(&mut self, p: &'ast syn::ExprPath) {
            if let Some(id) = p.path.get_ident() {
                if self.narrow.iter().any(|n| id == n) {
                    self.found = true;
                }
            }
        }
        fn visit_expr_index(&mut self, ix: &'ast syn::ExprIndex) {
            if !matches!(&*ix.index, Expr::Range(_)) {
                self.found = true;
            }
            syn::visit::visit_expr_index(self, ix);
        }
    }
    let mut v = V { narrow, found: false };
    syn::visit::Visit::visit_expr(&mut v, e);
    v.found
}

impl Gen {
    fn fresh(&mut self) -> String {
        self.tmp += 1;
        format!("t{}", self.tmp)
    }

    // ---- values --------------------------------------------------------------------------------
    /// (effectful bindings to run first, atom, type)
    fn value(&mut self, e: &Expr, scope: &Scope) -> R<(Vec<(String, String)>, String, Ty)> {
        match e {
            Expr::Paren(p) => self.value(&p.expr, scope),
            Expr::Group(p) => self.value(&p.expr, scope),
            Expr::Reference(r) if r.mutability.is_none() => self.value(&r.expr, scope),
            Expr::Unary(u) if matches!(u.op, UnOp::Deref(_)) => self.value(&u.expr, scope),
            Expr::Lit(l) => match &l.lit {
                Lit::Int(i) => {
                    if !(i.suffix().is_empty() || UINT_TYPES.contains(&i.suffix())) {
                        return err(e, "integer literal of a non-unsigned type");
                    }
                    let digits = i.base10_digits().to_string();
                    if !digits.chars().all(|c| c.is_ascii_digit()) {
                        return err(e, "unsupported integer literal");
                    }
                    Ok((vec![], digits, Ty::N))
                }
                Lit::Bool(b) => Ok((vec![], if b.value { "true".into() } else { "false".into() }, Ty::Bool)),
                _ => err(e, "unsupported literal"),
            },
            Expr::Path(p) if p.qself.is_none() => {
                let segs: Vec<String> = p.path.segments.iter().map(|s| s.ident.to_string()).collect();
                if segs.len() == 1 {
                    match lookup(scope, &segs[0]) {
                        Some(t) => Ok((vec![], coq_name(&segs[0]), t)),
                        None => err(e, &format!("unknown variable {}", segs[0])),
                    }
                } else if segs.len() == 2 && segs[1] == "MAX" {
                    let v = match segs[0].as_str() {
                        "u8" => "255",
                        "u16" => "65535",
                        "u32" => "4294967295",
                        "u64" | "usize" => "usize_max",
                        _ => return err(e, "unsupported constant"),
                    };
                    Ok((vec![], v.to_string(), Ty::N))
                } else {
                    err(e, "unsupported path expression")
                }
            }
            Expr::Cast(c) => {
                // only widening casts of constants (value preserved)
                let to = type_name(&c.ty).unwrap_or_default();
                let width = |n: &str| match n {
                    "u8" => 8,
                    "u16" => 16,
                    "u32" => 32,
                    "u64" | "usize" => 64,
                    _ => 0,
                };
                let from = match &*c.expr {
                    Expr::Path(p) if p.path.segments.len() == 2 && p.path.segments[1].ident == "MAX" => {
                        width(&p.path.segments[0].ident.to_string())
                    }
                    _ => 0,
                };
                if from == 0 || width(&to) < from {
                    return err(e, "unsupported cast (only <uint>::MAX as <wider uint>)");
                }
                self.value(&c.expr, scope)
            }
            Expr::Binary(b) => {
                let cmp = |op: &BinOp| -> Option<&'static str> {
                    Some(match op {
                        BinOp::Lt(_) => "lt",
                        BinOp::Le(_) => "le",
                        BinOp::Gt(_) => "gt",
                        BinOp::Ge(_) => "ge",
                        BinOp::Eq(_) => "eq",
                        BinOp::Ne(_) => "ne",
                        _ => return None,
                    })
                };
                if let Some(op) = cmp(&b.op) {
                    let (mut p1, a, ta) = self.value(&b.left, scope)?;
                    let (p2, c, tc) = self.value(&b.right, scope)?;
                    if ta != Ty::N || tc != Ty::N {
                        return err(e, "comparison of non-integers");
                    }
                    p1.extend(p2);
                    let s = match op {
                        "lt" => format!("({a} <? {c})"),
                        "le" => format!("({a} <=? {c})"),
                        "gt" => format!("({c} <? {a})"),
                        "ge" => format!("({c} <=? {a})"),
                        "eq" => format!("({a} =? {c})"),
                        _ => format!("(negb ({a} =? {c}))"),
                    };
                    return Ok((p1, s, Ty::Bool));
                }
                match &b.op {
                    BinOp::Shl(_) => {
                        // constants only
                        let is_lit = |x: &Expr| matches!(x, Expr::Lit(l) if matches!(l.lit, Lit::Int(_)));
                        if !is_lit(&b.left) || !is_lit(&b.right) {
                            return err(e, "shift of non-literals");
                        }
                        let (_, a, _) = self.value(&b.left, scope)?;
                        let (_, c, _) = self.value(&b.right, scope)?;
                        Ok((vec![], format!("(N.shiftl {a} {c})"), Ty::N))
                    }
                    BinOp::Add(_) | BinOp::Sub(_) => {
                        if self.pure_mode {
                            return err(e, "checked arithmetic in a pure function");
                        }
                        if mentions_narrow(&b.left, &self.narrow) || mentions_narrow(&b.right, &self.narrow) {
                            return err(e, "arithmetic on a 32-bit quantity (only usize arithmetic is modelled)");
                        }
                        let (mut p1, a, ta) = self.value(&b.left, scope)?;
                        let (p2, c, tc) = self.value(&b.right, scope)?;
                        if ta != Ty::N || tc != Ty::N {
                            return err(e, "arithmetic on non-integers");
                        }
                        p1.extend(p2);
                        let f = if matches!(b.op, BinOp::Add(_)) { "uadd" } else { "usub" };
                        let t = self.fresh();
                        self.effectful = true;
                        p1.push((t.clone(), format!("{f} {a} {c}")));
                        Ok((p1, t, Ty::N))
                    }
                    BinOp::And(_) | BinOp::Or(_) => err(e, "boolean connective in value position"),
                    _ => err(e, "unsupported binary operator"),
                }
            }
            Expr::MethodCall(m) => {
                let name = m.method.to_string();
                match (name.as_str(), m.args.len()) {
                    ("inner", 0) => {
                        if matches!(&*m.receiver, Expr::Path(p) if p.path.is_ident("self")) && lookup(scope, "self") == Some(Ty::ListN) {
                            Ok((vec![], coq_name("self"), Ty::ListN))
                        } else {
                            err(e, "inner() on something other than the slice wrapper self")
                        }
                    }
                    ("len", 0) => {
                        let (p, a, t) = self.value(&m.receiver, scope)?;
                        if t != Ty::ListN {
                            return err(e, "len() of a non-slice");
                        }
                        Ok((p, format!("(ulen {a})"), Ty::N))
                    }
                    ("saturating_mul", 1) => {
                        let (mut p1, a, ta) = self.value(&m.receiver, scope)?;
                        let (p2, c, tc) = self.value(&m.args[0], scope)?;
                        if ta != Ty::N || tc != Ty::N {
                            return err(e, "saturating_mul on non-integers");
                        }
                        p1.extend(p2);
                        Ok((p1, format!("(usat_mul {a} {c})"), Ty::N))
                    }
                    _ => err(e, &format!("unsupported method call .{name}()")),
                }
            }
            Expr::Index(ix) => {
                if self.pure_mode {
                    return err(e, "indexing in a pure function");
                }
                let (mut p, s, ts) = self.value(&ix.expr, scope)?;
                if ts != Ty::ListN {
                    return err(e, "indexing a non-slice");
                }
                self.effectful = true;
                if let Expr::Range(r) = &*ix.index {
                    if !matches!(r.limits, syn::RangeLimits::HalfOpen(_)) {
                        return err(e, "inclusive range");
                    }
                    let lo = match &r.start {
                        Some(x) => {
                            let (p2, a, t) = self.value(x, scope)?;
                            if t != Ty::N {
                                return err(e, "range bound");
                            }
                            p.extend(p2);
                            a
                        }
                        None => "0".to_string(),
                    };
                    let hi = match &r.end {
                        Some(x) => {
                            let (p2, a, t) = self.value(x, scope)?;
                            if t != Ty::N {
                                return err(e, "range bound");
                            }
                            p.extend(p2);
                            a
                        }
                        None => format!("(ulen {s})"),
                    };
                    let t = self.fresh();
                    p.push((t.clone(), format!("sl_range {s} {lo} {hi}")));
                    Ok((p, t, Ty::ListN))
                } else {
                    let (p2, i, ti) = self.value(&ix.index, scope)?;
                    if ti != Ty::N {
                        return err(e, "index of non-integer type");
                    }
                    p.extend(p2);
                    let t = self.fresh();
                    p.push((t.clone(), format!("sl_get {s} {i}")));
                    Ok((p, t, Ty::N))
                }
            }
            Expr::Call(c) => {
                let f = match &*c.func {
                    Expr::Path(p) if p.path.segments.len() == 1 => path_last(&p.path),
                    _ => return err(e, "unsupported call"),
                };
                if (f == "Ok" || f == "Err") && c.args.len() == 1 && self.ret == Ty::UResult {
                    let (p, a, t) = self.value(&c.args[0], scope)?;
                    if t != Ty::N {
                        return err(e, "Result payload of non-integer type");
                    }
                    Ok((p, format!("({} {a})", if f == "Ok" { "ROk" } else { "RErr" }), Ty::UResult))
                } else {
                    err(e, &format!("unsupported call {f}(..)"))
                }
            }
            _ => err(e, "unsupported expression"),
        }
    }

    /// `if e then t else f` with short-circuit evaluation of `&&`, `||`, `!`
    fn cond(&mut self, e: &Expr, scope: &Scope, t: String, f: String) -> R<String> {
        match e {
            Expr::Paren(p) => self.cond(&p.expr, scope, t, f),
            Expr::Binary(b) if matches!(b.op, BinOp::And(_)) => {
                let inner = self.cond(&b.right, scope, t, f.clone())?;
                self.cond(&b.left, scope, inner, f)
            }
            Expr::Binary(b) if matches!(b.op, BinOp::Or(_)) => {
                let inner = self.cond(&b.right, scope, t.clone(), f)?;
                self.cond(&b.left, scope, t, inner)
            }
            Expr::Unary(u) if matches!(u.op, UnOp::Not(_)) => self.cond(&u.expr, scope, f, t),
            _ => {
                let (p, a, ty) = self.value(e, scope)?;
                if ty != Ty::Bool {
                    return err(e, "condition is not a boolean");
                }
                Ok(wrap(p, format!("if {a} then\n{t}\nelse\n{f}")))
            }
        }
    }

    // ---- continuations -------------------------------------------------------------------------
    fn apply_k(&mut self, k: &K, val: Option<(String, Ty)>) -> R<String> {
        match k {
            K::Ret => match val {
                Some((v, t)) if t == self.ret => Ok(if self.pure_mode { v } else { format!("Ok {v}") }),
                Some((_, t)) => Err(format!("result of type {:?}, expected {:?}", t, self.ret)),
                None => Err("function falls off its end without a value".into()),
            },
            K::Stmts(rest, scope, k2) => self.block(rest, scope.clone(), k2),
            K::Let(name, rest, scope, k2) => {
                let (v, t) = val.ok_or_else(|| format!("let {name} = <unit>"))?;
                let mut sc = scope.clone();
                sc.push((name.clone(), t));
                let body = self.block(rest, sc, k2)?;
                Ok(format!("let {} := {v} in\n{body}", coq_name(name)))
            }
            K::LoopBack(name, vars) => Ok(format!("{name} fuel {}", vars.join(" "))),
            K::Jump(name, vars, takes_val) => {
                let mut s = format!("{name} fuel {}", vars.join(" "));
                if *takes_val {
                    let (v, t) = val.ok_or("break without a value out of a value loop")?;
                    if t != Ty::N {
                        return Err("loop value of non-integer type".into());
                    }
                    s.push(' ');
                    s.push_str(&v);
                }
                Ok(s)
            }
        }
    }

    fn block(&mut self, stmts: &[Stmt], scope: Scope, k: &Rc<K>) -> R<String> {
        let Some((first, rest)) = stmts.split_first() else {
            return self.apply_k(k, None);
        };
        match first {
            Stmt::Local(l) => {
                let name = match &l.pat {
                    Pat::Ident(p) if p.by_ref.is_none() && p.subpat.is_none() => p.ident.to_string(),
                    Pat::Type(pt) => match &*pt.pat {
                        Pat::Ident(p) if p.by_ref.is_none() && p.subpat.is_none() && is_uint_like(&pt.ty) => p.ident.to_string(),
                        _ => return err(first, "unsupported let pattern"),
                    },
                    _ => return err(first, "unsupported let pattern"),
                };
                check_name(&name)?;
                if lookup(&scope, &name).is_some() {
                    return err(first, &format!("let {name} shadows a variable in scope"));
                }
                let init = match &l.init {
                    Some(i) if i.diverge.is_none() => &*i.expr,
                    _ => return err(first, "let without initialiser / let-else"),
                };
                if mentions_narrow(init, &self.narrow) {
                    self.narrow.push(name.clone());
                }
                let k2 = Rc::new(K::Let(name, rest, scope.clone(), k.clone()));
                self.control(init, &scope, &k2)
            }
            Stmt::Expr(e, semi) => {
                if semi.is_none() && rest.is_empty() {
                    // tail expression: its value goes to the continuation
                    self.control(e, &scope, k)
                } else {
                    let k2 = Rc::new(K::Stmts(rest, scope.clone(), k.clone()));
                    self.control(e, &scope, &k2)
                }
            }
            _ => err(first, "unsupported statement"),
        }
    }

    fn assign(&mut self, name: &str, scope: &Scope, p: Vec<(String, String)>, v: String, k: &Rc<K>) -> R<String> {
        if lookup(scope, name) != Some(Ty::N) {
            return Err(format!("assignment to {name}: not an integer variable in scope"));
        }
        let rest = self.apply_k(k, None)?;
        Ok(wrap(p, format!("let {} := {v} in\n{rest}", coq_name(name))))
    }

    fn control(&mut self, e: &Expr, scope: &Scope, k: &Rc<K>) -> R<String> {
        match e {
            Expr::Paren(p) => self.control(&p.expr, scope, k),
            Expr::Block(b) if b.label.is_none() => self.block(&b.block.stmts, scope.clone(), k),
            Expr::If(i) => {
                if matches!(&*i.cond, Expr::Let(_)) {
                    return err(e, "if let");
                }
                let t = self.block(&i.then_branch.stmts, scope.clone(), k)?;
                let f = match &i.else_branch {
                    Some((_, eb)) => self.control(eb, scope, k)?,
                    None => self.apply_k(k, None)?,
                };
                self.cond(&i.cond, scope, t, f)
            }
            Expr::Return(r) => {
                let Some(x) = &r.expr else { return err(e, "return without a value") };
                let (p, v, t) = self.value(x, scope)?;
                let s = self.apply_k(&K::Ret, Some((v, t)))?;
                Ok(wrap(p, s))
            }
            Expr::Break(b) => {
                if b.label.is_some() {
                    return err(e, "labelled break");
                }
                let Some(lc) = self.loop_stack.last() else { return err(e, "break outside a loop") };
                let kj = K::Jump(lc.after.clone(), lc.vars.clone(), lc.takes_val);
                match &b.expr {
                    Some(x) => {
                        let (p, v, t) = self.value(x, scope)?;
                        let s = self.apply_k(&kj, Some((v, t)))?;
                        Ok(wrap(p, s))
                    }
                    None => self.apply_k(&kj, None),
                }
            }
            Expr::Assign(a) => {
                let name = match &*a.left {
                    Expr::Path(p) if p.path.get_ident().is_some() => p.path.get_ident().unwrap().to_string(),
                    _ => return err(e, "assignment to a non-variable"),
                };
                let (p, v, t) = self.value(&a.right, scope)?;
                if t != Ty::N {
                    return err(e, "assignment of a non-integer");
                }
                self.assign(&name, scope, p, v, k)
            }
            Expr::Binary(b) if matches!(b.op, BinOp::AddAssign(_) | BinOp::SubAssign(_)) => {
                let name = match &*b.left {
                    Expr::Path(p) if p.path.get_ident().is_some() => p.path.get_ident().unwrap().to_string(),
                    _ => return err(e, "compound assignment to a non-variable"),
                };
                if lookup(scope, &name) != Some(Ty::N) {
                    return err(e, "compound assignment to a non-integer");
                }
                if self.narrow.contains(&name) || mentions_narrow(&b.right, &self.narrow) {
                    return err(e, "arithmetic on a 32-bit quantity (only usize arithmetic is modelled)");
                }
                let (mut p, v, t) = self.value(&b.right, scope)?;
                if t != Ty::N {
                    return err(e, "compound assignment of a non-integer");
                }
                let f = if matches!(b.op, BinOp::AddAssign(_)) { "uadd" } else { "usub" };
                self.effectful = true;
                let tmp = self.fresh();
                p.push((tmp.clone(), format!("{f} {} {v}", coq_name(&name))));
                self.assign(&name, scope, p, tmp, k)
            }
            Expr::Loop(l) => {
                if l.label.is_some() {
                    return err(e, "labelled loop");
                }
                let takes_val = has_value_break(&l.body);
                self.gen_loop(None, &l.body.stmts, scope, k, takes_val)
            }
            Expr::While(w) => {
                if w.label.is_some() || matches!(&*w.cond, Expr::Let(_)) {
                    return err(e, "labelled while / while let");
                }
                self.gen_loop(Some(&w.cond), &w.body.stmts, scope, k, false)
            }
            Expr::Match(m) => self.gen_match(m, scope, k),
            _ => {
                let (p, v, t) = self.value(e, scope)?;
                let s = self.apply_k(k, Some((v, t)))?;
                Ok(wrap(p, s))
            }
        }
    }

    fn gen_loop(&mut self, cond: Option<&Expr>, body: &[Stmt], scope: &Scope, k: &Rc<K>, takes_val: bool) -> R<String> {
        if self.pure_mode {
            return Err("loop in a pure function".into());
        }
        self.effectful = true;
        self.loops += 1;
        let n = self.loops;
        let after = format!("{}_after{}", self.fname, n);
        let lname = format!("{}_loop{}", self.fname, n);
        let vars: Vec<String> = scope.iter().map(|(v, _)| coq_name(v)).collect();
        let params: String = scope.iter().map(|(v, t)| format!(" ({} : {})", coq_name(v), t.coq())).collect();
        let rty = format!("Res {}", self.ret.coq());
        // 1. the join point after the loop
        let after_body = if takes_val { self.apply_k(k, Some(("brk".into(), Ty::N)))? } else { self.apply_k(k, None)? };
        self.aux.push(format!(
            "Definition {after} (fuel : nat){params}{} : {rty} :=\n{after_body}.\n",
            if takes_val { " (brk : N)" } else { "" }
        ));
        // 2. the loop
        self.loop_stack.push(LoopCtx { after: after.clone(), vars: vars.clone(), takes_val });
        let kb = Rc::new(K::LoopBack(lname.clone(), vars.clone()));
        let body_s = self.block(body, scope.clone(), &kb);
        self.loop_stack.pop();
        let body_s = body_s?;
        let full = match cond {
            Some(c) => {
                if takes_val {
                    return Err("while loop with a value".into());
                }
                let exit = format!("{after} fuel {}", vars.join(" "));
                self.cond(c, scope, body_s, exit)?
            }
            None => body_s,
        };
        self.aux.push(format!(
            "Fixpoint {lname} (fuel : nat){params} {{struct fuel}} : {rty} :=\nmatch fuel with\n| O => OutOfFuel\n| S fuel =>\n{full}\nend.\n"
        ));
        Ok(format!("{lname} fuel {}", vars.join(" ")))
    }

    fn gen_match(&mut self, m: &syn::ExprMatch, scope: &Scope, k: &Rc<K>) -> R<String> {
        let Expr::MethodCall(mc) = &*m.expr else { return err(m, "match on an unsupported scrutinee") };
        let meth = mc.method.to_string();
        if mc.args.len() != 1 {
            return err(m, "match on an unsupported scrutinee");
        }
        let (mut p, a, ta) = self.value(&mc.receiver, scope)?;
        let (p2, b, tb) = self.value(&mc.args[0], scope)?;
        p.extend(p2);
        for arm in &m.arms {
            if arm.guard.is_some() {
                return err(arm, "match guard");
            }
        }
        match meth.as_str() {
            "cmp" => {
                if ta != Ty::N || tb != Ty::N {
                    return err(m, "cmp on non-integers");
                }
                let mut arms: [Option<String>; 3] = [None, None, None];
                for arm in &m.arms {
                    let which = match &arm.pat {
                        Pat::Path(pp) => match path_last(&pp.path).as_str() {
                            "Less" => 0,
                            "Equal" => 1,
                            "Greater" => 2,
                            _ => return err(arm, "unsupported Ordering pattern"),
                        },
                        Pat::Ident(pi) if pi.subpat.is_none() => match pi.ident.to_string().as_str() {
                            "Less" => 0,
                            "Equal" => 1,
                            "Greater" => 2,
                            _ => return err(arm, "unsupported Ordering pattern"),
                        },
                        _ => return err(arm, "unsupported Ordering pattern"),
                    };
                    if arms[which].is_some() {
                        return err(arm, "duplicate Ordering arm");
                    }
                    arms[which] = Some(self.control(&arm.body, scope, k)?);
                }
                let [Some(lt), Some(eq), Some(gt)] = arms else { return err(m, "Ordering match must list Less, Equal, Greater") };
                Ok(wrap(p, format!("match ({a} ?= {b}) with\n| Lt =>\n{lt}\n| Eq =>\n{eq}\n| Gt =>\n{gt}\nend")))
            }
            "binary_search" => {
                if ta != Ty::ListN || tb != Ty::N {
                    return err(m, "binary_search on an unsupported receiver");
                }
                if self.pure_mode {
                    return err(m, "binary_search in a pure function");
                }
                self.uses_bs = true;
                self.effectful = true;
                let mut arms: [Option<String>; 2] = [None, None];
                for arm in &m.arms {
                    let Pat::TupleStruct(ts) = &arm.pat else { return err(arm, "unsupported Result pattern") };
                    let which = match path_last(&ts.path).as_str() {
                        "Ok" => 0,
                        "Err" => 1,
                        _ => return err(arm, "unsupported Result pattern"),
                    };
                    if ts.elems.len() != 1 || arms[which].is_some() {
                        return err(arm, "unsupported Result pattern");
                    }
                    let mut sc = scope.clone();
                    let var = match &ts.elems[0] {
                        Pat::Ident(pi) if pi.by_ref.is_none() && pi.subpat.is_none() => {
                            let n = pi.ident.to_string();
                            check_name(&n)?;
                            if lookup(scope, &n).is_some() {
                                return err(arm, &format!("pattern variable {n} shadows a variable in scope"));
                            }
                            sc.push((n.clone(), Ty::N));
                            coq_name(&n)
                        }
                        Pat::Wild(_) => "_".to_string(),
                        _ => return err(arm, "unsupported Result pattern"),
                    };
                    let body = self.control(&arm.body, &sc, k)?;
                    arms[which] = Some(format!("| {} {var} =>\n{body}", if which == 0 { "ROk" } else { "RErr" }));
                }
                let [Some(okb), Some(errb)] = arms else { return err(m, "Result match must list Ok and Err") };
                Ok(wrap(p, format!("match std_binary_search {a} {b} with\n{okb}\n{errb}\nend")))
            }
            _ => err(m, "match on an unsupported scrutinee"),
        }
    }
}

/// does the loop body contain a `break <expr>` that belongs to this loop (not to a nested one)?
fn has_value_break(b: &syn::Block) -> bool {
    struct V {
        depth: usize,
        found: bool,
    }
    impl<'ast> syn::visit::Visit<'ast> for V {
        fn visit_expr_loop(&mut self, l: &'ast syn::ExprLoop) {
            self.depth += 1;
            syn::visit::visit_expr_loop(self, l);
            self.depth -= 1;
        }
        fn visit_expr_while(&mut self, l: &'ast syn::ExprWhile) {
            self.depth += 1;
            syn::visit::visit_expr_while(self, l);
            self.depth -= 1;
        }
        fn visit_expr_for_loop(&mut self, l: &'ast syn::ExprForLoop) {
            self.depth += 1;
            syn::visit::visit_expr_for_loop(self, l);
            self.depth -= 1;
        }
        fn visit_expr_closure(&mut self, _c: &'ast syn::ExprClosure) {}
        fn visit_expr_break(&mut self, b: &'ast syn::ExprBreak) {
            if self.depth == 0 && b.expr.is_some() {
                self.found = true;
            }
            syn::visit::visit_expr_break(self, b);
        }
    }
    let mut v = V { depth: 0, found: false };
    syn::visit::Visit::visit_block(&mut v, b);
    v.found
}

struct Found {
    sig: syn::Signature,
    block: syn::Block,
}

fn find_fn(file: &syn::File, item: &Item) -> Option<Found> {
    for it in &file.items {
        match it {
            SynItem::Fn(f) if item.impl_type.is_empty() && f.sig.ident == item.fname => {
                return Some(Found { sig: f.sig.clone(), block: (*f.block).clone() });
            }
            SynItem::Impl(im) if !item.impl_type.is_empty() && im.trait_.is_none() => {
                if type_name(&im.self_ty).as_deref() != Some(item.impl_type) {
                    continue;
                }
                for ii in &im.items {
                    if let ImplItem::Fn(f) = ii {
                        if f.sig.ident == item.fname {
                            return Some(Found { sig: f.sig.clone(), block: f.block.clone() });
                        }
                    }
                }
            }
            _ => {}
        }
    }
    None
}

/// the Gallina text of one item (its auxiliary definitions followed by the function itself) and
/// whether it refers to `std_binary_search`
fn translate(item: &Item, src: &str) -> R<(String, bool)> {
    let file = syn::parse_file(src).map_err(|e| format!("parse error: {e}"))?;
    let f = find_fn(&file, item).ok_or_else(|| format!("fn {}::{} not found", item.impl_type, item.fname))?;
    if f.sig.asyncness.is_some() || f.sig.unsafety.is_some() || !f.sig.generics.params.is_empty() {
        return Err("async / unsafe / generic function".into());
    }
    let mut scope: Scope = Vec::new();
    let mut narrow: Vec<String> = Vec::new();
    for a in &f.sig.inputs {
        match a {
            FnArg::Receiver(r) => {
                if r.mutability.is_some() || r.reference.is_none() {
                    return err(a, "receiver must be &self");
                }
                scope.push(("self".into(), Ty::ListN));
            }
            FnArg::Typed(pt) => {
                let name = match &*pt.pat {
                    Pat::Ident(p) if p.by_ref.is_none() && p.subpat.is_none() && p.mutability.is_none() => p.ident.to_string(),
                    _ => return err(a, "unsupported parameter pattern"),
                };
                if !is_uint_like(&pt.ty) {
                    return err(a, "parameter of unsupported type");
                }
                check_name(&name)?;
                if type_name(&pt.ty).map(|n| n != "usize" && n != "u64").unwrap_or(true) {
                    narrow.push(name.clone());
                }
                scope.push((name, Ty::N));
            }
        }
    }
    let ret = match &f.sig.output {
        ReturnType::Type(_, t) => {
            if is_uint_like(t) {
                Ty::N
            } else {
                use quote::ToTokens;
                let s = t.to_token_stream().to_string().replace(' ', "");
                if s == "Result<usize,usize>" {
                    Ty::UResult
                } else {
                    return err(t, "unsupported return type");
                }
            }
        }
        ReturnType::Default => return Err("function returns unit".into()),
    };
    let params: String = scope.iter().map(|(v, t)| format!(" ({} : {})", coq_name(v), t.coq())).collect();
    // first try: a plain (effect-free) definition
    let mut g = Gen {
        fname: item.fname.to_string(),
        ret,
        pure_mode: true,
        aux: vec![],
        tmp: 0,
        loops: 0,
        effectful: false,
        uses_bs: false,
        loop_stack: vec![],
        narrow: narrow.clone(),
    };
    if let Ok(body) = g.block(&f.block.stmts, scope.clone(), &Rc::new(K::Ret)) {
        if !g.effectful && g.aux.is_empty() {
            return Ok((format!("Definition {}{params} : {} :=\n{body}.\n", item.fname, ret.coq()), false));
        }
    }
    let mut g = Gen {
        fname: item.fname.to_string(),
        ret,
        pure_mode: false,
        aux: vec![],
        tmp: 0,
        loops: 0,
        effectful: false,
        uses_bs: false,
        loop_stack: vec![],
        narrow: narrow.clone(),
    };
    let body = g.block(&f.block.stmts, scope.clone(), &Rc::new(K::Ret))?;
    let mut out = String::new();
    for a in &g.aux {
        out.push_str(a);
        out.push('\n');
    }
    out.push_str(&format!("Definition {} (fuel : nat){params} : Res {} :=\n{body}.\n", item.fname, ret.coq()));
    Ok((out, g.uses_bs))
}

/// (text of gen/PureFns.v, report lines)
pub fn generate(repo: &std::path::Path) -> (String, Vec<String>) {
    let mut plain = String::new();
    let mut sect = String::new();
    let mut rep = Vec::new();
    for item in items() {
        let res = std::fs::read_to_string(repo.join(item.file))
            .map_err(|e| format!("cannot read {}: {e}", item.file))
            .and_then(|src| translate(&item, &src));
        let origin = if item.impl_type.is_empty() {
            format!("{} fn {}", item.file, item.fname)
        } else {
            format!("{} {}::{}", item.file, item.impl_type, item.fname)
        };
        match res {
            Ok((text, uses_bs)) => {
                let dst = if uses_bs || !item.impl_type.is_empty() { &mut sect } else { &mut plain };
                dst.push_str(&format!("(* {origin} *)\n{text}\n"));
                rep.push(format!("{{\"item\":\"PureFns.{}\",\"file\":\"{}\",\"ok\":true}}", item.fname, item.file));
            }
            Err(e) => {
                let dst = if !item.impl_type.is_empty() { &mut sect } else { &mut plain };
                dst.push_str(&format!("(* {origin}: translation FAILED ({}); definition omitted *)\n\n", e.replace("*)", "* )")));
                rep.push(format!(
                    "{{\"item\":\"PureFns.{}\",\"file\":\"{}\",\"ok\":false,\"error\":{:?}}}",
                    item.fname, item.file, e
                ));
            }
        }
    }
    let mut out = String::new();
    out.push_str("(* GENERATED by /verif/translator (purefn.rs) from /repo/core-relations -- do not edit *)\n");
    out.push_str("From Coq Require Import List NArith Bool.\nImport ListNotations.\nRequire Import Verif.Base.Res Verif.Index.Prelude.\nLocal Open Scope N_scope.\n\n");
    out.push_str(&plain);
    out.push_str("Section SliceFns.\n(* [T]::binary_search of the standard library: NOT translated; the proofs assume only its\n   documented contract (Index/SearchProofs.v, bs_contract) *)\nVariable std_binary_search : list N -> N -> UResult.\n\n");
    out.push_str(&sect);
    out.push_str("End SliceFns.\n");
    (out, rep)
}
