//! probe (not registered): scheduler vs push/pop, and rule-name collisions across rulesets
use egglog::scheduler::{Matches, Scheduler};
#[derive(Clone)]
struct All;
impl Scheduler for All {
    fn filter_matches(&mut self, _rule: &str, _ruleset: &str, m: &mut Matches) -> bool {
        m.choose_all();
        true
    }
}
fn size(eg: &egglog::EGraph, f: &str) -> usize {
    eg.get_size(f)
}
fn main() {
    // 1. push/pop
    let mut eg = egglog::EGraph::default();
    eg.parse_and_run_program(None, "(ruleset t)\n(relation R (i64))\n(relation S (i64))\n(rule ((R x)) ((S x)) :ruleset t :name \"r\")\n(R 1)").unwrap();
    let sid = eg.add_scheduler(Box::new(All));
    for _ in 0..2 { eg.step_rules_with_scheduler(sid, "t").unwrap(); }
    println!("before push: S = {}", size(&eg, "S"));
    eg.parse_and_run_program(None, "(push)\n(pop)\n(R 3)").unwrap();
    for _ in 0..3 { eg.step_rules_with_scheduler(sid, "t").unwrap(); }
    println!("after push/pop + (R 3) + 3 steps: S = {} (expected 2)", size(&eg, "S"));
    // 2. same rule name in two rulesets
    let mut eg = egglog::EGraph::default();
    eg.parse_and_run_program(None, "(ruleset a)\n(ruleset b)\n(relation R (i64))\n(relation S (i64))\n(relation T (i64))\n(rule ((R x)) ((S x)) :ruleset a :name \"r\")\n(rule ((R x)) ((T x)) :ruleset b :name \"r\")\n(R 1)").unwrap();
    let sid = eg.add_scheduler(Box::new(All));
    for _ in 0..2 { eg.step_rules_with_scheduler(sid, "a").unwrap(); }
    for _ in 0..2 { eg.step_rules_with_scheduler(sid, "b").unwrap(); }
    println!("two rulesets, both rules named r: S = {} T = {} (expected 1 1)", size(&eg, "S"), size(&eg, "T"));
}
