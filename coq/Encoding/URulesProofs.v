(** C11: user rules under the term encoding — invariant preservation and soundness of one
    [(run)] of the encoded program (instrumented user rules, then the maintenance schedule). *)
From Coq Require Import List Arith ZArith Bool PeanoNat Lia.
Import ListNotations.
Require Import Verif.Base.Res Verif.Egg.Model Verif.Egg.CCDefs Verif.Egg.CC.
Require Import Verif.Encoding.Datalog Verif.Encoding.DatalogFacts Verif.Encoding.Templates Verif.Encoding.EncOk
  Verif.Encoding.Maint Verif.Encoding.MaintInv Verif.Encoding.MaintFix Verif.Encoding.Compl Verif.Encoding.Main
  Verif.Encoding.Session Verif.Encoding.URules.

(** ground reading of the head of an instrumented rule under a substitution of ground terms *)
Definition upd (sigma : nat -> term) (x : nat) (t : term) : nat -> term :=
  fun y => if Nat.eqb y x then t else sigma y.

Fixpoint ground_uacts (sigma : nat -> term) (l : list uact) : list (term * term) :=
  match l with
  | [] => []
  | UNode v f args :: tl => ground_uacts (upd sigma v (T f (map sigma args))) tl
  | UUnion a b :: tl => (sigma a, sigma b) :: ground_uacts sigma tl
  end.

(** the substitution a match denotes: every variable stands for the witness term of its value *)
Definition sig_of (w : list term) (e : env) : nat -> term :=
  fun x => match lookup e x with Some v => witv w v | None => TI 0 end.

Lemma ground_uacts_ext : forall l s1 s2, (forall x, s1 x = s2 x) -> ground_uacts s1 l = ground_uacts s2 l.
Proof.
  induction l as [|a tl IH]; intros s1 s2 H; [reflexivity|]. destruct a as [v f args|a b]; cbn [ground_uacts].
  - apply IH. intros x. unfold upd. destruct (Nat.eqb x v); [|apply H]. f_equal. apply map_ext. intros y. apply H.
  - rewrite !H. f_equal. apply IH. exact H.
Qed.

Section UR.
  Variable sg : sigT.
  Notation SMid := (SMid sg).

  Definition env_dom (d : db) (e : env) : Prop := forall x v, lookup e x = Some v -> is_id v -> in_dom d v.

  Lemma dom_okb_dom U w d v : Inv sg U w d -> dom_okb d v = true -> in_dom d v.
  Proof.
    intros HI H. unfold dom_okb in H. apply existsb_exists in H. destruct H as (r & Hr & Hk).
    destruct (iv_uf _ _ _ _ HI r Hr) as (i & j & Hkey & _). rewrite Hkey in Hk. apply val_eqb_eq in Hk. subst v.
    exists (VId j). exists r. auto.
  Qed.

  Lemma env_okb_dom U w d : Inv sg U w d -> forall e, env_okb d e = true -> env_dom d e.
  Proof.
    intros HI. induction e as [|[y v] tl IH]; intros H x u Hl Hid; cbn [lookup] in Hl; [discriminate|].
    cbn [env_okb forallb snd] in H. apply andb_true_iff in H. destruct H as [H1 H2].
    destruct (Nat.eqb y x).
    - injection Hl as <-. destruct v as [i|z]; [|destruct Hid]. eapply dom_okb_dom; eauto.
    - eapply IH; eauto.
  Qed.

  Lemma env_dom_grows d d' e : Grows d d' -> env_dom d e -> env_dom d' e.
  Proof. intros G H x v Hl Hid. eapply grows_dom; eauto. Qed.

  Lemma env_dom_bounded U w d e : Inv sg U w d -> env_dom d e -> forall x v, lookup e x = Some v -> vlt (length w) v.
  Proof. intros HI H x v Hl. eapply bounded; eauto. Qed.

  Lemma lookups_spec e : forall args vs, lookups e args = Some vs -> Forall2 (fun x v => lookup e x = Some v) args vs.
  Proof.
    induction args as [|x tl IH]; intros vs H; cbn [lookups] in H.
    - injection H as <-. constructor.
    - destruct (lookup e x) as [v|] eqn:E; [|discriminate]. destruct (lookups e tl) as [vs'|]; [|discriminate].
      injection H as <-. constructor; auto.
  Qed.

  Lemma kinds_argv d e : env_dom d e -> forall kinds args vs, Forall2 (fun x v => lookup e x = Some v) args vs ->
    kinds_okb kinds vs = true -> Forall2 (argv d) kinds vs.
  Proof.
    intros He kinds. induction kinds as [|b ks IH]; intros args vs HF Hk; destruct vs as [|v vs']; cbn [kinds_okb] in Hk; try discriminate; [constructor|].
    inversion HF as [|x v' a' vs'' Hx Htl]; subst. apply andb_true_iff in Hk. destruct Hk as [H1 H2].
    constructor; [|eapply IH; eauto]. unfold argv. destruct v as [i|z]; cbn in H1.
    - subst b. split; [exact I|]. eapply He; [exact Hx|exact I].
    - destruct b; [discriminate|]. intros [].
  Qed.

  Lemma sig_of_args w e args vs : Forall2 (fun x v => lookup e x = Some v) args vs -> map (sig_of w e) args = map (witv w) vs.
  Proof. induction 1 as [|x v a b H Hl IH]; [reflexivity|]. cbn [map]. unfold sig_of at 1. rewrite H, IH. reflexivity. Qed.

  (** the actions of one match *)
  Lemma run_uacts_ok : forall acts U s w e s1, SMid U s w -> env_dom (edb s) e ->
    run_uacts sg s e acts = Some s1 ->
    exists w1 U1, SMid U1 s1 w1 /\ incl U U1 /\ Grows (edb s) (edb s1) /\
      (forall v, vlt (length w) v -> witv w1 v = witv w v) /\ length w <= length w1 /\
      (forall a b, In (a, b) U1 -> In (a, b) U \/ In (a, b) (ground_uacts (sig_of w e) acts)).
  Proof.
    induction acts as [|a tl IH]; intros U s w e s1 HS He H; cbn [run_uacts] in H.
    - injection H as <-. exists w, U. split; [exact HS|]. split; [apply incl_refl|]. split; [apply grows_refl|].
      split; [auto|]. split; [lia|]. auto.
    - destruct a as [v f args|x y].
      + destruct (lookups e args) as [vs|] eqn:El; [|discriminate]. destruct (nth_error sg f) as [kinds|] eqn:Hn; [|discriminate].
        destruct (kinds_okb kinds vs) eqn:Hk; [|discriminate].
        pose proof (lookups_spec e args vs El) as HF.
        pose proof (kinds_argv (edb s) e He kinds args vs HF Hk) as Ha.
        destruct (add_node_ok2 sg U s w f kinds vs HS Hn Ha) as (w' & id & Hv & HS' & G & Hd & _ & Hst & Hle & Hwid).
        destruct (enc_add_node s f vs) as [s' vid]. cbn [fst snd] in *. subst vid.
        assert (He' : env_dom (edb s') ((v, VId id) :: e)).
        { intros x u Hl Hid. cbn [lookup] in Hl. destruct (Nat.eqb v x); [injection Hl as <-; exact Hd|].
          eapply grows_dom; [exact G|]. eapply He; eauto. }
        destruct (IH U s' w' _ s1 HS' He' H) as (w1 & U1 & HS1 & Hi & G1 & Hst1 & Hle1 & Hp).
        exists w1, U1. split; [exact HS1|]. split; [exact Hi|]. split; [eapply grows_trans; eauto|].
        split; [|split; [lia|]].
        * intros u Hu. rewrite Hst1; [apply Hst; exact Hu|]. eapply vlt_mono; [|exact Hu]. exact Hle.
        * intros a b Hab. destruct (Hp a b Hab) as [Hin|Hin]; [left; exact Hin|right].
          cbn [ground_uacts]. erewrite ground_uacts_ext; [exact Hin|].
          intros x. unfold upd. rewrite Nat.eqb_sym. destruct (Nat.eqb v x) eqn:Ex.
          -- rewrite (sig_of_args w e args vs HF). unfold sig_of. cbn [lookup]. rewrite Ex. rewrite Hwid. f_equal. apply map_ext_in. intros u Hu.
             symmetry. apply Hst. destruct HS as [_ HI _]. eapply bounded; [exact HI|]. intros Hid. eapply argv_dom; eauto.
          -- unfold sig_of. cbn [lookup]. rewrite Ex. destruct (lookup e x) as [u|] eqn:Eu; [|reflexivity]. symmetry. apply Hst.
             destruct HS as [_ HI _]. eapply env_dom_bounded; eauto.
      + destruct (lookup e x) as [[i|z]|] eqn:Ex; try discriminate. destruct (lookup e y) as [[j|z]|] eqn:Ey; try discriminate.
        set (ta := witv w (VId i)). set (tb := witv w (VId j)).
        assert (HS0 : SMid ((ta, tb) :: U) s w) by (eapply SMid_mono; [|exact HS]; intros p Hp; right; exact Hp).
        destruct HS0 as [Hw HI Hu].
        assert (Di : in_dom (edb s) (VId i)) by (eapply He; [exact Ex|exact I]).
        assert (Dj : in_dom (edb s) (VId j)) by (eapply He; [exact Ey|exact I]).
        set (mx := Nat.max i j) in *. set (mn := Nat.min i j) in *.
        assert (Hcc : CC ((ta, tb) :: U) (witv w (VId mx)) (witv w (VId mn))).
        { unfold mx, mn. destruct (Nat.le_ge_cases i j) as [Hle|Hle].
          - rewrite Nat.max_r, Nat.min_l by lia. apply cc_sym. apply cc_ax. left. reflexivity.
          - rewrite Nat.max_l, Nat.min_r by lia. apply cc_ax. left. reflexivity. }
        assert (Dmx : in_dom (edb s) (VId mx)) by (unfold mx; destruct (Nat.max_spec i j) as [[_ ->]|[_ ->]]; assumption).
        assert (Dmn : in_dom (edb s) (VId mn)) by (unfold mn; destruct (Nat.min_spec i j) as [[_ ->]|[_ ->]]; assumption).
        destruct (inv_add_edge sg _ w (edb s) mx mn HI Dmx Dmn) as (HI3 & G3 & _); [unfold mx, mn; lia|exact Hcc|].
        assert (HS3 : SMid ((ta, tb) :: U) (enc_union s i j) w).
        { unfold enc_union. constructor; cbn [edb eterms]; [exact Hw|exact HI3|].
          intros a b Hab. apply (grows_eqv _ _ G3). apply Hu. unfold uffE in *. rewrite dbset_other in Hab; [exact Hab|unfold tUF, tUFf; lia]. }
        assert (He3 : env_dom (edb (enc_union s i j)) e) by (eapply env_dom_grows; [exact G3|exact He]).
        destruct (IH _ _ w e s1 HS3 He3 H) as (w1 & U1 & HS1 & Hi & G1 & Hst1 & Hle1 & Hp).
        exists w1, U1. split; [exact HS1|]. split; [intros p Hp'; apply Hi; right; exact Hp'|].
        split; [eapply grows_trans; [exact G3|exact G1]|]. split; [exact Hst1|]. split; [exact Hle1|].
        intros a b Hab. destruct (Hp a b Hab) as [[E|Hin]|Hin].
        * right. cbn [ground_uacts]. left. unfold sig_of. rewrite Ex, Ey. exact E.
        * left. exact Hin.
        * right. cbn [ground_uacts]. right. exact Hin.
  Qed.

  (** all matches of one iteration *)
  Lemma run_matches_ok : forall l U s w s1, SMid U s w -> run_matches sg s l = Some s1 ->
    exists w1 U1, SMid U1 s1 w1 /\ incl U U1 /\ Grows (edb s) (edb s1) /\
      (forall v, vlt (length w) v -> witv w1 v = witv w v) /\ length w <= length w1 /\
      (forall a b, In (a, b) U1 -> In (a, b) U \/
         exists e acts, In (e, acts) l /\ In (a, b) (ground_uacts (sig_of w1 e) acts)).
  Proof.
    induction l as [|[e acts] tl IH]; intros U s w s1 HS H; cbn [run_matches] in H.
    - injection H as <-. exists w, U. split; [exact HS|]. split; [apply incl_refl|]. split; [apply grows_refl|].
      split; [auto|]. split; [lia|]. auto.
    - destruct (env_okb (edb s) e) eqn:Eo; [|discriminate].
      destruct (run_uacts sg s e acts) as [s'|] eqn:Er; [|discriminate].
      assert (He : env_dom (edb s) e) by (destruct HS as [_ HI _]; eapply env_okb_dom; eauto).
      destruct (run_uacts_ok acts U s w e s' HS He Er) as (w' & U' & HS' & Hi' & G' & Hst' & Hle' & Hp').
      destruct (IH U' s' w' s1 HS' H) as (w1 & U1 & HS1 & Hi1 & G1 & Hst1 & Hle1 & Hp1).
      exists w1, U1. split; [exact HS1|]. split; [eapply incl_tran; eauto|]. split; [eapply grows_trans; eauto|].
      split; [|split; [lia|]].
      + intros v Hv. rewrite Hst1; [apply Hst'; exact Hv|]. eapply vlt_mono; [|exact Hv]. exact Hle'.
      + intros a b Hab. destruct (Hp1 a b Hab) as [Hin|(e0 & acts0 & Hin0 & Hg)].
        * destruct (Hp' a b Hin) as [H0|H0]; [left; exact H0|right].
          exists e, acts. split; [left; reflexivity|]. erewrite ground_uacts_ext; [exact H0|].
          intros x. unfold sig_of. destruct (lookup e x) as [u|] eqn:Eu; [|reflexivity].
          assert (Hb : vlt (length w) u) by (destruct HS as [_ HI _]; eapply env_dom_bounded; eauto).
          rewrite Hst1; [apply Hst'; exact Hb|]. eapply vlt_mono; [|exact Hb]. exact Hle'.
        * right. exists e0, acts0. split; [right; exact Hin0|exact Hg].
  Qed.

  Notation SInvW U s := (exists w, SMid U s w).

  (** One [(run)] of the encoded program. From a state satisfying the session invariant for the
      unions [U], if the iteration returns: the state satisfies the invariant again — for [U]
      extended by pairs each of which is the ground reading of a union request in the head of a
      rule, under the substitution of a match of the rule's instrumented body over the view tables of
      the pre-state — and is canonical. *)
  Theorem rules_iter_ok fuel rs U s s' : SInvW U s -> enc_rules_iter fuel sg rs s = Ok s' ->
    exists w' U', SMid U' s' w' /\ Canonical sg (edb s') /\ incl U U' /\
      (forall a b, In (a, b) U' -> In (a, b) U \/
         exists r e, In r rs /\ In e (umatches (edb s) r) /\ In (a, b) (ground_uacts (sig_of w' e) (uacts r))).
  Proof.
    intros (w & HS) H. unfold enc_rules_iter in H.
    destruct (run_matches sg s (all_matches (edb s) rs)) as [s1|] eqn:Er; [|discriminate].
    destruct (run_matches_ok _ U s w s1 HS Er) as (w1 & U1 & HS1 & Hi & G & Hst & Hle & Hp).
    destruct (maint_ok sg U1 s1 w1 fuel s' HS1 H) as (HS' & HC & _ & _).
    exists w1, U1. split; [exact HS'|]. split; [exact HC|]. split; [exact Hi|].
    intros a b Hab. destruct (Hp a b Hab) as [Hin|(e & acts & Hin & Hg)]; [left; exact Hin|right].
    unfold all_matches in Hin. apply in_flat_map in Hin. destruct Hin as (r & Hr & Hm).
    apply in_map_iff in Hm. destruct Hm as (e' & E & He'). injection E as <- <-.
    exists r, e'. auto.
  Qed.

  (** soundness of what the encoded session observes after rule runs: equal leaders only for terms
      in the congruence closure of the accumulated unions *)
  Theorem rules_eval_sound U s w t1 t2 v : SMid U s w ->
    enc_eval (edb s) t1 = Some v -> enc_eval (edb s) t2 = Some v -> CC U t1 t2.
  Proof.
    intros [_ HI _] H1 H2.
    eapply cc_trans; [eapply enc_eval_sound; eauto|apply cc_sym; eapply enc_eval_sound; eauto].
  Qed.
End UR.
