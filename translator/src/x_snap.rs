//! Extension module (Tier A) for C08 (snapshot isolation). Output: coq/gen/SnapFacts.v
//! Contract: return (text of the .v file, report lines). Each report line is one JSON object
//! {"item":"SnapFacts.<name>","file":"<rust file>","ok":true|false[,"error":"..."]}.
//! Fail closed: when a site is not recognised, OMIT the Gallina definition (so dependent proofs stop
//! compiling) and push an ok:false report line.
//!
//! Items (all data, no functions):
//!   push_body        src/lib.rs `EGraph::push`: the statement list, each statement recognised as one
//!                    of four shapes (anything else fails the item)
//!   pop_carry        src/lib.rs `EGraph::pop`: `match self.pushed_egraph.take() { Some(mut e) => {
//!                    mem::swap(&mut self.<path>, &mut e.<path>);* *self = *e; Ok(()) } None => Err(..) }`
//!                    -> the list of swapped paths (the fields carried over from the live e-graph)
//!   egraph_fields    src/lib.rs `struct EGraph`: how Clone is obtained (derive / manual impl) and the
//!                    field list (name, type text, syntactic sharing class)
//!   bridge_fields    egglog-bridge/src/lib.rs `struct EGraph`, same
//!   database_fields  core-relations/src/free_join/mod.rs `struct Database`, same
//!   tableinfo_clone  core-relations/src/free_join/mod.rs `struct TableInfo` + its manual
//!                    `impl Clone`: per field the initialiser expression of the struct literal
//!   counters_clone   `impl Clone for Counters`: recognised as "fresh AtomicUsize per entry"
use quote::ToTokens;
use std::path::Path;

const F_SRC: &str = "src/lib.rs";
const F_BRIDGE: &str = "egglog-bridge/src/lib.rs";
const F_DB: &str = "core-relations/src/free_join/mod.rs";

fn toks<T: ToTokens>(t: &T) -> String {
    // canonical text: token stream, spaces removed (types / small expressions only)
    t.to_token_stream().to_string().replace(' ', "")
}

fn coq_str(s: &str) -> String {
    format!("\"{}\"", s.replace('"', "\"\""))
}

fn parse(repo: &Path, rel: &str) -> Result<syn::File, String> {
    let src = std::fs::read_to_string(repo.join(rel)).map_err(|e| format!("{rel}: {e}"))?;
    syn::parse_file(&src).map_err(|e| format!("{rel}: {e}"))
}

fn is_cfg_verif_or_test(attrs: &[syn::Attribute]) -> bool {
    attrs.iter().any(|a| a.path().is_ident("cfg") && {
        let t = toks(&a.meta);
        t.contains("test")
    })
}

/// top-level struct by name (top level of the file only; test modules are not searched)
fn find_struct<'a>(file: &'a syn::File, name: &str) -> Result<&'a syn::ItemStruct, String> {
    let mut found = None;
    for it in &file.items {
        if let syn::Item::Struct(s) = it {
            if s.ident == name && !is_cfg_verif_or_test(&s.attrs) {
                if found.is_some() {
                    return Err(format!("two top-level structs named {name}"));
                }
                found = Some(s);
            }
        }
    }
    found.ok_or_else(|| format!("struct {name} not found at top level"))
}

fn derives_clone(s: &syn::ItemStruct) -> bool {
    s.attrs.iter().any(|a| {
        a.path().is_ident("derive") && {
            let t = toks(&a.meta);
            // derive(Clone, ..) — token text without spaces
            t.trim_start_matches("derive(")
                .trim_end_matches(')')
                .split(',')
                .any(|d| d == "Clone")
        }
    })
}

/// manual `impl Clone for <name>` at top level
fn manual_clone<'a>(file: &'a syn::File, name: &str) -> Option<&'a syn::ItemImpl> {
    for it in &file.items {
        if let syn::Item::Impl(i) = it {
            if let Some((_, path, _)) = &i.trait_ {
                if path.segments.last().map(|s| s.ident == "Clone").unwrap_or(false) {
                    if let syn::Type::Path(tp) = &*i.self_ty {
                        if tp.path.segments.last().map(|s| s.ident == name).unwrap_or(false) {
                            return Some(i);
                        }
                    }
                }
            }
        }
    }
    None
}

/// `type Name<..> = Rhs;` aliases at top level: name -> rhs type
fn aliases(file: &syn::File) -> Vec<(String, syn::Type)> {
    file.items
        .iter()
        .filter_map(|it| match it {
            syn::Item::Type(t) => Some((t.ident.to_string(), (*t.ty).clone())),
            _ => None,
        })
        .collect()
}

const HANDLES: &[&str] = &["Arc", "Rc", "Weak", "SharedRef"];

fn outer_ident(ty: &syn::Type) -> Option<String> {
    match ty {
        syn::Type::Path(tp) => tp.path.segments.last().map(|s| s.ident.to_string()),
        syn::Type::Reference(_) | syn::Type::Ptr(_) => Some("&".to_string()),
        _ => None,
    }
}

fn mentions_handle(ty: &syn::Type, al: &[(String, syn::Type)]) -> bool {
    struct V<'a> {
        hit: bool,
        al: &'a [(String, syn::Type)],
    }
    impl<'ast, 'a> syn::visit::Visit<'ast> for V<'a> {
        fn visit_path_segment(&mut self, s: &'ast syn::PathSegment) {
            let id = s.ident.to_string();
            if HANDLES.contains(&id.as_str()) {
                self.hit = true;
            }
            if let Some((_, rhs)) = self.al.iter().find(|(n, _)| *n == id) {
                let mut inner = V { hit: false, al: &[] };
                syn::visit::visit_type(&mut inner, rhs);
                if inner.hit {
                    self.hit = true;
                }
            }
            syn::visit::visit_path_segment(self, s);
        }
        fn visit_type_reference(&mut self, _: &'ast syn::TypeReference) {
            self.hit = true;
        }
        fn visit_type_ptr(&mut self, _: &'ast syn::TypePtr) {
            self.hit = true;
        }
    }
    let mut v = V { hit: false, al };
    syn::visit::visit_type(&mut v, ty);
    v.hit
}

/// syntactic sharing class of a field type: SHandle = the value itself is a reference-counted
/// handle / reference (after expanding one top-level alias of the same file); SInner = such a
/// handle occurs inside the type's arguments; SOwned = neither.
fn share_class(ty: &syn::Type, al: &[(String, syn::Type)]) -> &'static str {
    let mut outer = outer_ident(ty);
    if let Some(o) = &outer {
        if let Some((_, rhs)) = al.iter().find(|(n, _)| n == o) {
            outer = outer_ident(rhs);
            if outer.as_deref().map(|o| HANDLES.contains(&o) || o == "&").unwrap_or(false) {
                return "SHandle";
            }
            return if mentions_handle(rhs, &[]) || mentions_handle(ty, al) { "SInner" } else { "SOwned" };
        }
    }
    match outer.as_deref() {
        Some(o) if HANDLES.contains(&o) || o == "&" => "SHandle",
        _ => {
            if mentions_handle(ty, al) {
                "SInner"
            } else {
                "SOwned"
            }
        }
    }
}

fn struct_item(file: &syn::File, name: &str, def: &str, what: &str) -> Result<String, String> {
    let s = find_struct(file, name)?;
    let al = aliases(file);
    let derive = derives_clone(s);
    let manual = manual_clone(file, name).is_some();
    let how = match (derive, manual) {
        (true, false) => "HDerive",
        (false, true) => "HManual",
        (true, true) => return Err(format!("{name}: both derive(Clone) and a manual impl")),
        (false, false) => return Err(format!("{name}: no Clone found")),
    };
    if !s.generics.params.is_empty() {
        return Err(format!("{name}: generic struct not supported"));
    }
    let fields = match &s.fields {
        syn::Fields::Named(n) => &n.named,
        _ => return Err(format!("{name}: not a struct with named fields")),
    };
    let mut rows = Vec::new();
    for f in fields {
        if f.attrs.iter().any(|a| a.path().is_ident("cfg")) {
            return Err(format!("{name}: field {} is cfg-gated", toks(&f.ident)));
        }
        let fname = f.ident.as_ref().ok_or("unnamed field")?.to_string();
        rows.push(format!(
            "  ({}, {}, {})",
            coq_str(&fname),
            coq_str(&toks(&f.ty)),
            share_class(&f.ty, &al)
        ));
    }
    // aliases used by the fields' outer identifiers, with their right-hand sides
    let mut used = Vec::new();
    for f in fields {
        if let Some(o) = outer_ident(&f.ty) {
            if let Some((n, rhs)) = al.iter().find(|(n, _)| *n == o) {
                used.push(format!("  ({}, {})", coq_str(n), coq_str(&toks(rhs))));
            }
        }
    }
    Ok(format!(
        "(* {what} *)\nDefinition {def}_clone_how : clone_how := {how}.\nDefinition {def}_fields : list (string * string * share) := [\n{}\n].\nDefinition {def}_aliases : list (string * string) := [{}{}].\n",
        rows.join(";\n"),
        if used.is_empty() { "" } else { "\n" },
        used.join(";\n"),
    ))
}

fn find_method<'a>(file: &'a syn::File, ty: &str, name: &str) -> Result<&'a syn::ImplItemFn, String> {
    let mut found = None;
    for it in &file.items {
        if let syn::Item::Impl(i) = it {
            if i.trait_.is_some() {
                continue;
            }
            let is_ty = matches!(&*i.self_ty, syn::Type::Path(tp) if tp.path.segments.last().map(|s| s.ident == ty).unwrap_or(false));
            if !is_ty {
                continue;
            }
            for m in &i.items {
                if let syn::ImplItem::Fn(f) = m {
                    if f.sig.ident == name && !f.attrs.iter().any(|a| a.path().is_ident("cfg")) {
                        if found.is_some() {
                            return Err(format!("two methods {ty}::{name}"));
                        }
                        found = Some(f);
                    }
                }
            }
        }
    }
    found.ok_or_else(|| format!("method {ty}::{name} not found"))
}

/// `EGraph::push`
fn push_item(file: &syn::File) -> Result<String, String> {
    let f = find_method(file, "EGraph", "push")?;
    let mut out = Vec::new();
    let mut saved: Option<String> = None; // variable holding the old stack
    let mut copy: Option<String> = None; // variable holding the clone of self
    for st in &f.block.stmts {
        let t = match st {
            syn::Stmt::Local(l) => {
                let var = match &l.pat {
                    syn::Pat::Type(pt) => match &*pt.pat {
                        syn::Pat::Ident(i) => i.ident.to_string(),
                        _ => return Err("push: unsupported let pattern".into()),
                    },
                    syn::Pat::Ident(i) => i.ident.to_string(),
                    _ => return Err("push: unsupported let pattern".into()),
                };
                let init = l.init.as_ref().ok_or("push: let without initialiser")?;
                if init.diverge.is_some() {
                    return Err("push: let-else".into());
                }
                let e = toks(&*init.expr);
                if e == "self.pushed_egraph.take()" && saved.is_none() {
                    saved = Some(var);
                    "PTakeStack"
                } else if e == "self.clone()" && copy.is_none() {
                    copy = Some(var);
                    "PCloneSelf"
                } else {
                    return Err(format!("push: unrecognised statement `let {var} = {e}`"));
                }
            }
            syn::Stmt::Expr(e, Some(_)) => {
                let t = toks(e);
                match (&saved, &copy) {
                    (Some(s), Some(c)) if t == format!("{c}.pushed_egraph={s}") => "PCopySetStack",
                    (_, Some(c)) if t == format!("self.pushed_egraph=Some(Box::new({c}))") => "PSelfStackIsCopy",
                    _ => return Err(format!("push: unrecognised statement `{t}`")),
                }
            }
            other => return Err(format!("push: unrecognised statement `{}`", toks(other))),
        };
        out.push(t);
    }
    Ok(format!(
        "(* src/lib.rs EGraph::push *)\nDefinition push_body : list push_stmt := [{}].\n",
        out.join("; ")
    ))
}

/// `&mut self.a.b` / `&mut e.a.b` -> (base, [a; b])
fn mut_ref_path(e: &syn::Expr) -> Option<(String, Vec<String>)> {
    let r = match e {
        syn::Expr::Reference(r) if r.mutability.is_some() => &*r.expr,
        _ => return None,
    };
    let mut path = Vec::new();
    let mut cur = r;
    loop {
        match cur {
            syn::Expr::Field(f) => {
                match &f.member {
                    syn::Member::Named(n) => path.push(n.to_string()),
                    _ => return None,
                }
                cur = &*f.base;
            }
            syn::Expr::Path(p) => {
                let base = p.path.get_ident()?.to_string();
                path.reverse();
                return Some((base, path));
            }
            _ => return None,
        }
    }
}

/// `Some(mut x)` -> x
fn some_mut_var(p: &syn::Pat) -> Option<String> {
    if let syn::Pat::TupleStruct(ts) = p {
        if ts.path.is_ident("Some") && ts.elems.len() == 1 {
            if let syn::Pat::Ident(i) = &ts.elems[0] {
                if i.by_ref.is_none() && i.subpat.is_none() {
                    return Some(i.ident.to_string());
                }
            }
        }
    }
    None
}

/// `EGraph::pop`
fn pop_item(file: &syn::File) -> Result<String, String> {
    let f = find_method(file, "EGraph", "pop")?;
    if f.block.stmts.len() != 1 {
        return Err("pop: body is not a single match expression".into());
    }
    let m = match &f.block.stmts[0] {
        syn::Stmt::Expr(syn::Expr::Match(m), None) => m,
        _ => return Err("pop: body is not a single match expression".into()),
    };
    if toks(&*m.expr) != "self.pushed_egraph.take()" {
        return Err(format!("pop: scrutinee is `{}`", toks(&*m.expr)));
    }
    if m.arms.len() != 2 {
        return Err("pop: expected two arms".into());
    }
    let mut carry: Option<Vec<Vec<String>>> = None;
    let mut none_err = false;
    for arm in &m.arms {
        if arm.guard.is_some() {
            return Err("pop: guarded arm".into());
        }
        let pat = toks(&arm.pat);
        if pat == "None" {
            let b = toks(&*arm.body);
            if b.starts_with("Err(Error::Pop(") {
                none_err = true;
            } else {
                return Err(format!("pop: None arm is `{b}`"));
            }
        } else if let Some(var) = some_mut_var(&arm.pat) {
            let blk = match &*arm.body {
                syn::Expr::Block(b) => &b.block,
                _ => return Err("pop: Some arm is not a block".into()),
            };
            let n = blk.stmts.len();
            if n < 2 {
                return Err("pop: Some arm too short".into());
            }
            let mut paths = Vec::new();
            for st in &blk.stmts[..n - 2] {
                let call = match st {
                    syn::Stmt::Expr(syn::Expr::Call(c), Some(_)) => c,
                    other => return Err(format!("pop: unrecognised statement `{}`", toks(other))),
                };
                let fun = toks(&*call.func);
                if !(fun == "std::mem::swap" || fun == "mem::swap") || call.args.len() != 2 {
                    return Err(format!("pop: unrecognised call `{fun}`"));
                }
                let a = mut_ref_path(&call.args[0]).ok_or("pop: swap argument 1 not `&mut x.path`")?;
                let b = mut_ref_path(&call.args[1]).ok_or("pop: swap argument 2 not `&mut x.path`")?;
                let ok = (a.0 == "self" && b.0 == var) || (a.0 == var && b.0 == "self");
                if !ok || a.1 != b.1 || a.1.is_empty() {
                    return Err(format!("pop: swap of different places `{}`", toks(call)));
                }
                paths.push(a.1);
            }
            let s1 = toks(&blk.stmts[n - 2]);
            let s2 = toks(&blk.stmts[n - 1]);
            if s1 != format!("*self=*{var};") || s2 != "Ok(())" {
                return Err(format!("pop: Some arm ends with `{s1}` `{s2}`"));
            }
            carry = Some(paths);
        } else {
            return Err(format!("pop: unrecognised arm pattern `{pat}`"));
        }
    }
    let carry = carry.ok_or("pop: no Some arm")?;
    if !none_err {
        return Err("pop: no None => Err(Error::Pop(..)) arm".into());
    }
    let rows: Vec<String> = carry
        .iter()
        .map(|p| format!("[{}]", p.iter().map(|s| coq_str(s)).collect::<Vec<_>>().join("; ")))
        .collect();
    Ok(format!(
        "(* src/lib.rs EGraph::pop: `match self.pushed_egraph.take()`; Some(mut e): swap each of these\n   paths between self and e, then `*self = *e; Ok(())`; None: Err(Error::Pop) *)\nDefinition pop_carry : list (list string) := [{}].\n",
        rows.join("; ")
    ))
}

/// `impl Clone for TableInfo`: the struct literal's field initialisers
fn tableinfo_item(file: &syn::File) -> Result<String, String> {
    let s = find_struct(file, "TableInfo")?;
    if derives_clone(s) {
        return Err("TableInfo: derive(Clone) (expected the manual deep-copying impl)".into());
    }
    let imp = manual_clone(file, "TableInfo").ok_or("impl Clone for TableInfo not found")?;
    let fields: Vec<(String, String)> = match &s.fields {
        syn::Fields::Named(n) => n
            .named
            .iter()
            .map(|f| (f.ident.as_ref().unwrap().to_string(), toks(&f.ty)))
            .collect(),
        _ => return Err("TableInfo: not a named-field struct".into()),
    };
    let clone_fn = imp
        .items
        .iter()
        .find_map(|m| match m {
            syn::ImplItem::Fn(f) if f.sig.ident == "clone" => Some(f),
            _ => None,
        })
        .ok_or("TableInfo::clone not found")?;
    // the last statement must be the struct literal; earlier statements may only be local fn items
    let n = clone_fn.block.stmts.len();
    if n == 0 {
        return Err("TableInfo::clone: empty body".into());
    }
    for st in &clone_fn.block.stmts[..n - 1] {
        match st {
            syn::Stmt::Item(syn::Item::Fn(_)) => {}
            other => return Err(format!("TableInfo::clone: unexpected statement `{}`", toks(other))),
        }
    }
    let lit = match &clone_fn.block.stmts[n - 1] {
        syn::Stmt::Expr(syn::Expr::Struct(l), None) => l,
        _ => return Err("TableInfo::clone: last expression is not a struct literal".into()),
    };
    if lit.rest.is_some() || lit.dot2_token.is_some() {
        return Err("TableInfo::clone: struct literal with `..`".into());
    }
    let mut rows = Vec::new();
    for (fname, fty) in &fields {
        let init = lit
            .fields
            .iter()
            .find(|fv| matches!(&fv.member, syn::Member::Named(n) if n == fname))
            .ok_or_else(|| format!("TableInfo::clone: field {fname} not initialised"))?;
        rows.push(format!("  ({}, {}, {})", coq_str(fname), coq_str(fty), coq_str(&toks(&init.expr))));
    }
    if lit.fields.len() != fields.len() {
        return Err("TableInfo::clone: literal and struct differ in field count".into());
    }
    // the helper that copies an index catalog: its body text is pinned too
    let helper = clone_fn.block.stmts[..n - 1]
        .iter()
        .find_map(|st| match st {
            syn::Stmt::Item(syn::Item::Fn(f)) if f.sig.ident == "deep_clone_map" => Some(toks(&f.block)),
            _ => None,
        })
        .unwrap_or_default();
    Ok(format!(
        "(* core-relations/src/free_join/mod.rs struct TableInfo + impl Clone for TableInfo *)\nDefinition tableinfo_clone : list (string * string * string) := [\n{}\n].\nDefinition tableinfo_deep_clone_map : string := {}.\n",
        rows.join(";\n"),
        coq_str(&helper)
    ))
}

/// `impl Clone for Counters`
fn counters_item(file: &syn::File) -> Result<String, String> {
    let imp = manual_clone(file, "Counters").ok_or("impl Clone for Counters not found")?;
    let clone_fn = imp
        .items
        .iter()
        .find_map(|m| match m {
            syn::ImplItem::Fn(f) if f.sig.ident == "clone" => Some(f),
            _ => None,
        })
        .ok_or("Counters::clone not found")?;
    let body = toks(&clone_fn.block);
    let fresh = body.contains("AtomicUsize::new(v.load(") && body.contains("map.insert(k,") && body.ends_with("Counters(map)}");
    if !fresh {
        return Err(format!("Counters::clone: body not recognised: {body}"));
    }
    Ok("(* core-relations/src/free_join/mod.rs impl Clone for Counters: a fresh AtomicUsize per counter,\n   initialised with the current value *)\nDefinition counters_clone_fresh_cells : bool := true.\n".to_string())
}

pub fn generate(repo: &Path) -> (String, Vec<String>) {
    let mut rep = Vec::new();
    let mut out = String::from(
        "(* GENERATED by /verif/translator (x_snap.rs) from src/lib.rs, egglog-bridge/src/lib.rs,\n   core-relations/src/free_join/mod.rs; do not edit *)\nFrom Coq Require Import List String.\nImport ListNotations.\nOpen Scope string_scope.\n\n(** how a struct gets its Clone *)\nInductive clone_how := HDerive | HManual.\n(** syntactic sharing class of a field type: the value is itself a handle (Arc/Rc/Weak/SharedRef/&,\n    possibly through one type alias) / a handle occurs inside the type / neither *)\nInductive share := SOwned | SHandle | SInner.\n(** statements of EGraph::push: `let a = self.pushed_egraph.take()`, `let mut p = self.clone()`,\n    `p.pushed_egraph = a`, `self.pushed_egraph = Some(Box::new(p))` *)\nInductive push_stmt := PTakeStack | PCloneSelf | PCopySetStack | PSelfStackIsCopy.\n\n",
    );
    let mut item = |name: &str, file: &str, res: Result<String, String>, out: &mut String| match res {
        Ok(t) => {
            out.push_str(&t);
            out.push('\n');
            rep.push(format!("{{\"item\":\"SnapFacts.{name}\",\"file\":\"{file}\",\"ok\":true}}"));
        }
        Err(e) => {
            out.push_str(&format!("(* {name}: FAILED: {} *)\n\n", e.replace("*)", "* )").replace("(*", "( *")));
            rep.push(format!(
                "{{\"item\":\"SnapFacts.{name}\",\"file\":\"{file}\",\"ok\":false,\"error\":{:?}}}",
                e
            ));
        }
    };
    let src = parse(repo, F_SRC);
    let bridge = parse(repo, F_BRIDGE);
    let db = parse(repo, F_DB);
    let with = |f: &Result<syn::File, String>, g: &dyn Fn(&syn::File) -> Result<String, String>| match f {
        Ok(file) => g(file),
        Err(e) => Err(e.clone()),
    };
    item("push_body", F_SRC, with(&src, &push_item), &mut out);
    item("pop_carry", F_SRC, with(&src, &pop_item), &mut out);
    item(
        "egraph_fields",
        F_SRC,
        with(&src, &|f| struct_item(f, "EGraph", "egraph", "src/lib.rs struct EGraph")),
        &mut out,
    );
    item(
        "bridge_fields",
        F_BRIDGE,
        with(&bridge, &|f| struct_item(f, "EGraph", "bridge", "egglog-bridge/src/lib.rs struct EGraph")),
        &mut out,
    );
    item(
        "database_fields",
        F_DB,
        with(&db, &|f| struct_item(f, "Database", "database", "core-relations/src/free_join/mod.rs struct Database")),
        &mut out,
    );
    item("tableinfo_clone", F_DB, with(&db, &tableinfo_item), &mut out);
    item("counters_clone", F_DB, with(&db, &counters_item), &mut out);
    (out, rep)
}
