(** C15 — grammar level: printing an expression / fact / action / schedule and parsing the text
    gives the tree back (schedules: the tree with the parser's `seq` re-wrapping). *)
From Coq Require Import List NArith ZArith Bool Lia.
Import ListNotations.
Require Import Verif.Base.Cases Verif.Syntax.Sexp Verif.Syntax.SexpProofs Verif.Syntax.Ast.
Local Open Scope N_scope.

Section ExprInd.
  Variable P : expr -> Prop.
  Hypothesis HVar : forall v, P (EVar v).
  Hypothesis HLit : forall l, P (ELit l).
  Hypothesis HCall : forall f args, Forall P args -> P (ECall f args).
  Fixpoint expr_ind2 (e : expr) : P e :=
    match e with
    | EVar v => HVar v
    | ELit l => HLit l
    | ECall f args => HCall f args ((fix go (l : list expr) : Forall P l :=
                                       match l with [] => Forall_nil _ | x :: tl => Forall_cons x (expr_ind2 x) (go tl) end) args)
    end.
End ExprInd.

Definition has_digit (s : str) : bool := existsb (fun c => (48 <=? c) && (c <=? 57)) s.

Lemma chars_uint_digit : forall d u, d <> [] -> chars_uint d = Some u -> has_digit d = true.
Proof.
  intros d u Hne H. destruct d as [|c d]; [congruence|]. simpl in H.
  destruct (chars_uint d); [|discriminate]. unfold has_digit. simpl.
  repeat match type of H with
         | (if ?c =? ?k then _ else _) = _ => destruct (N.eqb_spec c k); [subst; reflexivity|]
         end. discriminate.
Qed.
Lemma parse_i64_digit : forall s z, parse_i64 s = Some z -> has_digit s = true.
Proof.
  intros s z H. unfold parse_i64 in H. destruct s as [|c s]; [discriminate|].
  destruct (c =? c_minus); [|destruct (c =? c_plus)].
  - destruct s as [|c' s']; [discriminate|]. destruct (chars_uint (c' :: s')) eqn:E; [|discriminate].
    unfold has_digit. simpl existsb. apply orb_true_iff. right.
    apply (chars_uint_digit (c' :: s') u); [discriminate | assumption].
  - destruct s as [|c' s']; [discriminate|]. destruct (chars_uint (c' :: s')) eqn:E; [|discriminate].
    unfold has_digit. simpl existsb. apply orb_true_iff. right.
    apply (chars_uint_digit (c' :: s') u); [discriminate | assumption].
  - destruct (chars_uint (c :: s)) eqn:E; [|discriminate].
    apply (chars_uint_digit (c :: s) u); [discriminate | assumption].
Qed.

Section Grammar.
  Variable fmt_f64 : Z -> str.
  Variable parse_f64 : str -> option fl.
  Hypothesis fmt_chars : forall x, finite_bits x -> numchars (fmt_f64 x).
  Hypothesis fmt_nonempty : forall x, finite_bits x -> fmt_f64 x <> [].
  Hypothesis parse_fmt : forall x, finite_bits x ->
    parse_f64 (print_float fmt_f64 (FFin x)) = Some (FFin x).
  (** only a text with a decimal digit parses as a finite f64 (tested by the harness on every
      token it generates) — needed so that keywords are symbols *)
  Hypothesis parse_digit : forall s x, parse_f64 s = Some (FFin x) -> has_digit s = true.
  Variable chk : bool.

  Notation wf_atom := (wf_atom parse_f64).
  Notation wf_l := (wf_l parse_f64).
  Notation wf_items := (wf_items parse_f64).

  (** a word without digits that is not one of the literal words is a symbol *)
  Lemma word_atom : forall k, tok_ok k -> has_digit k = false ->
    str_eqb k k_true = false -> str_eqb k k_false = false -> str_eqb k k_NaN = false ->
    str_eqb k k_inf = false -> str_eqb k k_ninf = false -> wf_atom k.
  Proof.
    intros k Ht Hd E1 E2 E3 E4 E5. split; [assumption|]. unfold classify. rewrite E1, E2.
    destruct (parse_i64 k) eqn:Ei.
    - apply parse_i64_digit in Ei. congruence.
    - rewrite E3, E4, E5. destruct (parse_f64 k) as [[| | |x]|] eqn:Ef; try reflexivity.
      apply parse_digit in Ef. congruence.
  Qed.
  Ltac kw := apply word_atom; [repeat split; try discriminate | reflexivity ..].

  Lemma wf_it : forall x tl, wf_l x -> wf_items false tl -> wf_items false (it x :: tl).
  Proof. intros x tl Hx Ht. simpl. repeat split; try assumption. discriminate. Qed.
  Lemma wf_kw_list : forall k items cw, wf_atom k -> wf_items false items -> ws_str cw ->
    wf_l (LList (kw k :: items) cw).
  Proof.
    intros k items cw Hk Hi Hc. apply wf_l_list. split; [assumption|]. simpl.
    split; [reflexivity|]. split; [exact I|]. split; [exact Hk | exact Hi].
  Qed.
  Lemma ws_nil : ws_str []. Proof. reflexivity. Qed.

  Lemma kw_eq : wf_atom k_eq. Proof. kw. Qed.
  Lemma kw_let : wf_atom k_let. Proof. kw. Qed.
  Lemma kw_set : wf_atom k_set. Proof. kw. Qed.
  Lemma kw_delete : wf_atom k_delete. Proof. kw. Qed.
  Lemma kw_subsume : wf_atom k_subsume. Proof. kw. Qed.
  Lemma kw_union : wf_atom k_union. Proof. kw. Qed.
  Lemma kw_panic : wf_atom k_panic. Proof. kw. Qed.
  Lemma kw_saturate : wf_atom k_saturate. Proof. kw. Qed.
  Lemma kw_seq : wf_atom k_seq. Proof. kw. Qed.
  Lemma kw_repeat : wf_atom k_repeat. Proof. kw. Qed.
  Lemma kw_run : wf_atom k_run. Proof. kw. Qed.
  Lemma kw_until : wf_atom k_until. Proof. kw. Qed.

  (** * expressions *)
  (** [wf_expr]: what `parse_expr` can return — symbols are symbols, a variable is not the
      wildcard (the parser replaces it) and, when reserved symbols are rejected, not reserved;
      literals are lexer-producible *)
  Fixpoint wf_expr (e : expr) : Prop :=
    match e with
    | EVar v => wf_atom v /\ v <> k_underscore /\ (chk = true -> is_reserved v = false)
    | ECall f args => wf_atom f /\ (fix go (l : list expr) : Prop :=
                                      match l with [] => True | x :: tl => wf_expr x /\ go tl end) args
    | ELit l => l = LUnit \/ wf_lit l
    end.
  Lemma wf_expr_call : forall f args, wf_expr (ECall f args) <-> wf_atom f /\ Forall wf_expr args.
  Proof.
    intros. simpl. apply and_iff_compat_l. induction args as [|x tl IH]; split; intro H; auto.
    - destruct H. constructor; [assumption|apply IH; assumption].
    - inversion H; subst. split; [assumption|apply IH; assumption].
  Qed.

  Definition sx_expr (e : expr) : sexp := strip (lay_expr e).

  Lemma sx_call : forall f args,
    sx_expr (ECall f args) = SList (SAtom f :: List.map sx_expr args).
  Proof.
    intros. unfold sx_expr. simpl. f_equal. f_equal. rewrite map_map. reflexivity.
  Qed.

  Lemma parse_expr_call : forall f l,
    parse_expr chk (SList (SAtom f :: l)) =
    bindM (mapM (parse_expr chk) l) (fun es => ret (ECall f es)).
  Proof.
    intros. simpl. f_equal.
    induction l as [|a tl IH]; simpl; [reflexivity|]. rewrite IH. reflexivity.
  Qed.

  Lemma mapM_ok : forall {A B} (p : A -> M B) (xs : list A) (ys : list B) n,
    Forall2 (fun x y => forall n, p x n = POk (y, n)) xs ys -> mapM p xs n = POk (ys, n).
  Proof.
    intros A B p xs ys n H. revert n. induction H as [|x y xs ys Hxy _ IH]; intro n; simpl; [reflexivity|].
    unfold bindM. rewrite Hxy. rewrite IH. reflexivity.
  Qed.

  Lemma check_reserved_ok : forall v n, (chk = true -> is_reserved v = false) -> check_reserved chk v n = POk (tt, n).
  Proof.
    intros v n H. unfold check_reserved. destruct chk; [rewrite H; reflexivity | reflexivity].
  Qed.

  Lemma expr_ok : forall e, wf_expr e ->
    wf_l (lay_expr e) /\ forall n, parse_expr chk (sx_expr e) n = POk (e, n).
  Proof.
    induction e as [v|l|f args IH] using expr_ind2; intro Hwf.
    - destruct Hwf as (Ha & Hu & Hr). split; [exact Ha|]. intro n. unfold sx_expr. simpl.
      rewrite (str_eqb_neq _ _ Hu). unfold bindM. rewrite (check_reserved_ok v n Hr). reflexivity.
    - destruct Hwf as [Hu|Hl].
      + subst. split; [apply wf_l_list; split; reflexivity | reflexivity].
      + destruct l; try contradiction; (split; [exact Hl | reflexivity]).
    - apply wf_expr_call in Hwf. destruct Hwf as [Hf Hargs].
      assert (wf_items false (List.map (fun a => it (lay_expr a)) args)
              /\ Forall2 (fun x y => forall n, parse_expr chk x n = POk (y, n)) (List.map sx_expr args) args) as [Hi Hp].
      { induction IH as [|x tl Hx _ IHtl]; [split; [exact I | constructor]|].
        inversion Hargs as [|? ? Hwx Hwtl]; subst. destruct (Hx Hwx) as [A B]. destruct (IHtl Hwtl) as [C D].
        split; [apply wf_it; assumption | constructor; assumption]. }
      split.
      + simpl lay_expr. apply wf_kw_list; [assumption | assumption | apply ws_nil].
      + intro n. rewrite sx_call, parse_expr_call. unfold bindM. rewrite (mapM_ok _ _ _ n Hp). reflexivity.
  Qed.

  Lemma exprs_ok : forall es, Forall wf_expr es ->
    wf_items false (List.map (fun a => it (lay_expr a)) es)
    /\ forall n, mapM (parse_expr chk) (List.map sx_expr es) n = POk (es, n).
  Proof.
    intros es H. assert (wf_items false (List.map (fun a => it (lay_expr a)) es)
              /\ Forall2 (fun x y => forall n, parse_expr chk x n = POk (y, n)) (List.map sx_expr es) es) as [Hi Hp].
    { induction H as [|x tl Hx _ IHtl]; [split; [exact I | constructor]|].
      destruct (expr_ok x Hx) as [A B]. destruct IHtl as [C D].
      split; [apply wf_it; assumption | constructor; assumption]. }
    split; [assumption | intro n; apply mapM_ok; assumption].
  Qed.

  (** * facts *)
  Definition wf_fact (f : fact) : Prop :=
    match f with
    | FEq a b => wf_expr a /\ wf_expr b
    | FFact e => wf_expr e /\ exists g args, e = ECall g args /\ g <> k_eq
    end.
  Definition sx_fact (f : fact) : sexp := strip (lay_fact f).

  Lemma fact_ok : forall f, wf_fact f ->
    wf_l (lay_fact f) /\ forall n, parse_fact chk (sx_fact f) n = POk (f, n).
  Proof.
    intros [a b|e] Hwf.
    - destruct Hwf as [Ha Hb]. destruct (expr_ok a Ha) as [A1 A2]. destruct (expr_ok b Hb) as [B1 B2].
      split.
      + apply wf_kw_list; [apply kw_eq | apply wf_it; [exact A1 | apply wf_it; [exact B1 | exact I]] | apply ws_nil].
      + intro n. unfold sx_fact. simpl. unfold bindM. fold (sx_expr a). fold (sx_expr b). rewrite A2, B2. reflexivity.
    - destruct Hwf as (He & g & args & -> & Hg). destruct (expr_ok _ He) as [A1 A2].
      split; [exact A1|]. intro n. change (sx_fact (FFact (ECall g args))) with (sx_expr (ECall g args)).
      rewrite sx_call. unfold parse_fact. rewrite (str_eqb_neq _ _ Hg).
      rewrite <- sx_call. unfold bindM. rewrite A2. reflexivity.
  Qed.

  (** * actions *)
  Definition action_kw (g : str) : Prop :=
    g = k_let \/ g = k_set \/ g = k_delete \/ g = k_subsume \/ g = k_union \/ g = k_panic.
  Definition wf_action (a : action) : Prop :=
    match a with
    | ALet v e => wf_atom v /\ (chk = true -> is_reserved v = false) /\ wf_expr e
    | ASet f args v => wf_atom f /\ Forall wf_expr args /\ wf_expr v
    | AChange _ f args => wf_atom f /\ Forall wf_expr args
    | AUnion a b => wf_expr a /\ wf_expr b
    | APanic _ => True      (* ANY message *)
    | AExpr e => wf_expr e /\ exists g args, e = ECall g args /\ ~ action_kw g
    end.
  Definition sx_action (a : action) : sexp := strip (lay_action a).

  Lemma lookup_ok : forall f args, wf_atom f -> Forall wf_expr args ->
    wf_l (lay_call f (List.map lay_expr args))
    /\ forall n, parse_lookup chk (strip (lay_call f (List.map lay_expr args))) n = POk ((f, args), n).
  Proof.
    intros f args Hf Ha. destruct (exprs_ok args Ha) as [Hi Hp]. split.
    - unfold lay_call. rewrite map_map. apply wf_kw_list; [assumption | assumption | apply ws_nil].
    - intro n. unfold lay_call. simpl. rewrite !map_map. unfold bindM.
      change (List.map (fun x => strip (snd (it (lay_expr x)))) args) with (List.map sx_expr args).
      rewrite Hp. reflexivity.
  Qed.

  Lemma action_ok : forall a, wf_action a ->
    wf_l (lay_action a) /\ forall n, parse_action chk (sx_action a) n = POk (a, n).
  Proof.
    intros [v e|f args v|c f args|a b|m|e] Hwf; simpl in Hwf.
    - destruct Hwf as (Hv & Hr & He). destruct (expr_ok e He) as [A1 A2]. split.
      + apply wf_kw_list; [apply kw_let | apply wf_it; [exact Hv | apply wf_it; [exact A1 | exact I]] | apply ws_nil].
      + intro n. change (sx_action (ALet v e)) with (SList [SAtom k_let; SAtom v; sx_expr e]).
        unfold parse_action. change (str_eqb k_let k_let) with true. cbv iota.
        unfold bindM, expect_atom, ret. rewrite (check_reserved_ok v n Hr). rewrite A2. reflexivity.
    - destruct Hwf as (Hf & Ha & Hv). destruct (lookup_ok f args Hf Ha) as [L1 L2]. destruct (expr_ok v Hv) as [A1 A2]. split.
      + apply wf_kw_list; [apply kw_set | apply wf_it; [exact L1 | apply wf_it; [exact A1 | exact I]] | apply ws_nil].
      + intro n. unfold sx_action. simpl lay_action. cbn [strip List.map snd it kw].
        unfold parse_action. cbn [str_eqb]. change (str_eqb k_set k_let) with false. change (str_eqb k_set k_set) with true.
        cbv iota. unfold bindM. rewrite L2. fold (sx_expr v). rewrite A2. reflexivity.
    - destruct Hwf as (Hf & Ha). destruct (lookup_ok f args Hf Ha) as [L1 L2]. split.
      + apply wf_kw_list; [destruct c; [apply kw_delete | apply kw_subsume] | apply wf_it; [exact L1 | exact I] | apply ws_nil].
      + intro n. unfold sx_action. simpl lay_action. cbn [strip List.map snd it kw].
        destruct c; unfold parse_action, change_kw.
        * change (str_eqb k_delete k_let) with false. change (str_eqb k_delete k_set) with false.
          change (str_eqb k_delete k_delete) with true. cbv iota. unfold bindM. rewrite L2. reflexivity.
        * change (str_eqb k_subsume k_let) with false. change (str_eqb k_subsume k_set) with false.
          change (str_eqb k_subsume k_delete) with false. change (str_eqb k_subsume k_subsume) with true.
          cbv iota. unfold bindM. rewrite L2. reflexivity.
    - destruct Hwf as [Ha Hb]. destruct (expr_ok a Ha) as [A1 A2]. destruct (expr_ok b Hb) as [B1 B2]. split.
      + apply wf_kw_list; [apply kw_union | apply wf_it; [exact A1 | apply wf_it; [exact B1 | exact I]] | apply ws_nil].
      + intro n. unfold sx_action. simpl. unfold bindM. fold (sx_expr a). fold (sx_expr b). rewrite A2, B2. reflexivity.
    - split.
      + apply wf_kw_list; [apply kw_panic | apply wf_it; [exact I | exact I] | apply ws_nil].
      + intro n. reflexivity.
    - destruct Hwf as (He & g & args & -> & Hg). destruct (expr_ok _ He) as [A1 A2].
      split; [exact A1|]. intro n. change (sx_action (AExpr (ECall g args))) with (sx_expr (ECall g args)).
      rewrite sx_call. unfold parse_action.
      unfold action_kw in Hg.
      rewrite (str_eqb_neq g k_let), (str_eqb_neq g k_set), (str_eqb_neq g k_delete),
        (str_eqb_neq g k_subsume), (str_eqb_neq g k_union), (str_eqb_neq g k_panic) by tauto.
      rewrite <- sx_call. unfold bindM. rewrite A2. reflexivity.
  Qed.

  (** * text level *)
  Notation read_sexp := (read_sexp parse_f64).

  Theorem expr_roundtrip : forall e n, wf_expr e ->
    parse_expr_str parse_f64 chk (print_expr fmt_f64 e) n = POk (e, n).
  Proof.
    intros e n H. destruct (expr_ok e H) as [A B]. unfold parse_expr_str, parse_with, print_expr.
    rewrite (read_sexp_text fmt_f64 parse_f64 fmt_chars fmt_nonempty parse_fmt _ A). apply B.
  Qed.
  Theorem fact_roundtrip : forall f n, wf_fact f ->
    parse_fact_str parse_f64 chk (print_fact fmt_f64 f) n = POk (f, n).
  Proof.
    intros f n H. destruct (fact_ok f H) as [A B]. unfold parse_fact_str, parse_with, print_fact.
    rewrite (read_sexp_text fmt_f64 parse_f64 fmt_chars fmt_nonempty parse_fmt _ A). apply B.
  Qed.
  Theorem action_roundtrip : forall a n, wf_action a ->
    parse_action_str parse_f64 chk (print_action fmt_f64 a) n = POk (a, n).
  Proof.
    intros a n H. destruct (action_ok a H) as [A B]. unfold parse_action_str, parse_with, print_action.
    rewrite (read_sexp_text fmt_f64 parse_f64 fmt_chars fmt_nonempty parse_fmt _ A). apply B.
  Qed.

  (** * schedules
      The parser wraps the bodies of `saturate`, `repeat` (and `run-schedule`) in a fresh
      `Sequence`, and the printer prints that `Sequence` as `(seq ..)`: re-parsing a printed
      schedule therefore does NOT give the same tree but [rewrap] of it (finding
      C15-schedule-reparse-adds-seq).  What holds for every well-formed schedule: *)
  Fixpoint rewrap (s : sched) : sched :=
    match s with
    | SSaturate x => SSaturate (SSeq [rewrap x])
    | SRepeat n x => SRepeat n (SSeq [rewrap x])
    | SRun rs u => SRun rs u
    | SSeq l => SSeq (List.map rewrap l)
    end.

  Section SchedInd.
    Variable P : sched -> Prop.
    Hypothesis HSat : forall s, P s -> P (SSaturate s).
    Hypothesis HRep : forall n s, P s -> P (SRepeat n s).
    Hypothesis HRun : forall rs u, P (SRun rs u).
    Hypothesis HSeq : forall l, Forall P l -> P (SSeq l).
    Fixpoint sched_ind2 (s : sched) : P s :=
      match s with
      | SSaturate x => HSat x (sched_ind2 x)
      | SRepeat n x => HRep n x (sched_ind2 x)
      | SRun rs u => HRun rs u
      | SSeq l => HSeq l ((fix go (l : list sched) : Forall P l :=
                             match l with [] => Forall_nil _ | x :: tl => Forall_cons x (sched_ind2 x) (go tl) end) l)
      end.
  End SchedInd.

  Fixpoint wf_sched (s : sched) : Prop :=
    match s with
    | SSaturate x => wf_sched x
    | SRepeat n x => in_i64 (Z.of_N n) = true /\ wf_sched x
    | SRun rs u => (rs = [] \/ (wf_atom rs /\ rs <> k_until))
                   /\ match u with None => True | Some fs => Forall wf_fact fs end
    | SSeq l => (fix go (l : list sched) : Prop := match l with [] => True | x :: tl => wf_sched x /\ go tl end) l
    end.
  Lemma wf_sched_seq : forall l, wf_sched (SSeq l) <-> Forall wf_sched l.
  Proof.
    intro l. simpl. induction l as [|x tl IH]; split; intro H; auto.
    - destruct H. constructor; [assumption|apply IH; assumption].
    - inversion H; subst. split; [assumption|apply IH; assumption].
  Qed.
  Definition sx_sched (s : sched) : sexp := strip (lay_sched s).

  Lemma facts_ok : forall fs, Forall wf_fact fs ->
    wf_items false (List.map (fun f => it (lay_fact f)) fs)
    /\ (forall n, mapM (parse_fact chk) (List.map sx_fact fs) n = POk (fs, n))
    /\ Forall (fun s => option_name s = None) (List.map sx_fact fs).
  Proof.
    intros fs H. induction H as [|f tl Hf _ IH]; [split; [exact I | split; [reflexivity | constructor]]|].
    destruct (fact_ok f Hf) as [A B]. destruct IH as (C & D & E). split; [|split].
    - simpl. apply wf_it; assumption.
    - intro n. simpl. unfold bindM. rewrite B, D. reflexivity.
    - constructor; [|assumption]. destruct f as [a b|e]; [reflexivity|].
      destruct Hf as (_ & g & args & -> & _). reflexivity.
  Qed.

  Lemma take_vals_all : forall l, Forall (fun s => option_name s = None) l -> take_vals l = (l, []).
  Proof. induction 1 as [|x tl Hx _ IH]; simpl; [reflexivity|]. rewrite Hx, IH. reflexivity. Qed.

  Lemma list_disp_it : forall xs, list_disp sp sp xs = List.map it xs.
  Proof. destruct xs; reflexivity. Qed.

  Lemma until_ok : forall fs n, Forall wf_fact fs ->
    parse_until chk (SAtom k_until :: List.map sx_fact fs) n = POk (Some fs, n).
  Proof.
    intros fs n H. destruct (facts_ok fs H) as (_ & D & E).
    unfold parse_until, parse_options, bindM. simpl parse_options_fuel.
    rewrite (take_vals_all _ E). simpl. rewrite D. reflexivity.
  Qed.

  Lemma run_ok : forall rs u, wf_sched (SRun rs u) ->
    wf_l (lay_run rs u) /\ forall n, parse_sched chk (strip (lay_run rs u)) n = POk (SRun rs u, n).
  Proof.
    intros rs u [Hrs Hu]. unfold lay_run.
    assert (wf_items false (match u with None => [] | Some fs => it (LAtom k_until) :: list_disp sp sp (List.map lay_fact fs) end)
            /\ ws_str (match u with Some [] => sp | _ => [] end)
            /\ forall n, parse_until chk (List.map (fun p => strip (snd p))
                   (match u with None => [] | Some fs => it (LAtom k_until) :: list_disp sp sp (List.map lay_fact fs) end)) n = POk (u, n)) as (Wu & Wc & Pu).
    { destruct u as [fs|].
      - destruct (facts_ok fs Hu) as (C & _ & _). rewrite list_disp_it, map_map. split; [|split].
        + apply wf_it; [apply kw_until | exact C].
        + destruct fs; reflexivity.
        + intro n. simpl List.map. rewrite map_map.
          change (List.map (fun x => strip (snd (it (lay_fact x)))) fs) with (List.map sx_fact fs).
          apply until_ok. assumption.
      - split; [exact I | split; [reflexivity | reflexivity]]. }
    destruct Hrs as [->|[Hrs Hne]].
    - split.
      + apply wf_kw_list; [apply kw_run | exact Wu | exact Wc].
      + intro n. simpl app. cbn [strip List.map snd kw]. unfold parse_sched.
        change (str_eqb k_run k_saturate) with false. change (str_eqb k_run k_seq) with false.
        change (str_eqb k_run k_repeat) with false. change (str_eqb k_run k_run) with true. cbv iota.
        destruct u as [fs|].
        * pose proof (Pu n) as P. cbn [List.map snd it strip] in P |- *.
          rewrite (str_eqb_refl k_until). cbn [negb]. unfold bindM. rewrite P. reflexivity.
        * pose proof (Pu n) as P. cbn [List.map] in P |- *. unfold bindM. rewrite P. reflexivity.
    - split.
      + destruct rs as [|c rs']; [destruct Hrs as ((X & _) & _); congruence|].
        apply wf_kw_list; [apply kw_run | apply wf_it; [exact Hrs | exact Wu] | exact Wc].
      + intro n. destruct rs as [|c rs']; [destruct Hrs as ((X & _) & _); congruence|].
        cbn [app strip List.map snd kw it]. unfold parse_sched.
        change (str_eqb k_run k_saturate) with false. change (str_eqb k_run k_seq) with false.
        change (str_eqb k_run k_repeat) with false. change (str_eqb k_run k_run) with true. cbv iota.
        rewrite (str_eqb_neq _ _ Hne). cbn [negb]. unfold bindM, expect_atom, ret. rewrite (Pu n). reflexivity.
  Qed.

  Lemma parse_sched_list : forall (h : str) l,
    (fix go (l : list sexp) : M (list sched) :=
       match l with
       | [] => ret []
       | a :: tl => bindM (parse_sched chk a) (fun b => bindM (go tl) (fun bs => ret (b :: bs)))
       end) l = mapM (parse_sched chk) l.
  Proof. intros _ l. induction l as [|a tl IH]; simpl; [reflexivity | rewrite IH; reflexivity]. Qed.

  Lemma parse_sched_eq : forall h tail,
    parse_sched chk (SList (SAtom h :: tail)) =
    let scheds := mapM (parse_sched chk) in
    if str_eqb h k_saturate then bindM (scheds tail) (fun l => ret (SSaturate (SSeq l)))
    else if str_eqb h k_seq then bindM (scheds tail) (fun l => ret (SSeq l))
    else if str_eqb h k_repeat then
      match tail with
      | limit :: tail' => bindM (expect_uint None limit) (fun n => bindM (scheds tail') (fun l => ret (SRepeat n (SSeq l))))
      | [] => failM
      end
    else if str_eqb h k_run then
      let has_ruleset := match tail with
                         | [] => false
                         | SAtom o :: _ => negb (str_eqb o k_until)
                         | _ => true
                         end in
      match has_ruleset, tail with
      | true, x :: rest => bindM (expect_atom x) (fun rs => bindM (parse_until chk rest) (fun u => ret (SRun rs u)))
      | _, _ => bindM (parse_until chk tail) (fun u => ret (SRun [] u))
      end
    else failM.
  Proof.
    intros h tail. destruct tail as [|s tail]; cbn [parse_sched]; rewrite ?(parse_sched_list h); reflexivity.
  Qed.

  Lemma sched_ok : forall s, wf_sched s ->
    wf_l (lay_sched s) /\ forall n, parse_sched chk (sx_sched s) n = POk (rewrap s, n).
  Proof.
    induction s as [x IH|k x IH|rs u|l IH] using sched_ind2; intro Hwf.
    - destruct (IH Hwf) as [A B]. split.
      + apply wf_kw_list; [apply kw_saturate | apply wf_it; [exact A | exact I] | apply ws_nil].
      + intro n. change (sx_sched (SSaturate x)) with (SList [SAtom k_saturate; sx_sched x]).
        rewrite parse_sched_eq. cbv zeta. change (str_eqb k_saturate k_saturate) with true. cbv iota.
        cbn [mapM]. unfold bindM. rewrite (B n). reflexivity.
    - destruct Hwf as [Hk Hx]. destruct (IH Hx) as [A B]. split.
      + apply wf_kw_list; [apply kw_repeat | apply wf_it; [exact Hk | apply wf_it; [exact A | exact I]] | apply ws_nil].
      + intro n. change (sx_sched (SRepeat k x)) with (SList [SAtom k_repeat; SLit (LInt (Z.of_N k)); sx_sched x]).
        rewrite parse_sched_eq. cbv zeta.
        change (str_eqb k_repeat k_saturate) with false. change (str_eqb k_repeat k_seq) with false.
        change (str_eqb k_repeat k_repeat) with true. cbv iota. cbn [mapM].
        unfold bindM, expect_uint. assert (Z.leb 0 (Z.of_N k) = true) as -> by (apply Z.leb_le; lia).
        cbn [andb]. cbv iota. unfold ret. rewrite N2Z.id. rewrite (B n). reflexivity.
    - apply (run_ok rs u Hwf).
    - apply wf_sched_seq in Hwf.
      assert (wf_items false (List.map (fun x => it (lay_sched x)) l)
              /\ forall n, mapM (parse_sched chk) (List.map sx_sched l) n = POk (List.map rewrap l, n)) as [Wi Pi].
      { induction IH as [|x tl Hx _ IHtl]; [split; [exact I | reflexivity]|].
        inversion Hwf as [|? ? Hwx Hwtl]; subst. destruct (Hx Hwx) as [A B]. destruct (IHtl Hwtl) as [C D].
        split; [apply wf_it; assumption | intro n; simpl; unfold bindM; rewrite B, D; reflexivity]. }
      split.
      + simpl lay_sched. rewrite list_disp_it, map_map. apply wf_kw_list; [apply kw_seq | exact Wi | destruct l; reflexivity].
      + intro n. unfold sx_sched. simpl lay_sched. rewrite list_disp_it, map_map. cbn [strip List.map snd kw].
        rewrite map_map. change (List.map (fun x => strip (snd (it (lay_sched x)))) l) with (List.map sx_sched l).
        rewrite parse_sched_eq. cbv zeta.
        change (str_eqb k_seq k_saturate) with false. change (str_eqb k_seq k_seq) with true. cbv iota.
        unfold bindM. rewrite Pi. reflexivity.
  Qed.

  (** the re-wrapping is invisible once singleton sequences are flattened *)
  Fixpoint flat (s : sched) : sched :=
    match s with
    | SSaturate x => SSaturate (flat x)
    | SRepeat n x => SRepeat n (flat x)
    | SRun rs u => SRun rs u
    | SSeq l => match List.map flat l with [y] => y | l' => SSeq l' end
    end.
  Lemma flat_rewrap : forall s, flat (rewrap s) = flat s.
  Proof.
    induction s as [x IH|k x IH|rs u|l IH] using sched_ind2; simpl; try rewrite IH; try reflexivity.
    rewrite map_map. replace (List.map (fun x => flat (rewrap x)) l) with (List.map flat l); [reflexivity|].
    induction IH as [|x tl Hx _ IHtl]; simpl; [reflexivity | rewrite Hx, IHtl; reflexivity].
  Qed.

  Theorem sched_reparse : forall s n, wf_sched s ->
    parse_sched_str parse_f64 chk (print_sched fmt_f64 s) n = POk (rewrap s, n).
  Proof.
    intros s n H. destruct (sched_ok s H) as [A B]. unfold parse_sched_str, parse_with, print_sched.
    rewrite (read_sexp_text fmt_f64 parse_f64 fmt_chars fmt_nonempty parse_fmt _ A). apply B.
  Qed.
End Grammar.
