(** C03 — Semi-naive evaluation is observationally identical to naive evaluation.
    Theorem-backed: the delta decomposition over the timestamp constraints regenerated from
    egglog-bridge/src/rule.rs. The end-to-end equivalence (timestamps re-stamped by rebuild,
    merges, container refresh) is decided by the correspondence check: semi-naive engine vs naive
    engine vs the naive Gallina model, after every command. *)
From Coq Require Import List Arith PeanoNat Bool.
Import ListNotations.
Require Import Verif.gen.SourceFacts Verif.Semi.Delta Verif.Semi.History.

Theorem c03_old_is_not_new : forall mid ts, is_old mid ts = negb (is_new mid ts).
Proof. exact old_is_not_new. Qed.
Print Assumptions c03_old_is_not_new.

Theorem c03_delta_decomp : forall mid m,
  (all_old mid m = false <-> exists i, variant mid i m = true)
  /\ (forall i j, variant mid i m = true -> variant mid j m = true -> i = j)
  /\ (forall i, variant mid i m = true -> i < length m).
Proof. exact delta_decomp. Qed.
Print Assumptions c03_delta_decomp.

Theorem c03_first_run_late : forall m, m <> [] -> variant 0 0 m = true /\ all_old 0 m = false.
Proof. exact first_run_sees_all. Qed.
Print Assumptions c03_first_run_late.

Theorem c03_sole_focus_same : semi_sole_focus = semi_focus.
Proof. exact sole_focus_same. Qed.
Print Assumptions c03_sole_focus_same.

(** "each rule keeps its own last-run timestamp": with the frontier `run_rules_impl` uses NOW
    ([semi_frontier_src], [semi_frontier_advances_own]: regenerated from egglog-bridge/src/lib.rs),
    over ANY history of batches (any rules in any batch, any interleaving of rulesets, a rule run
    for the first time long after its inputs were written) with a clock that never goes back,
    every match older than its rule's stamp has fired exactly once and no other match has fired *)
Theorem c03_history_exactly_once : forall h,
  clocks_from 0 h ->
  let '(st, ws) := run_history semi_frontier_src semi_frontier_advances_own h (fun _ => 0) [] in
  forall r t, fired r t ws = if Nat.ltb t (st r) then 1 else 0.
Proof. exact source_frontier_exactly_once. Qed.
Print Assumptions c03_history_exactly_once.

(** a rule that has just run has nothing pending that is older than the clock *)
Theorem c03_run_catches_up : forall batch next st ws c r,
  c <= next -> inv c st ws -> In r batch ->
  let '(st', ws') := run_batch FOwnLastRun true batch batch next st ws in
  forall t, t < next -> fired r t ws' = 1.
Proof. exact own_frontier_run_catches_up. Qed.
Print Assumptions c03_run_catches_up.

(** non-vacuity: one frontier for a whole batch loses a match *)
Theorem c03_batch_frontier_refuted :
  let '(st, ws) := run_history FNotOwn true [mkRun [1] 5; mkRun [0; 1] 7] (fun _ => 0) [] in
  fired 0 2 ws = 0 /\ st 0 = 7.
Proof. exact batch_frontier_loses_a_match. Qed.
Print Assumptions c03_batch_frontier_refuted.

Example c03_example : variant 5 1 [3; 7; 2] = true /\ variant 5 0 [3; 7; 2] = false
                      /\ variant 5 2 [3; 7; 2] = false /\ all_old 5 [3; 4; 2] = true.
Proof. repeat split. Qed.

(* ------------------------------------------------------------------------------------------ *)
(** * The stamped model ([Semi/Stamped.v]) and the end-to-end equivalence *)
From Coq Require Import ZArith.
Require Import Verif.gen.SemiFacts Verif.Egg.Model Verif.Egg.Rules Verif.Semi.Stamped Verif.Semi.StampedProofs.

(** the re-stamping sites, regenerated from table/rebuild.rs (insert_row!, refresh_rows_for_values),
    EGraph::rebuild, MergeFn::to_callback, run_rules_inner, flush_updates_inner, run_rules_impl *)
Theorem c03_restamp_sites :
  restamp_on_rebuild = true /\ 1 <= rebuild_insert_sites /\ refresh_restamps = true
  /\ rebuild_ts_is_clock = true /\ restamp_on_merge_change = true /\ merge_ts_from_new = true
  /\ merge_keeps_stamp_when_unchanged = true /\ last_run_set_to_run_ts = true /\ run_ts_is_clock = true
  /\ inc_ts_no_rebuild_path = true /\ inc_ts_rebuild_path = true /\ inc_ts_flush = true
  /\ fl_rebuild src_flags = true /\ fl_merge src_flags = true.
Proof. repeat split; try reflexivity; apply Nat.leb_le; reflexivity. Qed.
Print Assumptions c03_restamp_sites.

(** the one fact the proof needs from the stamping discipline: a stamp older than the clock was
    inherited from the identical row of the previous table *)
Theorem c03_stamp_old : forall fl now p t ts r,
  fl_rebuild fl = true -> fl_merge fl = true ->
  new_stamp fl now p t ts r < now -> In (r, new_stamp fl now p t ts r) (combine t ts).
Proof. exact new_stamp_old. Qed.
Print Assumptions c03_stamp_old.

(** END-TO-END: for every signature, every program (top-level writes, rule declarations late or
    early, iterations of ANY rulesets in any order) whose ground commands lie in a fragment [P] with
    idempotent re-application (an executed command is a no-op; a no-op stays a no-op when further
    commands of the fragment run; grounding through witness terms is stable), the databases after
    EVERY command of the semi-naive run and of the naive run are equal. *)
Theorem c03_equiv : forall (sg : list mergefn) (W : state -> Prop) (P : xcmd -> Prop)
                           (EnvOk : state -> env -> Prop),
  (forall s c s', W s -> P c -> xexec sg s c = (s', None) -> W s') ->
  (forall s c s', W s -> P c -> xexec sg s c = (s', None) -> xexec sg s' c = (s', None)) ->
  (forall s c c' s', W s -> P c -> P c' -> xexec sg s c = (s, None) ->
      xexec sg s c' = (s', None) -> xexec sg s' c = (s', None)) ->
  (forall s fs e, W s -> In e (match_body s fs [[]]) -> EnvOk s e) ->
  (forall s c s' e, W s -> P c -> xexec sg s c = (s', None) -> EnvOk s e ->
      EnvOk s' e /\ forall a, ground_action s' e a = ground_action s e a) ->
  P XPanic -> W (init (length sg)) ->
  forall ks, Forall (scmd_in P) ks -> run_semi sg ks = run_naive sg ks.
Proof.
  intros sg W P EnvOk H1 H2 H3 H4 H5 H6 H7 ks HK. unfold run_semi, run_naive.
  apply (srun_equiv sg src_flags (proj1 src_flags_on) (proj2 src_flags_on) W P EnvOk H1 H2 H3 H4 H5 H6);
    auto.
  apply ts_inv_init. exact H7.
Qed.
Print Assumptions c03_equiv.

(** the timestamp invariant: what semi-naive evaluation skips (a match all of whose rows are older
    than the rule's last run) has only no-op commands *)
Theorem c03_ts_inv : forall (sg : list mergefn) (W : state -> Prop) (P : xcmd -> Prop) rules X sel,
  ts_inv sg W P (X, rules) ->
  forall bc, In bc (sel_tagged rules X sel) -> fst bc = false -> xexec sg (ss X) (snd bc) = (ss X, None).
Proof. exact skipped_noop. Qed.
Print Assumptions c03_ts_inv.

(** a row re-keyed by the rebuild MUST get the new timestamp: with [restamp_on_rebuild] flipped the
    match (f (b)) that exists only after (union b a) re-keys (f a) is lost *)
Definition c03_sg1 := [MUnionId; MUnionId; MUnionId; MUnionId].
Definition c03_ks1 :=
  [SAct (AExpr (PApp 0 [])); SAct (AExpr (PApp 2 [PApp 1 []]));
   SRule (mkRule [FEq 0 (PApp 2 [PApp 0 []])] [AExpr (PApp 3 [PVar 0])]); SIter [0];
   SAct (AUnion (PApp 1 []) (PApp 0 [])); SIter [0]].
Theorem c03_restamp_on_rebuild_refuted :
  map tabs_size (srun true (mkFlags false true) c03_sg1 (sinit 4) c03_ks1) = [1; 3; 3; 3; 3; 3]
  /\ map tabs_size (srun false (mkFlags false true) c03_sg1 (sinit 4) c03_ks1) = [1; 3; 3; 3; 3; 4].
Proof. split; vm_compute; reflexivity. Qed.
Print Assumptions c03_restamp_on_rebuild_refuted.

(** a merge that changes the value MUST re-stamp: with [restamp_on_merge_change] flipped the match
    enabled by lowering a :merge min value is lost *)
Definition c03_sg2 := [MUnionId; MMin; MUnionId].
Definition c03_ks2 :=
  [SAct (ASet 1 [PApp 0 []] (PInt 5));
   SRule (mkRule [FEq 0 (PApp 1 [PApp 0 []]); FLt (PVar 0) (PInt 4)] [AExpr (PApp 2 [])]); SIter [0];
   SAct (ASet 1 [PApp 0 []] (PInt 3)); SIter [0]].
Theorem c03_restamp_on_merge_refuted :
  map tabs_size (srun true (mkFlags true false) c03_sg2 (sinit 3) c03_ks2) = [2; 2; 2; 2; 2]
  /\ map tabs_size (srun false (mkFlags true false) c03_sg2 (sinit 3) c03_ks2) = [2; 2; 2; 2; 3].
Proof. split; vm_compute; reflexivity. Qed.
Print Assumptions c03_restamp_on_merge_refuted.

(** with the flags read from the source both late matches are found (and the runs are non-trivial) *)
Example c03_stamped_example :
  map tabs_size (run_semi c03_sg1 c03_ks1) = [1; 3; 3; 3; 3; 4]
  /\ run_semi c03_sg1 c03_ks1 = run_naive c03_sg1 c03_ks1
  /\ map tabs_size (run_semi c03_sg2 c03_ks2) = [2; 2; 2; 2; 3]
  /\ run_semi c03_sg2 c03_ks2 = run_naive c03_sg2 c03_ks2.
Proof. repeat split; vm_compute; reflexivity. Qed.
