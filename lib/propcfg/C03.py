"""C03 configuration for bin/check."""

CFG = {'assumptions': ['monotone fragment (generator emits inserts, lattice sets, unions, rules, runs only)',
                 'c03_equiv is stated for every fragment P of ground commands with idempotent re-application '
                 '(hypotheses written out in Props/C03.v: an executed command is a no-op afterwards; a no-op stays a '
                 'no-op when further fragment commands run; grounding through witness terms is stable; an invariant W '
                 'of reachable databases). These hypotheses are NOT yet discharged for the Egg interpreter by a general '
                 'proof (only exercised by the vm_compute Examples c03_stamped_example); discharging them for the '
                 'insert/union/lattice-set/subsume fragment over WFx is the remaining proof work',
                 'the stamped model orders the fired matches as the naive interpreter does (a sub-sequence); the engine '
                 'batches all actions of an iteration, so the order inside an iteration is not observable'],
 'corr_is_violation': True,
 'harness': [{'bin': 'h_egg', 'extra': ['--prop', 'C03'], 'name': 'h_egg', 'prefix': 'cases_egg'}],
 'link_only': 'that the real engine stamps rows exactly as Semi/Stamped.v restamp does (rebuild re-insert, value-changing '
              'merge, container refresh): the SITES are Tier-A facts (gen/SemiFacts.v) but per-row timestamps are not '
              'observable through the public API, so the behaviour is decided by running the semi-naive engine, the naive '
              'engine (seminaive=false) and the naive model in lockstep and comparing observations after EVERY command; '
              'container refresh (dirty-id closure) is lockstep only; the idempotent-re-application hypotheses of c03_equiv',
 'model_targets': ['Egg/Rules.vo', 'Semi/Stamped.vo'],
 'proof_targets': ['Props/C03.vo'],
 'theorem_backed': 'stamped executable model on top of the Egg rule interpreter (rows carry last-written timestamps, recomputed '
                   'after every command under the regenerated flags; run_semi fires only matches that are not matches of the '
                   'database filtered to rows OLD for the rule under the regenerated constraint/frontier; run_naive fires all). '
                   'c03_equiv: for every signature, program (top-level writes, late rule declarations, iterations of any '
                   'rulesets in any order) and fragment with idempotent re-application, run_semi = run_naive after EVERY '
                   'command; c03_ts_inv: what semi-naive skips has only no-op commands (invariant ts_inv kept by every '
                   'command, ts_inv_reachable); c03_stamp_old: a stamp older than the clock was inherited from the identical '
                   'row of the previous table; c03_restamp_sites: all regenerated re-stamping facts hold; '
                   'c03_restamp_on_rebuild_refuted / c03_restamp_on_merge_refuted: flipping a flag loses a concrete match. '
                   'Also (before): history theorem over the regenerated frontier, delta decomposition over the regenerated '
                   'constraints, first run sees everything, sole focus uses the same constraint',
 'tier_a': ['UFSeq', 'MergeArms', 'BridgeFns', 'Facts.semi_constraints', 'Facts.semi_frontier',
            'SemiFacts.rebuild_restamp', 'SemiFacts.rebuild_clock', 'SemiFacts.merge_restamp', 'SemiFacts.inc_ts'],
 'trusted': ['translator /verif/translator: gen/SourceFacts.v records the timestamp constraints '
             'add_rules_from_cached emits (focus GeConst, earlier atoms LtConst over the prefix 0..focus); '
             'the delta-decomposition theorem is stated over them',
             'translator x_semi.rs: gen/SemiFacts.v records the re-stamping sites (insert_row! writes next_ts before '
             'stage_insert and every rebuild path inserts through it; refresh_rows_for_values; EGraph::rebuild hands the '
             'current clock to apply_rebuild and advances it; MergeFn::to_callback writes the incoming timestamp iff value '
             'or subsume flag changed; run_rules_inner/flush_updates_inner inc_ts; run_rules_impl last_run_at = next_ts); '
             'matching is on whitespace-free token text of syn-located functions',
             'naive Gallina model coq/Egg/Rules.v tied to the engine by the correspondence check']}
